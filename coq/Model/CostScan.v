(* Spike: executable Gallina model of lib/yaml/reader.py (eager str input) + lib/yaml/scanner.py.
   Hand-transcribed function by function; character classes are entered by hand here (GenChars later). *)
From Coq Require Import List NArith ZArith Bool Arith Lia.
Import ListNotations.

Definition cp := N.
Definition str := list cp.

Record mark := { m_index : nat; m_line : nat; m_col : nat }.

Inductive style := SPlain | SSingle | SDouble | SLiteral | SFolded.
Inductive dirval := DNone | DYaml (major minor : str) | DTag (handle prefix : str).
Inductive tok :=
| TStreamStart | TStreamEnd | TDirective (name : str) (val : dirval) | TDocStart | TDocEnd
| TBlockSeqStart | TBlockMapStart | TBlockEnd | TFlowSeqStart | TFlowMapStart | TFlowSeqEnd | TFlowMapEnd
| TBlockEntry | TFlowEntry | TKey | TValue | TAlias (v : str) | TAnchor (v : str)
| TTag (handle : option str) (suffix : str) | TScalar (v : str) (plain : bool) (st : style).
Record token := { t_kind : tok; t_start : mark; t_end : mark }.

Inductive pyexn := IndexError | ValueError | OverflowError.
Inductive res (A : Type) :=
| Ok (a : A)
| ScanErr (ctx : option mark) (code : nat) (pm : mark)
| Crash (e : pyexn)
| OutOfFuel.
Arguments Ok {A}. Arguments ScanErr {A}. Arguments Crash {A}. Arguments OutOfFuel {A}.

Record skey := { k_tokno : nat; k_req : bool; k_index : nat; k_line : nat; k_mark : mark }.

Record st := {
  rest : str; index : nat; line : nat; col : nat;
  sdone : bool; flow_level : Z; tokens : list token; taken : nat;
  indent : Z; indents : list Z; allow_sk : bool; psk : list (Z * skey); ticks : nat * nat * nat * nat }.

Definition M (A : Type) := st -> res (A * st).
Definition ret {A} (a : A) : M A := fun s => Ok (a, s).
Definition bind {A B} (m : M A) (k : A -> M B) : M B :=
  fun s => match m s with
           | Ok (a, s') => k a s'
           | ScanErr c e p => ScanErr c e p | Crash e => Crash e | OutOfFuel => OutOfFuel end.
Notation "x <- m ;; k" := (bind m (fun x => k)) (at level 61, m at next level, right associativity).
Notation "m ;;; k" := (bind m (fun _ => k)) (at level 61, right associativity).
Definition get : M st := fun s => Ok (s, s).
Definition put (s : st) : M unit := fun _ => Ok (tt, s).
Definition crash {A} (e : pyexn) : M A := fun _ => Crash e.
Definition nofuel {A} : M A := fun _ => OutOfFuel.

(* ---------- characters ---------- *)
Open Scope N_scope.
Definition NUL := 0. Definition SP := 32. Definition TAB := 9. Definition CR := 13. Definition LF := 10.
Definition NEL := 133. Definition LS := 8232. Definition PS := 8233. Definition BOM := 65279.
Definition mem (c : cp) (s : str) : bool := existsb (N.eqb c) s.
Definition blankz : str := [NUL; SP; TAB; CR; LF; NEL; LS; PS].      (* '\0 \t\r\n\x85  ' *)
Definition blankz_notab : str := [NUL; SP; CR; LF; NEL; LS; PS].     (* '\0 \r\n\x85  '  *)
Definition breakz : str := [NUL; CR; LF; NEL; LS; PS].               (* '\0\r\n\x85  '   *)
Definition breaks : str := [CR; LF; NEL; LS; PS].
Definition is_alnum_ (c : cp) : bool :=
  ((48 <=? c) && (c <=? 57)) || ((65 <=? c) && (c <=? 90)) || ((97 <=? c) && (c <=? 122)) || (c =? 45) || (c =? 95).
Definition is_digit (c : cp) : bool := (48 <=? c) && (c <=? 57).
Definition is_hex (c : cp) : bool := is_digit c || ((65 <=? c) && (c <=? 70)) || ((97 <=? c) && (c <=? 102)).
Definition hexval (c : cp) : N := if is_digit c then c - 48 else if (65 <=? c) && (c <=? 70) then c - 55 else c - 87.
Fixpoint str_eqb (a b : str) : bool :=
  match a, b with [], [] => true | x :: a', y :: b' => (x =? y) && str_eqb a' b' | _, _ => false end.
Close Scope N_scope.

Definition tick (k : nat) (s : st) : st :=
  let '(a, b, c, d) := ticks s in
  {| rest := rest s; index := index s; line := line s; col := col s; sdone := sdone s; flow_level := flow_level s;
     tokens := tokens s; taken := taken s; indent := indent s; indents := indents s; allow_sk := allow_sk s; psk := psk s;
     ticks := match k with 0 => (S a, b, c, d) | 1 => (a, S b, c, d) | 2 => (a, b, S c, d) | _ => (a, b, c, S d) end |}.
(* ---------- reader primitives (reader.py:87-120, eager str input: pointer = index) ---------- *)
Definition peek (i : nat) : M cp :=
  fun s => match nth_error (rest s) i with Some c => Ok (c, tick 0 s) | None => Crash IndexError end.
Definition prefix (n : nat) : M str := fun s => Ok (firstn n (rest s), tick 1 s).
Definition get_mark : M mark := fun s => Ok ({| m_index := index s; m_line := line s; m_col := col s |}, tick 3 s).

Definition upd_pos (s : st) (r : str) (i l c : nat) : st :=
  {| rest := r; index := i; line := l; col := c; sdone := sdone s; flow_level := flow_level s;
     tokens := tokens s; taken := taken s; indent := indent s; indents := indents s;
     allow_sk := allow_sk s; psk := psk s; ticks := ticks s |}.

Fixpoint forward_w (n : nat) : M unit :=
  match n with
  | O => ret tt
  | S n' => fun s =>
      match rest s with
      | [] => Crash IndexError
      | ch :: r =>
          let nxt := match r with [] => None | c :: _ => Some c end in
          match nxt, N.eqb ch CR with
          | None, true => Crash IndexError          (* self.buffer[self.pointer] after the last char *)
          | _, _ =>
            let is_brk := mem ch [LF; NEL; LS; PS] || (N.eqb ch CR && negb (match nxt with Some c => N.eqb c LF | None => false end)) in
            let s' := if is_brk then upd_pos s r (S (index s)) (S (line s)) 0
                      else if N.eqb ch BOM then upd_pos s r (S (index s)) (line s) (col s)
                      else upd_pos s r (S (index s)) (line s) (S (col s)) in
            forward_w n' s'
          end
      end
  end.

Definition forward (n : nat) : M unit := fun s => forward_w n (tick 2 s).

(* ---------- state field setters ---------- *)
Definition set_tokens (f : list token -> list token) : M unit := fun s => Ok (tt,
  {| rest := rest s; index := index s; line := line s; col := col s; sdone := sdone s; flow_level := flow_level s;
     tokens := f (tokens s); taken := taken s; indent := indent s; indents := indents s; allow_sk := allow_sk s; psk := psk s; ticks := ticks s |}).
Definition set_allow (b : bool) : M unit := fun s => Ok (tt,
  {| rest := rest s; index := index s; line := line s; col := col s; sdone := sdone s; flow_level := flow_level s;
     tokens := tokens s; taken := taken s; indent := indent s; indents := indents s; allow_sk := b; psk := psk s; ticks := ticks s |}).
Definition set_psk (f : list (Z * skey) -> list (Z * skey)) : M unit := fun s => Ok (tt,
  {| rest := rest s; index := index s; line := line s; col := col s; sdone := sdone s; flow_level := flow_level s;
     tokens := tokens s; taken := taken s; indent := indent s; indents := indents s; allow_sk := allow_sk s; psk := f (psk s); ticks := ticks s |}).
Definition set_flow (z : Z) : M unit := fun s => Ok (tt,
  {| rest := rest s; index := index s; line := line s; col := col s; sdone := sdone s; flow_level := z;
     tokens := tokens s; taken := taken s; indent := indent s; indents := indents s; allow_sk := allow_sk s; psk := psk s; ticks := ticks s |}).
Definition set_indent (i : Z) (is : list Z) : M unit := fun s => Ok (tt,
  {| rest := rest s; index := index s; line := line s; col := col s; sdone := sdone s; flow_level := flow_level s;
     tokens := tokens s; taken := taken s; indent := i; indents := is; allow_sk := allow_sk s; psk := psk s; ticks := ticks s |}).
Definition set_done : M unit := fun s => Ok (tt,
  {| rest := rest s; index := index s; line := line s; col := col s; sdone := true; flow_level := flow_level s;
     tokens := tokens s; taken := taken s; indent := indent s; indents := indents s; allow_sk := allow_sk s; psk := psk s; ticks := ticks s |}).
Definition incr_taken : M unit := fun s => Ok (tt,
  {| rest := rest s; index := index s; line := line s; col := col s; sdone := sdone s; flow_level := flow_level s;
     tokens := tokens s; taken := S (taken s); indent := indent s; indents := indents s; allow_sk := allow_sk s; psk := psk s; ticks := ticks s |}).

Definition err {A} (ctx : option mark) (code : nat) : M A :=
  fun s => ScanErr ctx code {| m_index := index s; m_line := line s; m_col := col s |}.
Definition err_at {A} (ctx : option mark) (code : nat) (m : mark) : M A := fun _ => ScanErr ctx code m.
Definition append_token (k : tok) (a b : mark) : M unit :=
  set_tokens (fun l => l ++ [{| t_kind := k; t_start := a; t_end := b |}]).

Definition flowing : M bool := s <- get ;; ret (negb (Z.eqb (flow_level s) 0)).

(* ---------- simple keys (scanner.py:264-321) ---------- *)
Fixpoint psk_find (z : Z) (l : list (Z * skey)) : option skey :=
  match l with [] => None | (z', k) :: l' => if Z.eqb z z' then Some k else psk_find z l' end.
Fixpoint psk_del (z : Z) (l : list (Z * skey)) : list (Z * skey) :=
  match l with [] => [] | (z', k) :: l' => if Z.eqb z z' then l' else (z', k) :: psk_del z l' end.

Definition next_possible_simple_key (s : st) : option nat :=
  fold_left (fun acc zk => match acc with None => Some (k_tokno (snd zk))
                                     | Some m => if Nat.ltb (k_tokno (snd zk)) m then Some (k_tokno (snd zk)) else Some m end)
            (psk s) None.

(* iterate over list(self.possible_simple_keys): raise on the first required stale key, delete the others *)
Fixpoint stale_loop (keys : list (Z * skey)) : M unit :=
  match keys with
  | [] => ret tt
  | (z, k) :: keys' =>
      s <- get ;;
      if negb (Nat.eqb (k_line k) (line s)) || Nat.ltb 1024 (index s - k_index k)
      then (if k_req k then err (Some (k_mark k)) 1 (* could not find expected ':' *)
            else set_psk (psk_del z) ;;; stale_loop keys')
      else stale_loop keys'
  end.
Definition stale_possible_simple_keys : M unit := s <- get ;; stale_loop (psk s).

Definition remove_possible_simple_key : M unit :=
  s <- get ;;
  match psk_find (flow_level s) (psk s) with
  | Some k => if k_req k then err (Some (k_mark k)) 1 else set_psk (psk_del (flow_level s))
  | None => ret tt
  end.

Definition save_possible_simple_key : M unit :=
  s <- get ;;
  let required := Z.eqb (flow_level s) 0 && Z.eqb (indent s) (Z.of_nat (col s)) in
  if allow_sk s then
    remove_possible_simple_key ;;;
    s <- get ;;
    m <- get_mark ;;
    let key := {| k_tokno := taken s + length (tokens s); k_req := required;
                  k_index := index s; k_line := line s; k_mark := m |} in
    set_psk (fun l => psk_del (flow_level s) l ++ [(flow_level s, key)])
  else ret tt.

(* ---------- indentation (scanner.py:325-355) ---------- *)
Fixpoint unwind_loop (fuel : nat) (column : Z) : M unit :=
  match fuel with O => nofuel | S f =>
    s <- get ;;
    if Z.ltb column (indent s) then
      m <- get_mark ;;
      match rev (indents s) with
      | [] => crash IndexError                           (* pop from empty list *)
      | top :: rest_rev => set_indent top (rev rest_rev) ;;; append_token TBlockEnd m m ;;; unwind_loop f column
      end
    else ret tt
  end.
Definition unwind_indent (column : Z) : M unit :=
  fl <- flowing ;; if fl then ret tt else (s <- get ;; unwind_loop (S (length (indents s))) column).

Definition add_indent (column : Z) : M bool :=
  s <- get ;;
  if Z.ltb (indent s) column then set_indent column (indents s ++ [indent s]) ;;; ret true else ret false.

(* ---------- low-level scanners ---------- *)
(* scan_line_break (scanner.py:1416-1435) *)
Definition scan_line_break : M str :=
  ch <- peek 0 ;;
  if mem ch [CR; LF; NEL] then
    p <- prefix 2 ;;
    (if str_eqb p [CR; LF] then forward 2 else forward 1) ;;; ret [LF]
  else if mem ch [LS; PS] then forward 1 ;;; ret [ch]
  else ret [].

Fixpoint skip_spaces (fuel : nat) : M unit :=            (* while self.peek() == ' ': self.forward() *)
  match fuel with O => nofuel | S f => ch <- peek 0 ;; if N.eqb ch SP then forward 1 ;;; skip_spaces f else ret tt end.
Fixpoint skip_to_eol (fuel : nat) : M unit :=            (* while self.peek() not in '\0\r\n\x85  ': forward *)
  match fuel with O => nofuel | S f => ch <- peek 0 ;; if mem ch breakz then ret tt else forward 1 ;;; skip_to_eol f end.
(* length = 0; while p(self.peek(length)): length += 1 *)
Fixpoint span (fuel : nat) (p : cp -> bool) (n : nat) : M nat :=
  match fuel with O => nofuel | S f => ch <- peek n ;; if p ch then span f p (S n) else ret n end.
Definition fuel_of (s : st) : nat := S (S (length (rest s))).
Definition with_fuel {A} (k : nat -> M A) : M A := s <- get ;; k (fuel_of s).

(* scan_to_next_token (scanner.py:752-785) *)
Fixpoint stnt_loop (fuel : nat) : M unit :=
  match fuel with O => nofuel | S f =>
    with_fuel skip_spaces ;;;
    ch <- peek 0 ;;
    (if N.eqb ch 35 (* # *) then with_fuel skip_to_eol else ret tt) ;;;
    lb <- scan_line_break ;;
    match lb with
    | [] => ret tt
    | _ => fl <- flowing ;; (if fl then ret tt else set_allow true) ;;; stnt_loop f
    end
  end.
Definition scan_to_next_token : M unit :=
  s <- get ;;
  ch <- peek 0 ;;
  (if Nat.eqb (index s) 0 && N.eqb ch BOM then forward 1 else ret tt) ;;;
  with_fuel stnt_loop.

(* ---------- directives (scanner.py:787-897) ---------- *)
Definition scan_directive_name (start : mark) : M str :=
  n <- with_fuel (fun f => span f is_alnum_ 0) ;;
  match n with
  | O => err (Some start) 2
  | _ => v <- prefix n ;; forward n ;;; ch <- peek 0 ;;
         if mem ch blankz_notab then ret v else err (Some start) 2
  end.
Definition scan_yaml_directive_number (start : mark) : M str :=
  ch <- peek 0 ;;
  if negb (is_digit ch) then err (Some start) 3 else
  n <- with_fuel (fun f => span f is_digit 0) ;;
  v <- prefix n ;; forward n ;;; ret v.         (* int(...) kept as its digit string in the spike *)
Definition scan_yaml_directive_value (start : mark) : M dirval :=
  with_fuel skip_spaces ;;;
  major <- scan_yaml_directive_number start ;;
  ch <- peek 0 ;;
  if negb (N.eqb ch 46) then err (Some start) 4 else
  forward 1 ;;;
  minor <- scan_yaml_directive_number start ;;
  ch <- peek 0 ;;
  if mem ch blankz_notab then ret (DYaml major minor) else err (Some start) 5.

(* scan_tag_handle (scanner.py:1348-1370) *)
Definition scan_tag_handle (start : mark) : M str :=
  ch <- peek 0 ;;
  if negb (N.eqb ch 33) then err (Some start) 6 else
  ch1 <- peek 1 ;;
  if N.eqb ch1 SP then (v <- prefix 1 ;; forward 1 ;;; ret v) else
  n <- with_fuel (fun f => span f is_alnum_ 1) ;;
  chn <- peek n ;;
  if negb (N.eqb chn 33) then forward n ;;; err (Some start) 6 else
  v <- prefix (S n) ;; forward (S n) ;;; ret v.

(* scan_uri_escapes (scanner.py:1397-1414): bytes are collected; UTF-8 decoding of the group *)
Open Scope N_scope.
Fixpoint utf8_decode (fuel : nat) (bs : list N) : option str :=
  match fuel with O => None | S f =>
  match bs with
  | [] => Some []
  | b0 :: r =>
    if b0 <? 128 then option_map (cons b0) (utf8_decode f r)
    else if b0 <? 194 then None
    else if b0 <? 224 then
      match r with b1 :: r1 => if (128 <=? b1) && (b1 <? 192) then option_map (cons ((b0 - 192) * 64 + (b1 - 128))) (utf8_decode f r1) else None | _ => None end
    else if b0 <? 240 then
      match r with b1 :: b2 :: r2 =>
        let lo := if b0 =? 224 then 160 else 128 in let hi := if b0 =? 237 then 160 else 192 in
        if (lo <=? b1) && (b1 <? hi) && (128 <=? b2) && (b2 <? 192)
        then option_map (cons ((b0 - 224) * 4096 + (b1 - 128) * 64 + (b2 - 128))) (utf8_decode f r2) else None | _ => None end
    else if b0 <? 245 then
      match r with b1 :: b2 :: b3 :: r3 =>
        let lo := if b0 =? 240 then 144 else 128 in let hi := if b0 =? 244 then 144 else 192 in
        if (lo <=? b1) && (b1 <? hi) && (128 <=? b2) && (b2 <? 192) && (128 <=? b3) && (b3 <? 192)
        then option_map (cons ((b0 - 240) * 262144 + (b1 - 128) * 4096 + (b2 - 128) * 64 + (b3 - 128))) (utf8_decode f r3) else None | _ => None end
    else None
  end end.
Close Scope N_scope.

Fixpoint uri_escapes_loop (fuel : nat) (start : mark) (acc : list N) : M (list N) :=
  match fuel with O => nofuel | S f =>
    ch <- peek 0 ;;
    if N.eqb ch 37 then
      forward 1 ;;;
      c0 <- peek 0 ;;
      if negb (is_hex c0) then err (Some start) 7 else
      c1 <- peek 1 ;;
      if negb (is_hex c1) then err (Some start) 7 else
      forward 2 ;;; uri_escapes_loop f start (acc ++ [(hexval c0 * 16 + hexval c1)%N])
    else ret acc
  end.
Definition scan_uri_escapes (start : mark) : M str :=
  m <- get_mark ;;
  codes <- with_fuel (fun f => uri_escapes_loop f start []) ;;
  match utf8_decode (S (length codes)) codes with
  | Some v => ret v
  | None => err_at (Some start) 8 m
  end.

Definition is_uri_char (c : cp) : bool :=
  is_alnum_ c || mem c [59;47;63;58;64;38;61;43;36;44;46;33;126;42;39;40;41;91;93;37]%N.
  (* '-;/?:@&=+$,_.!~*\'()[]%'  ('-' and '_' are in is_alnum_) *)

Fixpoint tag_uri_loop (fuel : nat) (start : mark) (chunks : str) (len : nat) : M (str * nat * bool) :=
  (* returns accumulated chunks, pending length, whether any chunk was appended *)
  match fuel with O => nofuel | S f =>
    ch <- peek len ;;
    if is_uri_char ch then
      if N.eqb ch 37 then
        p <- prefix len ;; forward len ;;;
        e <- scan_uri_escapes start ;;
        r <- tag_uri_loop f start (chunks ++ p ++ e) 0 ;;
        let '(c, l, _) := r in ret (c, l, true)
      else tag_uri_loop f start chunks (S len)
    else ret (chunks, len, false)
  end.
Definition scan_tag_uri (start : mark) (code : nat) : M str :=
  r <- with_fuel (fun f => tag_uri_loop f start [] 0) ;;
  let '(chunks, len, any) := r in
  (if Nat.eqb len 0 then
     if any then ret chunks else (ch <- peek 0 ;; err (Some start) code)
   else p <- prefix len ;; forward len ;;; ret (chunks ++ p)).

Definition scan_tag_directive_value (start : mark) : M dirval :=
  with_fuel skip_spaces ;;;
  handle <- scan_tag_handle start ;;
  ch <- peek 0 ;;
  if negb (N.eqb ch SP) then err (Some start) 9 else
  with_fuel skip_spaces ;;;
  pfx <- scan_tag_uri start 10 ;;
  ch <- peek 0 ;;
  if mem ch blankz_notab then ret (DTag handle pfx) else err (Some start) 9.

Definition scan_directive_ignored_line (start : mark) : M unit :=
  with_fuel skip_spaces ;;;
  ch <- peek 0 ;;
  (if N.eqb ch 35 then with_fuel skip_to_eol else ret tt) ;;;
  ch <- peek 0 ;;
  if mem ch breakz then scan_line_break ;;; ret tt else err (Some start) 11.

Definition YAMLs : str := [89;65;77;76]%N.  Definition TAGs : str := [84;65;71]%N.
Definition scan_directive : M token :=
  start <- get_mark ;;
  forward 1 ;;;
  name <- scan_directive_name start ;;
  r <- (if str_eqb name YAMLs then v <- scan_yaml_directive_value start ;; e <- get_mark ;; ret (v, e)
        else if str_eqb name TAGs then v <- scan_tag_directive_value start ;; e <- get_mark ;; ret (v, e)
        else e <- get_mark ;; with_fuel skip_to_eol ;;; ret (DNone, e)) ;;
  scan_directive_ignored_line start ;;;
  ret {| t_kind := TDirective name (fst r); t_start := start; t_end := snd r |}.

(* ---------- anchors, tags (scanner.py:899-974) ---------- *)
Definition anchor_follow : str := (blankz ++ [63;58;44;93;125;37;64;96])%N.
Definition scan_anchor (is_alias : bool) : M token :=
  start <- get_mark ;;
  forward 1 ;;;
  n <- with_fuel (fun f => span f is_alnum_ 0) ;;
  match n with
  | O => err (Some start) 12
  | _ => v <- prefix n ;; forward n ;;; ch <- peek 0 ;;
         if mem ch anchor_follow then
           e <- get_mark ;; ret {| t_kind := if is_alias then TAlias v else TAnchor v; t_start := start; t_end := e |}
         else err (Some start) 12
  end.

Fixpoint tag_handle_probe (fuel : nat) (len : nat) : M bool :=   (* use_handle detection *)
  match fuel with O => nofuel | S f =>
    ch <- peek len ;;
    if mem ch blankz_notab then ret false
    else if N.eqb ch 33 then ret true
    else tag_handle_probe f (S len)
  end.
Definition scan_tag : M token :=
  start <- get_mark ;;
  ch <- peek 1 ;;
  r <- (if N.eqb ch 60 (* < *) then
          forward 2 ;;; suffix <- scan_tag_uri start 13 ;;
          c <- peek 0 ;;
          if negb (N.eqb c 62) then err (Some start) 14 else forward 1 ;;; ret (None, suffix)
        else if mem ch blankz then forward 1 ;;; ret (None, [33%N])
        else
          use_handle <- with_fuel (fun f => tag_handle_probe f 1) ;;
          handle <- (if use_handle then scan_tag_handle start else forward 1 ;;; ret [33%N]) ;;
          suffix <- scan_tag_uri start 13 ;;
          ret (Some handle, suffix)) ;;
  c <- peek 0 ;;
  if negb (mem c blankz_notab) then err (Some start) 15 else
  e <- get_mark ;;
  ret {| t_kind := TTag (fst r) (snd r); t_start := start; t_end := e |}.

(* ---------- block scalars (scanner.py:976-1132) ---------- *)
Inductive chomp := CNone | CKeep | CStrip.
Definition scan_block_scalar_indicators (start : mark) : M (chomp * option nat) :=
  ch <- peek 0 ;;
  r <- (if mem ch [43;45]%N then
          let c := if N.eqb ch 43 then CKeep else CStrip in
          forward 1 ;;; ch2 <- peek 0 ;;
          if is_digit ch2 then
            (if N.eqb ch2 48 then err (Some start) 16 else forward 1 ;;; ret (c, Some (N.to_nat (ch2 - 48))))
          else ret (c, None)
        else if is_digit ch then
          (if N.eqb ch 48 then err (Some start) 16 else
           forward 1 ;;; ch2 <- peek 0 ;;
           if mem ch2 [43;45]%N then forward 1 ;;; ret (if N.eqb ch2 43 then CKeep else CStrip, Some (N.to_nat (ch - 48)))
           else ret (CNone, Some (N.to_nat (ch - 48))))
        else ret (CNone, None)) ;;
  ch <- peek 0 ;;
  if mem ch blankz_notab then ret r else err (Some start) 17.

Definition scan_block_scalar_ignored_line (start : mark) : M unit :=
  with_fuel skip_spaces ;;;
  ch <- peek 0 ;;
  (if N.eqb ch 35 then with_fuel skip_to_eol else ret tt) ;;;
  ch <- peek 0 ;;
  if mem ch breakz then scan_line_break ;;; ret tt else err (Some start) 18.

Fixpoint bs_indentation_loop (fuel : nat) (chunks : list str) (max_indent : nat) (e : mark) : M (list str * nat * mark) :=
  match fuel with O => nofuel | S f =>
    ch <- peek 0 ;;
    if mem ch (SP :: breaks) then
      if negb (N.eqb ch SP) then
        lb <- scan_line_break ;; e' <- get_mark ;; bs_indentation_loop f (chunks ++ [lb]) max_indent e'
      else
        forward 1 ;;; s <- get ;;
        bs_indentation_loop f chunks (Nat.max max_indent (col s)) e
    else ret (chunks, max_indent, e)
  end.

Fixpoint skip_indent (fuel : nat) (ind : nat) : M unit :=   (* while self.column < indent and self.peek() == ' ' *)
  match fuel with O => nofuel | S f =>
    s <- get ;; ch <- peek 0 ;;
    if Nat.ltb (col s) ind && N.eqb ch SP then forward 1 ;;; skip_indent f ind else ret tt
  end.
Fixpoint bs_breaks_loop (fuel : nat) (ind : nat) (chunks : list str) (e : mark) : M (list str * mark) :=
  match fuel with O => nofuel | S f =>
    ch <- peek 0 ;;
    if mem ch breaks then
      lb <- scan_line_break ;; e' <- get_mark ;;
      with_fuel (fun f' => skip_indent f' ind) ;;;
      bs_breaks_loop f ind (chunks ++ [lb]) e'
    else ret (chunks, e)
  end.
Definition scan_block_scalar_breaks (ind : nat) : M (list str * mark) :=
  e <- get_mark ;;
  with_fuel (fun f => skip_indent f ind) ;;;
  with_fuel (fun f => bs_breaks_loop f ind [] e).

Definition not_breakz (c : cp) : bool := negb (mem c breakz).
Fixpoint bs_body_loop (fuel : nat) (folded : bool) (ind : nat) (chunks : str) (brks : list str) (e : mark)
  : M (str * str * list str * mark) :=     (* chunks, last line_break, breaks, end_mark *)
  match fuel with O => nofuel | S f =>
    (* precondition: column == indent and peek != NUL *)
    let chunks := chunks ++ concat brks in
    ch0 <- peek 0 ;;
    let leading_non_space := negb (mem ch0 [SP; TAB]) in
    n <- with_fuel (fun f' => span f' not_breakz 0) ;;
    p <- prefix n ;; forward n ;;;
    let chunks := chunks ++ p in
    lb <- scan_line_break ;;
    r <- scan_block_scalar_breaks ind ;;
    let '(brks', e') := r in
    s <- get ;; ch <- peek 0 ;;
    if Nat.eqb (col s) ind && negb (N.eqb ch NUL) then
      let chunks :=
        if folded && str_eqb lb [LF] && leading_non_space && negb (mem ch [SP; TAB])
        then (match brks' with [] => chunks ++ [SP] | _ => chunks end)
        else chunks ++ lb in
      bs_body_loop f folded ind chunks brks' e'
    else ret (chunks, lb, brks', e')
  end.

Definition scan_block_scalar (folded : bool) : M token :=
  start <- get_mark ;;
  forward 1 ;;;
  ci <- scan_block_scalar_indicators start ;;
  let '(chomping, increment) := ci in
  scan_block_scalar_ignored_line start ;;;
  s <- get ;;
  let min_indent := Z.to_nat (Z.max 1 (indent s + 1)) in
  r <- (match increment with
        | None => x <- with_fuel (fun f => (e <- get_mark ;; bs_indentation_loop f [] 0 e)) ;;
                  let '(brks, max_indent, e) := x in ret (brks, e, Nat.max min_indent max_indent)
        | Some inc => let ind := min_indent + inc - 1 in
                      x <- scan_block_scalar_breaks ind ;; ret (fst x, snd x, ind)
        end) ;;
  let '(brks, e, ind) := r in
  s <- get ;; ch <- peek 0 ;;
  body <- (if Nat.eqb (col s) ind && negb (N.eqb ch NUL)
           then with_fuel (fun f => bs_body_loop f folded ind [] brks e)
           else ret ([], [], brks, e)) ;;
  let '(chunks, lb, brks', e') := body in
  let chunks := match chomping with CStrip => chunks | _ => chunks ++ lb end in
  let chunks := match chomping with CKeep => chunks ++ concat brks' | _ => chunks end in
  ret {| t_kind := TScalar chunks false (if folded then SFolded else SLiteral); t_start := start; t_end := e' |}.

(* ---------- flow scalars (scanner.py:1134-1268) ---------- *)
Definition is_doc_sep (p : str) : bool := str_eqb p [45;45;45]%N || str_eqb p [46;46;46]%N.

Fixpoint skip_blanks (fuel : nat) : M unit :=         (* while self.peek() in ' \t': forward *)
  match fuel with O => nofuel | S f => ch <- peek 0 ;; if mem ch [SP; TAB] then forward 1 ;;; skip_blanks f else ret tt end.

Fixpoint fs_breaks_loop (fuel : nat) (start : mark) (chunks : str) : M str :=
  match fuel with O => nofuel | S f =>
    p <- prefix 3 ;;
    sep <- (if is_doc_sep p then (c3 <- peek 3 ;; ret (mem c3 blankz)) else ret false) ;;
    if sep then err (Some start) 19 else
    with_fuel skip_blanks ;;;
    ch <- peek 0 ;;
    if mem ch breaks then lb <- scan_line_break ;; fs_breaks_loop f start (chunks ++ lb)
    else ret chunks
  end.
Definition scan_flow_scalar_breaks (start : mark) : M str := with_fuel (fun f => fs_breaks_loop f start []).

Open Scope N_scope.
Definition escape_replacement (c : cp) : option cp :=
  if c =? 48 then Some 0 else if c =? 97 then Some 7 else if c =? 98 then Some 8 else if c =? 116 then Some 9
  else if c =? 9 then Some 9 else if c =? 110 then Some 10 else if c =? 118 then Some 11 else if c =? 102 then Some 12
  else if c =? 114 then Some 13 else if c =? 101 then Some 27 else if c =? 32 then Some 32 else if c =? 34 then Some 34
  else if c =? 92 then Some 92 else if c =? 47 then Some 47 else if c =? 78 then Some 133 else if c =? 95 then Some 160
  else if c =? 76 then Some 8232 else if c =? 80 then Some 8233 else None.
Definition escape_code (c : cp) : option nat :=
  if c =? 120 then Some 2%nat else if c =? 117 then Some 4%nat else if c =? 85 then Some 8%nat else None.
Close Scope N_scope.

Fixpoint hex_check (k : nat) (len : nat) (start : mark) : M unit :=    (* for k in range(length): peek(k) hex? *)
  match len with
  | O => ret tt
  | S len' => ch <- peek k ;; if is_hex ch then hex_check (S k) len' start else err (Some start) 20
  end.
Definition hex_value (s : str) : N := fold_left (fun acc c => (acc * 16 + hexval c)%N) s 0%N.

Definition fs_stop : str := [39; 34; 92; NUL; SP; TAB; CR; LF; NEL; LS; PS]%N.
Definition not_fs_stop (c : cp) : bool := negb (mem c fs_stop).

Fixpoint fs_non_spaces (fuel : nat) (double : bool) (start : mark) (chunks : str) : M str :=
  match fuel with O => nofuel | S f =>
    n <- with_fuel (fun f' => span f' not_fs_stop 0) ;;
    p <- (if Nat.eqb n 0 then ret [] else (p0 <- prefix n ;; forward n ;;; ret p0)) ;;      (* `if length != 0:` - no reader call for an empty run *)
    let chunks := chunks ++ p in
    ch <- peek 0 ;;
    c1 <- (if negb double && N.eqb ch 39 then peek 1 else ret NUL) ;;
    if negb double && N.eqb ch 39 && N.eqb c1 39 then forward 2 ;;; fs_non_spaces f double start (chunks ++ [39%N])
    else if (double && N.eqb ch 39) || (negb double && mem ch [34;92]%N) then forward 1 ;;; fs_non_spaces f double start (chunks ++ [ch])
    else if double && N.eqb ch 92 then
      forward 1 ;;;
      e <- peek 0 ;;
      match escape_replacement e with
      | Some r => forward 1 ;;; fs_non_spaces f double start (chunks ++ [r])
      | None =>
        match escape_code e with
        | Some len =>
            forward 1 ;;; hex_check 0 len start ;;;
            h <- prefix len ;;
            let code := hex_value h in
            if (1114111 <? code)%N then
              err (Some start) 27                    (* code > 0x10FFFF: ScannerError (was chr() ValueError/OverflowError before the fix) *)
            else forward len ;;; fs_non_spaces f double start (chunks ++ [code])
        | None =>
            if mem e breaks then
              scan_line_break ;;; b <- scan_flow_scalar_breaks start ;; fs_non_spaces f double start (chunks ++ b)
            else err (Some start) 21
        end
      end
    else ret chunks
  end.

Definition is_blank (c : cp) : bool := mem c [SP; TAB].
Definition scan_flow_scalar_spaces (start : mark) : M str :=
  n <- with_fuel (fun f => span f is_blank 0) ;;
  ws <- prefix n ;; forward n ;;;
  ch <- peek 0 ;;
  if N.eqb ch NUL then err (Some start) 22
  else if mem ch breaks then
    lb <- scan_line_break ;;
    brks <- scan_flow_scalar_breaks start ;;
    ret ((if negb (str_eqb lb [LF]) then lb else match brks with [] => [SP] | _ => [] end) ++ brks)
  else ret ws.

Fixpoint fs_loop (fuel : nat) (double : bool) (quote : cp) (start : mark) (chunks : str) : M str :=
  match fuel with O => nofuel | S f =>
    ch <- peek 0 ;;
    if N.eqb ch quote then ret chunks else
    sp <- scan_flow_scalar_spaces start ;;
    ns <- with_fuel (fun f' => fs_non_spaces f' double start []) ;;
    fs_loop f double quote start (chunks ++ sp ++ ns)
  end.
Definition scan_flow_scalar (double : bool) : M token :=
  start <- get_mark ;;
  quote <- peek 0 ;;
  forward 1 ;;;
  c0 <- with_fuel (fun f => fs_non_spaces f double start []) ;;
  chunks <- with_fuel (fun f => fs_loop f double quote start c0) ;;
  forward 1 ;;;
  e <- get_mark ;;
  ret {| t_kind := TScalar chunks false (if double then SDouble else SSingle); t_start := start; t_end := e |}.

(* ---------- plain scalars (scanner.py:1270-1346) ---------- *)
Fixpoint plain_span (fuel : nat) (flow : bool) (n : nat) : M nat :=
  match fuel with O => nofuel | S f =>
    ch <- peek n ;;
    if mem ch blankz then ret n else
    stop_colon <- (if N.eqb ch 58 then (c1 <- peek (S n) ;; ret (mem c1 (blankz ++ (if flow then [44;91;93;123;125]%N else []))))
                   else ret false) ;;
    if stop_colon then ret n
    else if flow && mem ch [44;63;91;93;123;125]%N then ret n
    else plain_span f flow (S n)
  end.

Fixpoint ps_inner (fuel : nat) (brks : list str) : M (option (list str)) :=
  (* while self.peek() in ' \r\n\x85  ': ... ; None = document separator met *)
  match fuel with O => nofuel | S f =>
    ch <- peek 0 ;;
    if mem ch (SP :: breaks) then
      if N.eqb ch SP then forward 1 ;;; ps_inner f brks
      else
        lb <- scan_line_break ;;
        p <- prefix 3 ;;
        sep <- (if is_doc_sep p then (c3 <- peek 3 ;; ret (mem c3 blankz)) else ret false) ;;
        if sep then ret None else ps_inner f (brks ++ [lb])
    else ret (Some brks)
  end.
Definition is_sp (c : cp) : bool := N.eqb c SP.
Definition scan_plain_spaces : M (option str) :=     (* None models the bare `return` (falsy) *)
  n <- with_fuel (fun f => span f is_sp 0) ;;
  ws <- prefix n ;; forward n ;;;
  ch <- peek 0 ;;
  if mem ch breaks then
    lb <- scan_line_break ;;
    set_allow true ;;;
    p <- prefix 3 ;;
    sep <- (if is_doc_sep p then (c3 <- peek 3 ;; ret (mem c3 blankz)) else ret false) ;;
    if sep then ret None else
    r <- with_fuel (fun f => ps_inner f []) ;;
    match r with
    | None => ret None
    | Some brks =>
        ret (Some ((if negb (str_eqb lb [LF]) then lb else match brks with [] => [SP] | _ => [] end) ++ concat brks))
    end
  else ret (Some ws).

Fixpoint plain_loop (fuel : nat) (ind : Z) (chunks : str) (spaces : str) (e : mark) : M (str * mark) :=
  match fuel with O => nofuel | S f =>
    ch <- peek 0 ;;
    if N.eqb ch 35 then ret (chunks, e) else
    fl <- flowing ;;
    n <- with_fuel (fun f' => plain_span f' fl 0) ;;
    match n with
    | O => ret (chunks, e)
    | _ =>
      set_allow false ;;;
      p <- prefix n ;; forward n ;;;
      let chunks := chunks ++ spaces ++ p in
      e' <- get_mark ;;
      sp <- scan_plain_spaces ;;
      s <- get ;; ch <- peek 0 ;;
      match sp with
      | None => ret (chunks, e')
      | Some [] => ret (chunks, e')
      | Some sp' =>
          if N.eqb ch 35 || (negb fl && Z.ltb (Z.of_nat (col s)) ind) then ret (chunks, e')
          else plain_loop f ind chunks sp' e'
      end
    end
  end.
Definition scan_plain : M token :=
  start <- get_mark ;;
  s <- get ;;
  r <- with_fuel (fun f => plain_loop f (indent s + 1) [] [] start) ;;
  ret {| t_kind := TScalar (fst r) true SPlain; t_start := start; t_end := snd r |}.

(* ---------- fetchers (scanner.py:359-679) ---------- *)
Definition simple_token (k : tok) (n : nat) : M unit :=
  a <- get_mark ;; forward n ;;; b <- get_mark ;; append_token k a b.
Definition push_token (t : token) : M unit := set_tokens (fun l => l ++ [t]).

Definition fetch_stream_end : M unit :=
  unwind_indent (-1) ;;;
  remove_possible_simple_key ;;;
  set_allow false ;;; set_psk (fun _ => []) ;;;
  m <- get_mark ;; append_token TStreamEnd m m ;;; set_done.

Definition fetch_directive : M unit :=
  unwind_indent (-1) ;;; remove_possible_simple_key ;;; set_allow false ;;;
  t <- scan_directive ;; push_token t.

Definition fetch_document_indicator (k : tok) : M unit :=
  unwind_indent (-1) ;;; remove_possible_simple_key ;;; set_allow false ;;; simple_token k 3.

Definition fetch_flow_collection_start (k : tok) : M unit :=
  save_possible_simple_key ;;;
  s <- get ;; set_flow (flow_level s + 1) ;;;
  set_allow true ;;; simple_token k 1.
Definition fetch_flow_collection_end (k : tok) : M unit :=
  remove_possible_simple_key ;;;
  s <- get ;; set_flow (flow_level s - 1) ;;;
  set_allow false ;;; simple_token k 1.
Definition fetch_flow_entry : M unit :=
  set_allow true ;;; remove_possible_simple_key ;;; simple_token TFlowEntry 1.

Definition fetch_block_entry : M unit :=
  fl <- flowing ;;
  (if fl then ret tt else
     s <- get ;;
     if negb (allow_sk s) then err None 23 else
     b <- add_indent (Z.of_nat (col s)) ;;
     if b then (m <- get_mark ;; append_token TBlockSeqStart m m) else ret tt) ;;;
  set_allow true ;;; remove_possible_simple_key ;;; simple_token TBlockEntry 1.

Definition fetch_key : M unit :=
  fl <- flowing ;;
  (if fl then ret tt else
     s <- get ;;
     if negb (allow_sk s) then err None 24 else
     b <- add_indent (Z.of_nat (col s)) ;;
     if b then (m <- get_mark ;; append_token TBlockMapStart m m) else ret tt) ;;;
  set_allow (negb fl) ;;; remove_possible_simple_key ;;; simple_token TKey 1.

Definition insert_at {A} (n : nat) (x : A) (l : list A) : list A := firstn n l ++ x :: skipn n l.

Definition fetch_value : M unit :=
  s <- get ;;
  fl <- flowing ;;
  (match psk_find (flow_level s) (psk s) with
   | Some key =>
       set_psk (psk_del (flow_level s)) ;;;
       let pos := k_tokno key - taken s in
       set_tokens (insert_at pos {| t_kind := TKey; t_start := k_mark key; t_end := k_mark key |}) ;;;
       (if fl then ret tt else
          b <- add_indent (Z.of_nat (m_col (k_mark key))) ;;
          if b then set_tokens (insert_at pos {| t_kind := TBlockMapStart; t_start := k_mark key; t_end := k_mark key |})
          else ret tt) ;;;
       set_allow false
   | None =>
       (if fl then ret tt else
          if negb (allow_sk s) then err None 25 else ret tt) ;;;
       (if fl then ret tt else
          b <- add_indent (Z.of_nat (col s)) ;;
          if b then (m <- get_mark ;; append_token TBlockMapStart m m) else ret tt) ;;;
       set_allow (negb fl) ;;; remove_possible_simple_key
   end) ;;;
  simple_token TValue 1.

Definition fetch_alias : M unit := save_possible_simple_key ;;; set_allow false ;;; t <- scan_anchor true ;; push_token t.
Definition fetch_anchor : M unit := save_possible_simple_key ;;; set_allow false ;;; t <- scan_anchor false ;; push_token t.
Definition fetch_tag : M unit := save_possible_simple_key ;;; set_allow false ;;; t <- scan_tag ;; push_token t.
Definition fetch_block_scalar (folded : bool) : M unit :=
  set_allow true ;;; remove_possible_simple_key ;;; t <- scan_block_scalar folded ;; push_token t.
Definition fetch_flow_scalar (double : bool) : M unit :=
  save_possible_simple_key ;;; set_allow false ;;; t <- scan_flow_scalar double ;; push_token t.
Definition fetch_plain : M unit :=
  save_possible_simple_key ;;; set_allow false ;;; t <- scan_plain ;; push_token t.

(* ---------- checkers (scanner.py:683-748) ---------- *)
Definition check_doc (c : cp) : M bool :=
  s <- get ;;
  if Nat.eqb (col s) 0 then
    p <- prefix 3 ;;
    if str_eqb p [c; c; c] then (c3 <- peek 3 ;; ret (mem c3 blankz)) else ret false
  else ret false.
Definition next_blank : M bool := c <- peek 1 ;; ret (mem c blankz).
Definition plain_excl : str := (blankz ++ [45;63;58;44;91;93;123;125;35;38;42;33;124;62;39;34;37;64;96])%N.
Definition check_plain : M bool :=
  ch <- peek 0 ;;
  if negb (mem ch plain_excl) then ret true else
  c1 <- peek 1 ;;
  fl <- flowing ;;
  ret (negb (mem c1 blankz) && (N.eqb ch 45 || (negb fl && mem ch [63;58]%N))).

(* ---------- fetch_more_tokens (scanner.py:156-260) ---------- *)
Definition fetch_more_tokens : M unit :=
  scan_to_next_token ;;;
  stale_possible_simple_keys ;;;
  s <- get ;; unwind_indent (Z.of_nat (col s)) ;;;
  ch <- peek 0 ;;
  fl <- flowing ;;
  s <- get ;;
  if N.eqb ch NUL then fetch_stream_end else
  if N.eqb ch 37 && Nat.eqb (col s) 0 then fetch_directive else
  ds <- (if N.eqb ch 45 then check_doc 45%N else ret false) ;;
  if ds then fetch_document_indicator TDocStart else
  de <- (if N.eqb ch 46 then check_doc 46%N else ret false) ;;
  if de then fetch_document_indicator TDocEnd else
  if N.eqb ch 91 then fetch_flow_collection_start TFlowSeqStart else
  if N.eqb ch 123 then fetch_flow_collection_start TFlowMapStart else
  if N.eqb ch 93 then fetch_flow_collection_end TFlowSeqEnd else
  if N.eqb ch 125 then fetch_flow_collection_end TFlowMapEnd else
  if N.eqb ch 44 then fetch_flow_entry else
  be <- (if N.eqb ch 45 then next_blank else ret false) ;;
  if be then fetch_block_entry else
  ke <- (if N.eqb ch 63 then (if fl then ret true else next_blank) else ret false) ;;
  if ke then fetch_key else
  va <- (if N.eqb ch 58 then (if fl then ret true else next_blank) else ret false) ;;
  if va then fetch_value else
  if N.eqb ch 42 then fetch_alias else
  if N.eqb ch 38 then fetch_anchor else
  if N.eqb ch 33 then fetch_tag else
  if N.eqb ch 124 && negb fl then fetch_block_scalar false else
  if N.eqb ch 62 && negb fl then fetch_block_scalar true else
  if N.eqb ch 39 then fetch_flow_scalar false else
  if N.eqb ch 34 then fetch_flow_scalar true else
  pl <- check_plain ;;
  if pl then fetch_plain else err None 26.

(* need_more_tokens (scanner.py:145-154) *)
Definition need_more_tokens : M bool :=
  s <- get ;;
  if sdone s then ret false else
  match tokens s with
  | [] => ret true
  | _ => stale_possible_simple_keys ;;;
         s <- get ;;
         ret (match next_possible_simple_key s with Some n => Nat.eqb n (taken s) | None => false end)
  end.

Fixpoint fill (fuel : nat) : M unit :=
  match fuel with O => nofuel | S f => b <- need_more_tokens ;; if b then fetch_more_tokens ;;; fill f else ret tt end.

(* yaml.scan: while check_token(): yield get_token() *)
Fixpoint scan_loop (fuel : nat) (acc : list token) (s : st) : list token * res unit * (nat * nat * nat * nat) :=
  match fuel with O => (acc, OutOfFuel, ticks s) | S f =>
    match fill (S (S (length (rest s)))) s with
    | Ok (_, s1) =>
        match tokens s1 with
        | [] => (acc, Ok tt, ticks s1)
        | _ =>
          match fill (S (S (length (rest s1)))) s1 with   (* get_token runs the loop again *)
          | Ok (_, s2) =>
              match tokens s2 with
              | [] => (acc, Ok tt, ticks s2)
              | t :: ts =>
                  let s3 := {| rest := rest s2; index := index s2; line := line s2; col := col s2; sdone := sdone s2;
                               flow_level := flow_level s2; tokens := ts; taken := S (taken s2); indent := indent s2;
                               indents := indents s2; allow_sk := allow_sk s2; psk := psk s2; ticks := ticks s2 |} in
                  scan_loop f (acc ++ [t]) s3
              end
          | ScanErr c e p => (acc, ScanErr c e p, (0,0,0,0)) | Crash e => (acc, Crash e, (0,0,0,0)) | OutOfFuel => (acc, OutOfFuel, (0,0,0,0))
          end
        end
    | ScanErr c e p => (acc, ScanErr c e p, (0,0,0,0)) | Crash e => (acc, Crash e, (0,0,0,0)) | OutOfFuel => (acc, OutOfFuel, (0,0,0,0))
    end
  end.

Definition init (text : str) : st :=
  let m0 := {| m_index := 0; m_line := 0; m_col := 0 |} in
  {| rest := text ++ [0%N]; index := 0; line := 0; col := 0; sdone := false; flow_level := 0;
     tokens := [{| t_kind := TStreamStart; t_start := m0; t_end := m0 |}]; taken := 0;
     indent := -1; indents := []; allow_sk := true; psk := []; ticks := (0, 0, 0, 0) |}.

Definition scan_all (text : str) : list token * res unit * (nat * nat * nat * nat) :=
  scan_loop (2 * length text + 8) [] (init text).


