(* Spike: SafeRepresenter (representer.py) + Serializer (serializer.py): value graph -> events. *)
From Coq Require Import List NArith ZArith Bool Arith Lia.
Import ListNotations.
Require Import Scan Parse Construct.

Inductive rnode := RScalar (tag : str) (v : str) (style : option cp) | RSeq (tag : str) (items : list nat) (flow : bool)
                 | RMap (tag : str) (items : list (nat * nat)) (flow : bool).
Inductive ropt_style := RNone | RSome (c : cp).

Inductive rres (A : Type) := ROk (a : A) | RRepErr | RCrash (e : pyx) | RFuel | RUnmod.
Arguments ROk {A}. Arguments RRepErr {A}. Arguments RCrash {A}. Arguments RFuel {A}. Arguments RUnmod {A}.

Record rst := { rnodes : list rnode; represented : list (nat * nat) (* heap addr -> node id *) }.
Definition R (A : Type) := rst -> rres (A * rst).
Definition rret {A} (a : A) : R A := fun s => ROk (a, s).
Definition rbind {A B} (m : R A) (k : A -> R B) : R B :=
  fun s => match m s with ROk (a, s1) => k a s1 | RRepErr => RRepErr | RCrash e => RCrash e | RFuel => RFuel | RUnmod => RUnmod end.
Notation "x <-- m ;; k" := (rbind m (fun x => k)) (at level 61, m at next level, right associativity).
Definition new_node (n : rnode) : R nat := fun s => ROk (length (rnodes s), {| rnodes := rnodes s ++ [n]; represented := represented s |}).
Definition set_node (id : nat) (n : rnode) : R unit := fun s => ROk (tt, {| rnodes := set_nth id n (rnodes s); represented := represented s |}).
Definition remember (a id : nat) : R unit := fun s => ROk (tt, {| rnodes := rnodes s; represented := (a, id) :: represented s |}).
Fixpoint assoc_nn (k : nat) (l : list (nat * nat)) : option nat :=
  match l with [] => None | (k1, v) :: l1 => if Nat.eqb k k1 then Some v else assoc_nn k l1 end.

(* ---------- text of scalars ---------- *)
Open Scope Z_scope.
Fixpoint dec_digits (fuel : nat) (n : Z) (acc : str) : str :=
  match fuel with O => acc | S f => if n <? 10 then (Z.to_N (48 + n)) :: acc else dec_digits f (n / 10) (Z.to_N (48 + n mod 10) :: acc) end.
Definition dec_nat (n : Z) : str := dec_digits 5000 n [].
Definition pad (w : nat) (s : str) : str := repeat 48%N (w - length s) ++ s.
Definition int_text (z : Z) : option str :=
  let d := dec_nat (Z.abs z) in
  if Nat.ltb 4300 (length d) then None else Some (if z <? 0 then 45%N :: d else d).

(* repr(float): shortest digits that round-trip, then CPython's 'r' formatting *)
Definition pow10 (k : Z) : Z := 10 ^ k.
(* round p/q to nearest integer, ties to even *)
Definition rdiv (p q : Z) : Z := let d := p / q in let r := p mod q in if (q <? 2 * r) || ((q =? 2 * r) && Z.odd d) then d + 1 else d.
(* digits of x = p/q with prec significant digits: returns (digits as Z, decimal exponent of last digit) *)
Definition to_prec (p q : Z) (e10 : Z) (prec : Z) : Z * Z :=
  let sh := e10 - prec + 1 in
  let m := if 0 <=? sh then rdiv p (q * pow10 sh) else rdiv (p * pow10 (- sh)) q in
  if pow10 prec <=? m then (m / 10, sh + 1) else (m, sh).
Fixpoint find_e10 (fuel : nat) (p q : Z) (e : Z) : Z :=      (* largest e with 10^e <= p/q *)
  match fuel with O => e | S f =>
    let le := if 0 <=? e then (q * pow10 e <=? p) else (q <=? p * pow10 (- e)) in
    if le then (let e1 := e + 1 in let le1 := if 0 <=? e1 then (q * pow10 e1 <=? p) else (q <=? p * pow10 (- e1)) in
                if le1 then find_e10 f p q e1 else e)
    else find_e10 f p q (e - 1)
  end.
Fixpoint shortest (fuel : nat) (prec : Z) (p q e10 : Z) (target : f64) : Z * Z :=
  match fuel with O => to_prec p q e10 17 | S f =>
    let '(m, sh) := to_prec p q e10 prec in
    let back := if 0 <=? sh then round64 false (m * pow10 sh) 1 else round64 false m (pow10 (- sh)) in
    match back, target with
    | FFin _ m1 e1, FFin _ m2 e2 => if (N.eqb m1 m2) && (e1 =? e2) then (m, sh) else shortest f (prec + 1) p q e10 target
    | _, _ => shortest f (prec + 1) p q e10 target
    end
  end.
Fixpoint strip_zeros (fuel : nat) (m sh : Z) : Z * Z :=
  match fuel with O => (m, sh) | S f => if (m mod 10 =? 0) && negb (m =? 0) then strip_zeros f (m / 10) (sh + 1) else (m, sh) end.
Definition float_repr (f : f64) : str :=
  match f with
  | FNan => [110;97;110]%N | FInf n => (if n then [45%N] else []) ++ [105;110;102]%N
  | FFin neg m e =>
    let sg := if neg then [45%N] else [] in
    if N.eqb m 0 then sg ++ [48;46;48]%N else
    let '(p, q) := if 0 <=? e then (Z.of_N m * 2 ^ e, 1) else (Z.of_N m, 2 ^ (- e)) in
    let e10 := find_e10 800 p q (Z.log2 p * 30103 / 100000 - Z.log2 q * 30103 / 100000) in
    let '(dm0, sh0) := shortest 17 1 p q e10 (FFin false m e) in
    let '(dm, sh) := strip_zeros 20 dm0 sh0 in
    let digits := dec_nat dm in
    let nd := Z.of_nat (length digits) in
    let decpt := sh + nd in                         (* value = 0.DIGITS * 10^decpt *)
    if (decpt <=? -4) || (16 <? decpt) then
      let ex := decpt - 1 in
      let mant := match digits with d :: [] => [d] | d :: r => d :: 46%N :: r | [] => [] end in
      sg ++ mant ++ [101%N] ++ (if ex <? 0 then [45%N] else [43%N]) ++ pad 2 (dec_nat (Z.abs ex))
    else if decpt <=? 0 then sg ++ [48;46]%N ++ repeat 48%N (Z.to_nat (- decpt)) ++ digits
    else if nd <=? decpt then sg ++ digits ++ repeat 48%N (Z.to_nat (decpt - nd)) ++ [46;48]%N
    else sg ++ firstn (Z.to_nat decpt) digits ++ [46%N] ++ skipn (Z.to_nat decpt) digits
  end.
Definition float_text (f : f64) : str :=
  match f with
  | FNan => [46;110;97;110]%N | FInf n => (if n then [45%N] else []) ++ [46;105;110;102]%N
  | _ => let v := map lower (float_repr f) in
         if negb (existsb (N.eqb 46) v) && existsb (N.eqb 101) v
         then (fix ins (s : str) := match s with [] => [] | 101%N :: r => [46;48;101]%N ++ r | c :: r => c :: ins r end) v
         else v
  end.
Close Scope Z_scope.

Definition two (z : Z) : str := pad 2 (dec_nat z).
Definition date_text (y m d : Z) : str := pad 4 (dec_nat y) ++ [45%N] ++ two m ++ [45%N] ++ two d.
Definition tz_text (off : Z) : str :=
  let a := Z.abs off in
  (if (off <? 0)%Z then [45%N] else [43%N]) ++ two (a / 3600)%Z ++ [58%N] ++ two ((a / 60) mod 60)%Z ++
  (if (a mod 60 =? 0)%Z then [] else [58%N] ++ two (a mod 60)%Z).
Definition datetime_text (y mo d h mi s us : Z) (tz : option Z) : str :=
  date_text y mo d ++ [32%N] ++ two h ++ [58%N] ++ two mi ++ [58%N] ++ two s ++
  (if (us =? 0)%Z then [] else [46%N] ++ pad 6 (dec_nat us)) ++ match tz with Some o => tz_text o | None => [] end.

Definition b64c (n : N) : cp := if (n <? 26)%N then (65 + n)%N else if (n <? 52)%N then (71 + n)%N else if (n <? 62)%N then (n - 4)%N else if (n =? 62)%N then 43%N else 47%N.
Fixpoint b64_line (b : list N) : str :=
  match b with
  | [] => []
  | [x] => [b64c (x / 4); b64c ((x mod 4) * 16); 61; 61]%N
  | [x; y] => [b64c (x / 4); b64c ((x mod 4) * 16 + y / 16); b64c ((y mod 16) * 4); 61]%N
  | x :: y :: z :: r => [b64c (x / 4); b64c ((x mod 4) * 16 + y / 16); b64c ((y mod 16) * 4 + z / 64); b64c (z mod 64)]%N ++ b64_line r
  end.
Fixpoint encodebytes (fuel : nat) (b : list N) : str :=
  match fuel with O => [] | S f => match b with [] => [] | _ => b64_line (firstn 57 b) ++ [10%N] ++ encodebytes f (skipn 57 b) end end.

(* ---------- ordering for sort_keys: Python's < on keys; None = TypeError ---------- *)
Fixpoint str_ltb (a b : str) : bool :=
  match a, b with _, [] => false | [], _ :: _ => true | x :: a1, y :: b1 => if (x <? y)%N then true else if (y <? x)%N then false else str_ltb a1 b1 end.
Definition key_lt (a b : val) : option bool :=
  match num_q a, num_q b with
  | Some (p1, q1), Some (p2, q2) => Some (p1 * q2 <? p2 * q1)%Z
  | _, _ =>
    match a, b with
    | PStr x, PStr y => Some (str_ltb x y)
    | PBytes x, PBytes y => Some (str_ltb x y)
    | PDate y1 m1 d1, PDate y2 m2 d2 => Some (((y1 * 10000 + m1 * 100 + d1) <? (y2 * 10000 + m2 * 100 + d2))%Z)
    | PDateTime y1 o1 d1 h1 i1 s1 u1 t1, PDateTime y2 o2 d2 h2 i2 s2 u2 t2 =>
        (* days since a fixed origin via a proleptic Gregorian day count *)
        let days := fun (y m d : Z) => (let a := (14 - m) / 12 in let yy := y + 4800 - a in let mm := m + 12 * a - 3 in
                                        d + (153 * mm + 2) / 5 + 365 * yy + yy / 4 - yy / 100 + yy / 400)%Z in
        let inst := fun (y m d h i s u off : Z) => ((((days y m d * 24 + h) * 60 + i) * 60 + s - off) * 1000000 + u)%Z in
        match t1, t2 with
        | None, None => Some (inst y1 o1 d1 h1 i1 s1 u1 0 <? inst y2 o2 d2 h2 i2 s2 u2 0)%Z
        | Some a1, Some a2 => Some (inst y1 o1 d1 h1 i1 s1 u1 a1 <? inst y2 o2 d2 h2 i2 s2 u2 a2)%Z
        | _, _ => None end
    | _, _ => None
    end
  end.
Definition is_nan (v : val) := match v with PFloat FNan => true | _ => false end.
(* insertion sort; returns None if any needed comparison raises *)
Fixpoint insert_sorted (x : val * val) (l : list (val * val)) : option (list (val * val)) :=
  match l with
  | [] => Some [x]
  | y :: l1 => match key_lt (fst x) (fst y) with
               | None => None
               | Some true => Some (x :: y :: l1)
               | Some false => match insert_sorted x l1 with Some r => Some (y :: r) | None => None end
               end
  end.
Definition all_comparable (l : list (val * val)) : bool :=
  forallb (fun a => forallb (fun b => match key_lt (fst a) (fst b) with Some _ => true | None => false end) l) l.
Definition py_sorted (l : list (val * val)) : option (list (val * val)) :=
  if negb (all_comparable l) then (match l with [] | [_] => Some l | _ => None end) else
  fold_left (fun acc x => match acc with Some a => insert_sorted x a | None => None end) l (Some []).

(* ---------- represent_data ---------- *)
Record ropts := { default_style : option cp; default_flow : option bool; sort_keys : bool }.
Definition plain_scalar_node (s : rst) (id : nat) : bool :=
  match nth_error (rnodes s) id with Some (RScalar _ _ None) => true | _ => false end.
  (* `not node.style`: default_style None; '' never passed here *)

Fixpoint represent (fuel : nat) (o : ropts) (h : heap) (v : val) : R nat :=
  match fuel with O => fun _ => RFuel | S f =>
    let scalar := fun (tag : str) (text : str) (style : option cp) =>
      new_node (RScalar tag text (match style with Some c => Some c | None => default_style o end)) in
    let do_map := fun (tag : str) (pairs0 : list (val * val)) (a : nat) =>
            id <-- new_node (RMap tag [] false) ;;
            _ <-- remember a id ;;
            let pairs1 := if sort_keys o then match py_sorted pairs0 with Some l => l | None => pairs0 end else pairs0 in
            r <-- (fix each (l : list (val * val)) (acc : list (nat * nat)) (best : bool) : R (list (nat * nat) * bool) :=
                     match l with
                     | [] => rret (acc, best)
                     | (k, x) :: l1 =>
                         kn <-- represent f o h k ;; vn <-- represent f o h x ;; s1 <-- (fun s => ROk (s, s)) ;;
                         each l1 (acc ++ [(kn, vn)]) (best && plain_scalar_node s1 kn && plain_scalar_node s1 vn)
                     end) pairs1 [] true ;;
            let flow := match default_flow o with Some b => b | None => snd r end in
            _ <-- set_node id (RMap tag (fst r) flow) ;; rret id in
    match v with
    | PNone => scalar t_null [110;117;108;108]%N None
    | PBool b => scalar t_bool (if b then [116;114;117;101]%N else [102;97;108;115;101]%N) None
    | PInt z => match int_text z with Some t => scalar t_int t None | None => fun _ => RCrash XValueError end
    | PFloat x => scalar t_float (float_text x) None
    | PStr s => scalar t_str s None
    | PBytes b => scalar t_binary (encodebytes (S (length b)) b) (Some 124%N)
    | PDate y m d => scalar t_timestamp (date_text y m d) None
    | PDateTime y mo d hh mi ss us tz => scalar t_timestamp (datetime_text y mo d hh mi ss us tz) None
    | PRef a =>
      s <-- (fun s => ROk (s, s)) ;;
      match assoc_nn a (represented s) with
      | Some id => rret id
      | None =>
        match nth_error h a with
        | None => fun _ => RCrash XIndexError
        | Some (CList items) =>
            id <-- new_node (RSeq t_seq [] false) ;;
            _ <-- remember a id ;;
            r <-- (fix each (l : list val) (acc : list nat) (best : bool) : R (list nat * bool) :=
                     match l with
                     | [] => rret (acc, best)
                     | x :: l1 => c <-- represent f o h x ;; s1 <-- (fun s => ROk (s, s)) ;;
                                  each l1 (acc ++ [c]) (best && plain_scalar_node s1 c)
                     end) items [] true ;;
            let flow := match default_flow o with Some b => b | None => snd r end in
            _ <-- set_node id (RSeq t_seq (fst r) flow) ;; rret id
        | Some (CDict items) => do_map t_map items a
        | Some (CSet ks) => do_map t_set (map (fun k => (k, PNone)) ks) a
        | Some (CTuple _ _) => fun _ => RUnmod
        end
      end
    end
  end.

(* ---------- serializer (serializer.py) ---------- *)
Inductive sev :=
| SDocStart | SDocEnd | SAlias (a : str)
| SScalar (anchor : option str) (tag : str) (i0 i1 : bool) (v : str) (style : option cp)
| SSeqStart (anchor : option str) (tag : str) (implicit flow : bool) | SSeqEnd
| SMapStart (anchor : option str) (tag : str) (implicit flow : bool) | SMapEnd.

Fixpoint find_anchor (k : nat) (l : list (nat * option nat)) : option (option nat) :=
  match l with [] => None | (k1, v) :: l1 => if Nat.eqb k k1 then Some v else find_anchor k l1 end.
Fixpoint set_anchor (k : nat) (v : option nat) (l : list (nat * option nat)) : list (nat * option nat) :=
  match l with [] => [] | (k1, v1) :: l1 => if Nat.eqb k k1 then (k1, v) :: l1 else (k1, v1) :: set_anchor k v l1 end.

Fixpoint anchor_node (fuel : nat) (ns : list rnode) (id : nat) (st : list (nat * option nat) * nat) : list (nat * option nat) * nat :=
  match fuel with O => st | S f =>
    match find_anchor id (fst st) with
    | Some None => (set_anchor id (Some (S (snd st))) (fst st), S (snd st))
    | Some (Some _) => st
    | None =>
      let st1 := (fst st ++ [(id, None)], snd st) in
      match nth_error ns id with
      | Some (RSeq _ items _) => fold_left (fun acc c => anchor_node f ns c acc) items st1
      | Some (RMap _ items _) => fold_left (fun acc kv => anchor_node f ns (snd kv) (anchor_node f ns (fst kv) acc)) items st1
      | _ => st1
      end
    end
  end.
Definition anchor_name (n : nat) : str := [105;100]%N ++ pad 3 (dec_nat (Z.of_nat n)).

Fixpoint serialize_node (fuel : nat) (ns : list rnode) (anch : list (nat * option nat)) (id : nat)
         (st : list nat * list sev) : list nat * list sev :=
  match fuel with O => st | S f =>
    let alias := match find_anchor id anch with Some (Some n) => Some (anchor_name n) | _ => None end in
    if existsb (Nat.eqb id) (fst st) then (fst st, snd st ++ [SAlias (match alias with Some a => a | None => [] end)])
    else
      let done := id :: fst st in
      match nth_error ns id with
      | Some (RScalar tag v style) =>
          let detected := resolve_scalar false v true false in
          (done, snd st ++ [SScalar alias tag (str_eqb tag detected) (str_eqb tag t_str) v style])
      | Some (RSeq tag items flow) =>
          let st1 := (done, snd st ++ [SSeqStart alias tag (str_eqb tag t_seq) flow]) in
          let st2 := fold_left (fun acc c => serialize_node f ns anch c acc) items st1 in
          (fst st2, snd st2 ++ [SSeqEnd])
      | Some (RMap tag items flow) =>
          let st1 := (done, snd st ++ [SMapStart alias tag (str_eqb tag t_map) flow]) in
          let st2 := fold_left (fun acc kv => serialize_node f ns anch (snd kv) (serialize_node f ns anch (fst kv) acc)) items st1 in
          (fst st2, snd st2 ++ [SMapEnd])
      | None => st
      end
  end.

Definition dump_doc (o : ropts) (h : heap) (root : val) : rres (list sev) :=
  match represent (S (length h) * 2 + 4) o h root {| rnodes := []; represented := [] |} with
  | ROk (id, s) =>
      let fuel := S (length (rnodes s)) * 2 in
      let anch := fst (anchor_node fuel (rnodes s) id ([], 0)) in
      ROk ([SDocStart] ++ snd (serialize_node fuel (rnodes s) anch id ([], [])) ++ [SDocEnd])
  | RRepErr => RRepErr | RCrash e => RCrash e | RFuel => RFuel | RUnmod => RUnmod
  end.

