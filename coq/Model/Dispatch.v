(* Tag dispatch of BaseConstructor.construct_object (constructor.py:77-98), over the registry tables of Model/Registry.v.
   The translator checks the source block against its frozen normal form (tools/translate/gen_calls.py), and the
   dispatch correspondence (tools/layers/dispatchcorr.py) runs the real construct_object on synthetic tables against `dispatch`/`dispatch_suffix`. *)
From Coq Require Import List String Bool.
Import ListNotations.
Require Import Registry.
Open Scope string_scope.

Fixpoint lookup (k : key) (tb : table) : option string :=
  match tb with [] => None | (k1, v) :: r => if key_eqb k k1 then hd_error v else lookup k r end.
Fixpoint multi_scan (tag : string) (tb : table) : option string :=       (* first registered prefix (not None) the tag starts with *)
  match tb with
  | [] => None
  | (Some p, m :: _) :: r => if String.prefix p tag then Some m else multi_scan tag r
  | _ :: r => multi_scan tag r
  end.
Definition dispatch (ctors multi : table) (tag : string) (kind_default : string) : string :=
  match lookup (Some tag) ctors with
  | Some m => m
  | None =>
      match multi_scan tag multi with
      | Some m => m
      | None => match lookup None multi with
                | Some m => m
                | None => match lookup None ctors with Some m => m | None => kind_default end
                end
      end
  end.
(* the tag suffix construct_object passes to a multi-constructor (None = the handler is called with the node alone) *)
Fixpoint multi_scan_prefix (tag : string) (tb : table) : option string :=
  match tb with
  | [] => None
  | (Some p, _ :: _) :: r => if String.prefix p tag then Some p else multi_scan_prefix tag r
  | _ :: r => multi_scan_prefix tag r
  end.
Definition dispatch_suffix (ctors multi : table) (tag : string) : option string :=
  match lookup (Some tag) ctors with
  | Some _ => None
  | None =>
      match multi_scan_prefix tag multi with
      | Some p => Some (substring (String.length p) (String.length tag - String.length p) tag)
      | None => match lookup None multi with Some _ => Some tag | None => None end
      end
  end.
Definition dispatch_of (w : world) (c : cls) (tag kind_default : string) : string :=
  dispatch (effective w c KCtor) (effective w c KMultiCtor) tag kind_default.
