From Coq Require Import List NArith Bool Lia.
Import ListNotations.
Open Scope N_scope.

Definition cset := list (N * N).
Definition in_rng (c : N) (r : N * N) : bool := (fst r <=? c) && (c <=? snd r).
Definition cin (c : N) (s : cset) : bool := existsb (in_rng c) s.

Inductive re :=
| Emp | Eps | Chr (s : cset) | Cat (a b : re) | Alt (a b : re) | Star (a : re)
| And (a b : re) | Not (a : re).

Definition word := list N.

(* ---------- denotational semantics ---------- *)
Inductive star (P : word -> Prop) : word -> Prop :=
| star_nil : star P []
| star_app : forall u v, u <> [] -> P u -> star P v -> star P (u ++ v).

Fixpoint lang (r : re) : word -> Prop :=
  match r with
  | Emp => fun _ => False
  | Eps => fun w => w = []
  | Chr s => fun w => exists c, w = [c] /\ cin c s = true
  | Cat a b => fun w => exists u v, w = u ++ v /\ lang a u /\ lang b v
  | Alt a b => fun w => lang a w \/ lang b w
  | Star a => star (lang a)
  | And a b => fun w => lang a w /\ lang b w
  | Not a => fun w => ~ lang a w
  end.

(* ---------- syntactic equality ---------- *)
Fixpoint cset_eqb (x y : cset) : bool :=
  match x, y with
  | [], [] => true
  | (a1,b1)::x', (a2,b2)::y' => (a1 =? a2) && (b1 =? b2) && cset_eqb x' y'
  | _, _ => false
  end.
Fixpoint re_eqb (a b : re) : bool :=
  match a, b with
  | Emp, Emp | Eps, Eps => true
  | Chr s, Chr t => cset_eqb s t
  | Cat a1 a2, Cat b1 b2 | Alt a1 a2, Alt b1 b2 | And a1 a2, And b1 b2 => re_eqb a1 b1 && re_eqb a2 b2
  | Star a1, Star b1 | Not a1, Not b1 => re_eqb a1 b1
  | _, _ => false
  end.
Lemma cset_eqb_eq x y : cset_eqb x y = true -> x = y.
Proof.
  revert y; induction x as [|[a1 b1] x IH]; intros [|[a2 b2] y]; simpl; try congruence.
  intros H. apply andb_prop in H as [H H3]. apply andb_prop in H as [H1 H2].
  apply N.eqb_eq in H1, H2. subst. f_equal. auto.
Qed.
Lemma re_eqb_eq a : forall b, re_eqb a b = true -> a = b.
Proof.
  induction a; intros [] H; simpl in H; try discriminate; auto;
  try (apply andb_prop in H as [H1 H2]; f_equal; auto).
  - f_equal. apply cset_eqb_eq; auto.
  - f_equal; auto.
  - f_equal; auto.
Qed.

(* ---------- nullable ---------- *)
Fixpoint nullable (r : re) : bool :=
  match r with
  | Emp => false | Eps => true | Chr _ => false
  | Cat a b => nullable a && nullable b | Alt a b => nullable a || nullable b
  | Star _ => true | And a b => nullable a && nullable b | Not a => negb (nullable a)
  end.
Lemma nullable_ok r : nullable r = true <-> lang r [].
Proof.
  induction r; simpl.
  - split; [discriminate|tauto].
  - tauto.
  - split; [discriminate|]. intros (c & H & _); discriminate.
  - rewrite andb_true_iff, IHr1, IHr2. split.
    + intros [H1 H2]. exists [], []. auto.
    + intros (u & v & H & H1 & H2). symmetry in H. apply app_eq_nil in H as [-> ->]. auto.
  - rewrite orb_true_iff, IHr1, IHr2. tauto.
  - split; auto. intros _. constructor.
  - rewrite andb_true_iff, IHr1, IHr2. tauto.
  - rewrite negb_true_iff. rewrite <- IHr. destruct (nullable r); split; intros; try congruence; try tauto.
Qed.

(* ---------- smart constructors ---------- *)
Definition cat (a b : re) : re :=
  match a, b with Emp, _ => Emp | _, Emp => Emp | Eps, _ => b | _, Eps => a | _, _ => Cat a b end.
Fixpoint alt_mem (x : re) (r : re) : bool :=
  match r with Alt a b => alt_mem x a || alt_mem x b | _ => re_eqb x r end.
Definition alt (a b : re) : re :=
  match a, b with
  | Emp, _ => b | _, Emp => a
  | _, _ => if alt_mem a b then b else if alt_mem b a then a else Alt a b end.
Definition and_ (a b : re) : re :=
  match a, b with
  | Emp, _ => Emp | _, Emp => Emp
  | _, _ => if re_eqb a b then a else And a b end.
Definition not_ (a : re) : re := match a with Not b => Not (Not b) | _ => Not a end.
(* not_ kept trivial: double negation is not removed (lang (Not (Not b)) <-> lang b is not constructive) *)

Lemma cat_ok a b w : lang (cat a b) w <-> lang (Cat a b) w.
Proof.
  unfold cat. destruct a, b; simpl; try tauto;
  try (split; [tauto | intros (u & v & _ & H1 & H2); tauto]);
  try (split; [intros H; exists [], w; simpl; tauto | intros (u & v & -> & -> & H); simpl; auto]);
  try (split; [intros H; exists w, []; rewrite app_nil_r; tauto | intros (u & v & -> & H & ->); rewrite app_nil_r; auto]).
Qed.
Lemma alt_mem_ok x r w : alt_mem x r = true -> lang x w -> lang r w.
Proof.
  induction r; simpl; intros H Hx; try (apply re_eqb_eq in H; subst; exact Hx).
  apply orb_true_iff in H as [H|H]; [left|right]; auto.
Qed.
Lemma alt_ok a b w : lang (alt a b) w <-> lang a w \/ lang b w.
Proof.
  assert (G : lang (if alt_mem a b then b else if alt_mem b a then a else Alt a b) w <-> lang a w \/ lang b w).
  { destruct (alt_mem a b) eqn:E1.
    - split; [tauto|]. intros [H|H]; auto. eapply alt_mem_ok; eauto.
    - destruct (alt_mem b a) eqn:E2.
      + split; [tauto|]. intros [H|H]; auto. eapply alt_mem_ok; eauto.
      + simpl. tauto. }
  unfold alt. destruct a; try exact G; destruct b; try exact G; simpl; tauto.
Qed.
Lemma and_ok a b w : lang (and_ a b) w <-> lang a w /\ lang b w.
Proof.
  assert (G : lang (if re_eqb a b then a else And a b) w <-> lang a w /\ lang b w).
  { destruct (re_eqb a b) eqn:E.
    - apply re_eqb_eq in E. subst. tauto.
    - simpl. tauto. }
  unfold and_. destruct a; try exact G; destruct b; try exact G; simpl; tauto.
Qed.
Lemma not_ok a w : lang (not_ a) w <-> ~ lang a w.
Proof. unfold not_. destruct a; simpl; tauto. Qed.

(* ---------- derivative ---------- *)
Fixpoint deriv (c : N) (r : re) : re :=
  match r with
  | Emp | Eps => Emp
  | Chr s => if cin c s then Eps else Emp
  | Cat a b => if nullable a then alt (cat (deriv c a) b) (deriv c b) else cat (deriv c a) b
  | Alt a b => alt (deriv c a) (deriv c b)
  | Star a => cat (deriv c a) (Star a)
  | And a b => and_ (deriv c a) (deriv c b)
  | Not a => not_ (deriv c a)
  end.

Lemma star_cons P c w : star P (c :: w) <-> exists u v, w = u ++ v /\ P (c :: u) /\ star P v.
Proof.
  split.
  - intros H. remember (c :: w) as cw eqn:E. revert c w E.
    induction H; intros c w E; [discriminate|].
    destruct u as [|c' u]; [congruence|]. simpl in E. injection E as E1 E2. subst.
    exists u, v. auto.
  - intros (u & v & -> & H1 & H2). change (c :: u ++ v) with ((c :: u) ++ v).
    constructor; auto. discriminate.
Qed.

Lemma deriv_ok r : forall c w, lang (deriv c r) w <-> lang r (c :: w).
Proof.
  induction r; intros c w; simpl.
  - tauto.
  - split; [tauto|discriminate].
  - destruct (cin c s) eqn:E; simpl.
    + split. intros ->. exists c; auto. intros (c' & H & _). injection H as _ H; auto.
    + split; [tauto|]. intros (c' & H & H'). injection H as -> ->. congruence.
  - assert (C : lang (cat (deriv c r1) r2) w <-> exists u v, w = u ++ v /\ lang r1 (c :: u) /\ lang r2 v).
    { rewrite cat_ok. simpl. split; intros (u & v & H & H1 & H2); exists u, v; repeat split; auto; apply IHr1; auto. }
    destruct (nullable r1) eqn:E.
    + rewrite alt_ok, C, IHr2. split.
      * intros [(u & v & -> & H1 & H2)|H].
        -- exists (c :: u), v. auto.
        -- exists [], (c :: w). repeat split; auto. apply nullable_ok; auto.
      * intros (u & v & H & H1 & H2). destruct u as [|c' u]; simpl in H.
        -- subst v. right; auto.
        -- injection H as -> ->. left. exists u, v. auto.
    + rewrite C. split.
      * intros (u & v & -> & H1 & H2). exists (c :: u), v. auto.
      * intros (u & v & H & H1 & H2). destruct u as [|c' u]; simpl in H.
        -- apply nullable_ok in H1. congruence.
        -- injection H as -> ->. exists u, v. auto.
  - rewrite alt_ok, IHr1, IHr2. tauto.
  - rewrite cat_ok. simpl. rewrite star_cons. split; intros (u & v & H & H1 & H2); exists u, v; repeat split; auto; apply IHr; auto.
  - rewrite and_ok, IHr1, IHr2. tauto.
  - rewrite not_ok, IHr. tauto.
Qed.

Definition derivs (w : word) (r : re) : re := fold_left (fun r c => deriv c r) w r.
Definition matches (r : re) (w : word) : bool := nullable (derivs w r).
Theorem matches_ok r w : matches r w = true <-> lang r w.
Proof.
  unfold matches, derivs. revert r. induction w as [|c w IH]; intros r; simpl.
  - apply nullable_ok.
  - rewrite IH. apply deriv_ok.
Qed.
