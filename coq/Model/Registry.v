(* Registry model: the class world behind yaml_constructors / yaml_multi_constructors / yaml_representers /
   yaml_multi_representers / yaml_implicit_resolvers / yaml_path_resolvers.
   Mirrors: constructor.py add_constructor/add_multi_constructor, representer.py add_representer/
   add_multi_representer, resolver.py add_implicit_resolver/add_path_resolver, Python class attribute lookup
   along the MRO, and the `class` statement (tables assigned in a class body are fresh dict objects).
   Dict objects have identities (tid) so that aliasing between classes is expressible. *)
From Coq Require Import List String Bool Arith.
Import ListNotations.
Open Scope string_scope.

Definition cls := string.
Inductive kind := KCtor | KMultiCtor | KRepr | KMultiRepr | KImplicit | KPath.
Definition kind_eqb (a b : kind) : bool :=
  match a, b with
  | KCtor, KCtor | KMultiCtor, KMultiCtor | KRepr, KRepr | KMultiRepr, KMultiRepr
  | KImplicit, KImplicit | KPath, KPath => true
  | _, _ => false end.
Definition key := option string.                 (* None = the Python None key *)
Definition key_eqb (a b : key) : bool :=
  match a, b with None, None => true | Some x, Some y => String.eqb x y | _, _ => false end.
Definition table := list (key * list string).    (* insertion-ordered dict; value = names (singleton unless implicit) *)
Inductive cow := NoCopy | ShallowCopy | PerKeyListCopy.

Record world := { mros : list (cls * list cls); own : list (cls * kind * nat); heap : list (nat * table); next : nat }.

Fixpoint assoc_s {A} (k : string) (l : list (string * A)) : option A :=
  match l with [] => None | (k1, v) :: l1 => if String.eqb k k1 then Some v else assoc_s k l1 end.
Fixpoint own_of (c : cls) (k : kind) (l : list (cls * kind * nat)) : option nat :=
  match l with [] => None | (c1, k1, t) :: l1 => if String.eqb c c1 && kind_eqb k k1 then Some t else own_of c k l1 end.
Fixpoint heap_get (t : nat) (h : list (nat * table)) : table :=
  match h with [] => [] | (t1, tb) :: h1 => if Nat.eqb t t1 then tb else heap_get t h1 end.
Fixpoint heap_set (t : nat) (tb : table) (h : list (nat * table)) : list (nat * table) :=
  match h with [] => [(t, tb)] | (t1, tb1) :: h1 => if Nat.eqb t t1 then (t, tb) :: h1 else (t1, tb1) :: heap_set t tb h1 end.
Definition mro_of (w : world) (c : cls) : list cls := match assoc_s c (mros w) with Some l => l | None => [c] end.
Fixpoint first_own (o : list (cls * kind * nat)) (k : kind) (l : list cls) : option nat :=
  match l with [] => None | c :: l1 => match own_of c k o with Some t => Some t | None => first_own o k l1 end end.
Definition effective (w : world) (c : cls) (k : kind) : table :=
  match first_own (own w) k (mro_of w c) with Some t => heap_get t (heap w) | None => [] end.

Fixpoint tset (tb : table) (k : key) (v : string) : table :=           (* d[k] = v *)
  match tb with [] => [(k, [v])] | (k1, v1) :: r => if key_eqb k k1 then (k1, [v]) :: r else (k1, v1) :: tset r k v end.
Fixpoint tappend (tb : table) (k : key) (v : string) : table :=        (* d.setdefault(k, []).append(v) *)
  match tb with [] => [(k, [v])] | (k1, v1) :: r => if key_eqb k k1 then (k1, (v1 ++ [v])%list) :: r else (k1, v1) :: tappend r k v end.
Definition put (k : kind) (keys : list key) (v : string) (tb : table) : table :=
  fold_left (fun tb key => match k with KImplicit => tappend tb key v | _ => tset tb key v end) keys tb.

Inductive op :=
| DefClass (c : cls) (mro : list cls) (fresh : list kind)       (* class body defines these tables as new empty dicts *)
| Add (k : kind) (c : cls) (keys : list key) (v : string).

Definition add_fresh (c : cls) (w : world) (k : kind) : world :=
  {| mros := mros w; own := (c, k, next w) :: own w; heap := (next w, []) :: heap w; next := S (next w) |}.

Definition step (cw : kind -> cow) (w : world) (o : op) : world :=
  match o with
  | DefClass c m fresh =>
      fold_left (add_fresh c) fresh {| mros := (c, m) :: mros w; own := own w; heap := heap w; next := next w |}
  | Add k c keys v =>
      match own_of c k (own w) with
      | Some t => {| mros := mros w; own := own w; heap := heap_set t (put k keys v (heap_get t (heap w))) (heap w); next := next w |}
      | None =>
          match cw k with
          | NoCopy => match first_own (own w) k (mro_of w c) with
                      | Some t => {| mros := mros w; own := own w; heap := heap_set t (put k keys v (heap_get t (heap w))) (heap w); next := next w |}
                      | None => w end
          | _ => let t := next w in
                 {| mros := mros w; own := (c, k, t) :: own w; heap := (t, put k keys v (effective w c k)) :: heap w; next := S t |}
          end
      end
  end.
Definition empty_world : world := {| mros := []; own := []; heap := []; next := 0 |}.
Definition run_from (cw : kind -> cow) (w : world) (h : list op) : world := fold_left (step cw) h w.
Definition run (cw : kind -> cow) (h : list op) : world := run_from cw empty_world h.
Definition keys_of (tb : table) : list key := map fst tb.

(* the COW shapes the shipped code has; GenHistory.cow_of is compared with this by a regenerated obligation *)
Definition expected_cow (k : kind) : cow := match k with KImplicit => PerKeyListCopy | _ => ShallowCopy end.

(* the module-level helpers of __init__.py as macros over op (fan-out lists come from GenHistory) *)
Definition helper (targets : list cls) (k : kind) (keys : list key) (v : string) : list op :=
  map (fun c => Add k c keys v) targets.
