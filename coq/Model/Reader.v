(* Spike: executable model of lib/yaml/reader.py for all four input forms, incl. streams with a read schedule. *)
From Coq Require Import List NArith Bool Arith Lia.
Import ListNotations.

Definition cp := N.
Definition str := list cp.
Open Scope N_scope.

(* ---------- incremental decoders (codecs.utf_8_decode / utf_16_{le,be}_decode, errors='strict') ---------- *)
Inductive d1 := DChar (c : cp) (n : nat) | DNeed | DBad (reason : nat).
(* reasons: 1 invalid start byte, 2 invalid continuation byte, 3 unexpected end of data,
            4 illegal encoding, 5 illegal UTF-16 surrogate, 6 truncated data *)
Definition cont (b : N) : bool := (128 <=? b) && (b <? 192).
Definition utf8_1 (bs : list N) : d1 :=
  match bs with
  | [] => DNeed
  | b0 :: r =>
    if b0 <? 128 then DChar b0 1
    else if b0 <? 194 then DBad 1
    else if b0 <? 224 then
      match r with [] => DNeed | b1 :: _ => if cont b1 then DChar ((b0 - 192) * 64 + (b1 - 128)) 2 else DBad 2 end
    else if b0 <? 240 then
      match r with
      | [] => DNeed
      | b1 :: r1 =>
        if negb (cont b1) || ((b0 =? 224) && (b1 <? 160)) then DBad 2 else
        match r1 with
        | [] => DNeed                                  (* note: ED A0 with nothing after is "incomplete" in CPython *)
        | b2 :: _ => if (b0 =? 237) && (160 <=? b1) then DBad 2
                     else if cont b2 then DChar ((b0 - 224) * 4096 + (b1 - 128) * 64 + (b2 - 128)) 3 else DBad 2
        end
      end
    else if b0 <? 245 then
      match r with
      | [] => DNeed
      | b1 :: r1 =>
        if negb (cont b1) || ((b0 =? 240) && (b1 <? 144)) || ((b0 =? 244) && (144 <=? b1)) then DBad 2 else
        match r1 with
        | [] => DNeed
        | b2 :: r2 =>
          if negb (cont b2) then DBad 2 else
          match r2 with
          | [] => DNeed
          | b3 :: _ => if cont b3 then DChar ((b0 - 240) * 262144 + (b1 - 128) * 4096 + (b2 - 128) * 64 + (b3 - 128)) 4 else DBad 2
          end
        end
      end
    else DBad 1
  end.
(* final=True turns an incomplete tail into an error; ED A0 (two bytes) is reported as invalid continuation *)
Definition utf8_final_reason (bs : list N) : nat :=
  match bs with b0 :: b1 :: [] => if (b0 =? 237) && (160 <=? b1) then 2%nat else 3%nat | _ => 3%nat end.

Definition unit16 (le : bool) (a b : N) : N := if le then b * 256 + a else a * 256 + b.
Definition utf16_1 (le : bool) (bs : list N) : d1 :=
  match bs with
  | [] => DNeed
  | [_] => DNeed
  | a :: b :: r =>
    let u := unit16 le a b in
    if (u <? 55296) || (57344 <=? u) then DChar u 2
    else if 56320 <=? u then DBad 4
    else match r with
         | c :: d :: _ => let v := unit16 le c d in
                          if (56320 <=? v) && (v <? 57344) then DChar (65536 + (u - 55296) * 1024 + (v - 56320)) 4 else DBad 5
         | _ => DNeed
         end
  end.
Definition utf16_final_reason (bs : list N) : nat := match bs with [_] => 6%nat | _ => 3%nat end.
Close Scope N_scope.

Inductive enc := Utf8 | Utf16le | Utf16be.
Inductive decres := DecOk (data : str) (converted : nat) | DecErr (start : nat) (byte : N) (reason : nat).
Fixpoint decode (fuel : nat) (e : enc) (final : bool) (bs : list N) (off : nat) (acc : str) : decres :=
  match fuel with O => DecOk (rev acc) off | S f =>
    match (match e with Utf8 => utf8_1 bs | Utf16le => utf16_1 true bs | Utf16be => utf16_1 false bs end) with
    | DChar c n => decode f e final (skipn n bs) (off + n) (c :: acc)
    | DBad r => DecErr off (hd 0%N bs) r
    | DNeed => match bs with
               | [] => DecOk (rev acc) off
               | b :: _ => if final then DecErr off b (match e with Utf8 => utf8_final_reason bs | _ => utf16_final_reason bs end)
                           else DecOk (rev acc) off
               end
    end
  end.

(* ---------- reader state ---------- *)
Inductive raw := RawNone | RawBytes (b : list N) | RawStr (s : str).
Record stream := { sdata_b : list N; sdata_s : str; is_text : bool; sizes : list nat }.   (* remaining data + read schedule *)

Record rd := {
  strm : option stream; stream_pointer : nat; eof : bool;
  buffer : str; pointer : nat; rawb : raw; encd : option enc;
  index : nat; line : nat; column : nat;
  reads : list (nat * nat) }.                      (* log of read(size) -> len(result), newest first *)

Inductive res (A : Type) := Ok (a : A) | ReaderErr (position : nat) (character : N) (kind : nat) | Crash.
Arguments Ok {A}. Arguments ReaderErr {A}. Arguments Crash {A}.

Open Scope N_scope.
Definition printable (c : cp) : bool :=
  (c =? 9) || (c =? 10) || (c =? 13) || ((32 <=? c) && (c <=? 126)) || (c =? 133) || ((160 <=? c) && (c <=? 55295))
  || ((57344 <=? c) && (c <=? 65533)) || ((65536 <=? c) && (c <=? 1114111)).
Close Scope N_scope.
Fixpoint first_unprintable (s : str) (i : nat) : option (nat * cp) :=
  match s with [] => None | c :: r => if printable c then first_unprintable r (S i) else Some (i, c) end.

Definition upd (r : rd) (st : option stream) (sp : nat) (e : bool) (b : str) (p : nat) (rw : raw) (rl : list (nat * nat)) : rd :=
  {| strm := st; stream_pointer := sp; eof := e; buffer := b; pointer := p; rawb := rw; encd := encd r;
     index := index r; line := line r; column := column r; reads := rl |}.

(* update_raw (reader.py:177-185): one read(4096) according to the schedule *)
Definition update_raw (r : rd) : rd :=
  match strm r with
  | None => r
  | Some s =>
    let k := match sizes s with [] => 4096 | k :: _ => Nat.max 1 (Nat.min k 4096) end in
    let rest_sizes := tl (sizes s) in
    if is_text s then
      let d := firstn k (sdata_s s) in
      let s' := {| sdata_b := sdata_b s; sdata_s := skipn k (sdata_s s); is_text := true; sizes := rest_sizes |} in
      let rw := match rawb r with RawStr x => RawStr (x ++ d) | _ => RawStr d end in
      upd r (Some s') (stream_pointer r + length d) (match d with [] => true | _ => eof r end) (buffer r) (pointer r) rw ((4096, length d) :: reads r)
    else
      let d := firstn k (sdata_b s) in
      let s' := {| sdata_b := skipn k (sdata_b s); sdata_s := sdata_s s; is_text := false; sizes := rest_sizes |} in
      let rw := match rawb r with RawBytes x => RawBytes (x ++ d) | _ => RawBytes d end in
      upd r (Some s') (stream_pointer r + length d) (match d with [] => true | _ => eof r end) (buffer r) (pointer r) rw ((4096, length d) :: reads r)
  end.

Definition raw_len (w : raw) : nat := match w with RawNone => 0 | RawBytes b => length b | RawStr s => length s end.

(* update (reader.py:146-175) *)
Fixpoint update_loop (fuel : nat) (length_ : nat) (r : rd) : res rd :=
  match fuel with O => Crash | S f =>
    if Nat.leb length_ (length (buffer r)) then Ok r else
    let r := if eof r then r else update_raw r in
    match (match rawb r, encd r with
           | RawBytes b, Some e =>
               match decode (S (length b)) e (eof r) b 0 [] with
               | DecOk d c => Ok (d, c)
               | DecErr st byte reason =>
                   let position := match strm r with Some _ => stream_pointer r - length b + st | None => st end in
                   ReaderErr position byte (100 + reason)
               end
           | RawStr s, _ => Ok (s, length s)
           | _, _ => Crash
           end) with
    | Ok (data, converted) =>
        match first_unprintable data 0 with
        | Some (i, c) => ReaderErr (index r + (length (buffer r) - pointer r) + i) c 0
        | None =>
            let rw := match rawb r with RawBytes b => RawBytes (skipn converted b) | RawStr s => RawStr (skipn converted s) | RawNone => RawNone end in
            let buf := buffer r ++ data in
            if eof r then Ok (upd r (strm r) (stream_pointer r) true (buf ++ [0%N]) (pointer r) RawNone (reads r))
            else update_loop f length_ (upd r (strm r) (stream_pointer r) (eof r) buf (pointer r) rw (reads r))
        end
    | ReaderErr p c k => ReaderErr p c k
    | Crash => Crash
    end
  end.
Definition update (length_ : nat) (r : rd) : res rd :=
  match rawb r with
  | RawNone => Ok r
  | _ =>
    let r := upd r (strm r) (stream_pointer r) (eof r) (skipn (pointer r) (buffer r)) 0 (rawb r) (reads r) in
    update_loop (length_ + raw_len (rawb r) + (match strm r with Some s => length (sdata_b s) + length (sdata_s s) | None => 0 end) + 4) length_ r
  end.

Definition set_enc (r : rd) (e : option enc) : rd :=
  {| strm := strm r; stream_pointer := stream_pointer r; eof := eof r; buffer := buffer r; pointer := pointer r; rawb := rawb r;
     encd := e; index := index r; line := line r; column := column r; reads := reads r |}.

Fixpoint detect_loop (fuel : nat) (r : rd) : rd :=
  match fuel with O => r | S f =>
    if negb (eof r) && (match rawb r with RawNone => true | w => Nat.ltb (raw_len w) 2 end) then detect_loop f (update_raw r) else r
  end.
Definition starts (p : list N) (b : list N) : bool :=
  (fix go p b := match p, b with [], _ => true | x :: p', y :: b' => N.eqb x y && go p' b' | _, _ => false end) p b.
Definition determine_encoding (r : rd) : res rd :=
  let r := detect_loop (4 + match strm r with Some s => length (sdata_b s) + length (sdata_s s) | None => 0 end) r in
  let r := match rawb r with
           | RawBytes b => if starts [255;254]%N b then set_enc r (Some Utf16le)
                           else if starts [254;255]%N b then set_enc r (Some Utf16be) else set_enc r (Some Utf8)
           | _ => r end in
  update 1 r.

Definition blank : rd := {| strm := None; stream_pointer := 0; eof := true; buffer := []; pointer := 0; rawb := RawNone; encd := None;
                            index := 0; line := 0; column := 0; reads := [] |}.
Definition init_str (s : str) : res rd :=
  match first_unprintable s 0 with
  | Some (i, c) => ReaderErr i c 0
  | None => Ok (upd blank None 0 true (s ++ [0%N]) 0 RawNone [])
  end.
Definition init_bytes (b : list N) : res rd := determine_encoding (upd blank None 0 true [] 0 (RawBytes b) []).
Definition init_stream (s : stream) : res rd := determine_encoding (upd blank (Some s) 0 false [] 0 RawNone []).

(* peek / prefix / forward (reader.py:87-112) *)
Definition peek (i : nat) (r : rd) : res (cp * rd) :=
  match nth_error (buffer r) (pointer r + i) with
  | Some c => Ok (c, r)
  | None => match update (i + 1) r with
            | Ok r' => match nth_error (buffer r') (pointer r' + i) with Some c => Ok (c, r') | None => Crash end
            | ReaderErr p c k => ReaderErr p c k | Crash => Crash end
  end.
Definition prefix (n : nat) (r : rd) : res (str * rd) :=
  match (if Nat.leb (length (buffer r)) (pointer r + n) then update n r else Ok r) with
  | Ok r' => Ok (firstn n (skipn (pointer r') (buffer r')), r')
  | ReaderErr p c k => ReaderErr p c k | Crash => Crash end.
Fixpoint fwd_loop (n : nat) (r : rd) : res rd :=
  match n with O => Ok r | S n' =>
    match nth_error (buffer r) (pointer r) with
    | None => Crash
    | Some ch =>
      let nxt := nth_error (buffer r) (S (pointer r)) in
      if N.eqb ch 13 && (match nxt with None => true | _ => false end) then Crash else
      let brk := existsb (N.eqb ch) [10;133;8232;8233]%N || (N.eqb ch 13 && negb (match nxt with Some c => N.eqb c 10 | None => false end)) in
      let r' := {| strm := strm r; stream_pointer := stream_pointer r; eof := eof r; buffer := buffer r; pointer := S (pointer r);
                   rawb := rawb r; encd := encd r; index := S (index r);
                   line := if brk then S (line r) else line r;
                   column := if brk then 0 else if N.eqb ch 65279 then column r else S (column r); reads := reads r |} in
      fwd_loop n' r'
    end
  end.
Definition forward (n : nat) (r : rd) : res rd :=
  match (if Nat.leb (length (buffer r)) (pointer r + n + 1) then update (n + 1) r else Ok r) with
  | Ok r' => fwd_loop n r'
  | ReaderErr p c k => ReaderErr p c k | Crash => Crash end.

(* a demand script: 0 = peek k, 1 = prefix k, 2 = forward k *)
Inductive obs := OChar (c : cp) | OStr (s : str) | OPos (i l c : nat) (sp : nat) (nreads : nat).
Fixpoint run (ops : list (nat * nat)) (r : rd) (acc : list obs) : list obs * res rd :=
  match ops with
  | [] => (rev acc, Ok r)
  | (0, k) :: ops' => match peek k r with Ok (c, r') => run ops' r' (OChar c :: acc) | ReaderErr p c e => (rev acc, ReaderErr p c e) | Crash => (rev acc, Crash) end
  | (1, k) :: ops' => match prefix k r with Ok (s, r') => run ops' r' (OStr s :: acc) | ReaderErr p c e => (rev acc, ReaderErr p c e) | Crash => (rev acc, Crash) end
  | (_, k) :: ops' => match forward k r with
                      | Ok r' => run ops' r' (OPos (index r') (line r') (column r') (stream_pointer r') (length (reads r')) :: acc)
                      | ReaderErr p c e => (rev acc, ReaderErr p c e) | Crash => (rev acc, Crash) end
  end.
Definition run_str (s : str) ops := match init_str s with Ok r => run ops r [] | ReaderErr p c e => ([], ReaderErr p c e) | Crash => ([], Crash) end.
Definition run_bytes (b : list N) ops := match init_bytes b with Ok r => run ops r [] | ReaderErr p c e => ([], ReaderErr p c e) | Crash => ([], Crash) end.
Definition run_stream (text : bool) (data : list N) (szs : list nat) ops :=
  match init_stream {| sdata_b := if text then [] else data; sdata_s := if text then data else []; is_text := text; sizes := szs |} with
  | Ok r => run ops r [] | ReaderErr p c e => ([], ReaderErr p c e) | Crash => ([], Crash) end.

