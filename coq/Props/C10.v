(* C10 - Customising one loader or dumper class never changes another.   ONLY statements + `exact lemma`.
   World = class table model of Model/Registry.v; w0 = the world after the regenerated import-time registration
   program (Gen/GenHistory.v); reach h = w0 after an arbitrary further history h (any length). *)
From Coq Require Import List String Bool.
Import ListNotations.
Require Import Registry RegistryProofs GenHistory C10Lemmas.
Open Scope string_scope.

(* KIND C10_cow_shapes_regenerated : F *)
Theorem C10_cow_shapes_regenerated : forall k, cow_of k = expected_cow k.
Proof. exact cow_ok. Qed.
Eval vm_compute in "ASSUME:C10_cow_shapes_regenerated". Print Assumptions C10_cow_shapes_regenerated.

(* KIND C10_add_effective : U *)
Theorem C10_add_effective : forall h k c keys v, forallb op_ok h = true ->
  effective (step cow_of (reach h) (Add k c keys v)) c k = put k keys v (effective (reach h) c k).
Proof. exact l_add_effective. Qed.
Eval vm_compute in "ASSUME:C10_add_effective". Print Assumptions C10_add_effective.

(* KIND C10_add_isolated : U *)
(* bases, siblings, unrelated classes (they do not inherit from the target) and every other kind of table are untouched *)
Theorem C10_add_isolated : forall h k c keys v d k', forallb op_ok h = true ->
  (~ In c (mro_of (reach h) d) \/ k' <> k) ->
  effective (step cow_of (reach h) (Add k c keys v)) d k' = effective (reach h) d k'.
Proof. exact l_add_isolated. Qed.
Eval vm_compute in "ASSUME:C10_add_isolated". Print Assumptions C10_add_isolated.

(* KIND C10_add_shadowed : U *)
(* a subclass that registered this kind itself (or has a nearer base that did) is untouched *)
Theorem C10_add_shadowed : forall h k c keys v d pre post t0, forallb op_ok h = true ->
  mro_of (reach h) d = (pre ++ c :: post)%list -> ~ In c pre -> first_own (own (reach h)) k pre = Some t0 ->
  effective (step cow_of (reach h) (Add k c keys v)) d k = effective (reach h) d k.
Proof. exact l_add_shadowed. Qed.
Eval vm_compute in "ASSUME:C10_add_shadowed". Print Assumptions C10_add_shadowed.

(* KIND C10_add_inherited : U *)
(* a subclass with nothing of this kind registered nearer than the target sees exactly the target's new table *)
Theorem C10_add_inherited : forall h k c keys v d pre post, forallb op_ok h = true ->
  mro_of (reach h) d = (pre ++ c :: post)%list -> first_own (own (reach h)) k pre = None -> ~ In c pre ->
  effective (step cow_of (reach h) (Add k c keys v)) d k = effective (step cow_of (reach h) (Add k c keys v)) c k.
Proof. exact l_add_inherited. Qed.
Eval vm_compute in "ASSUME:C10_add_inherited". Print Assumptions C10_add_inherited.

(* KIND C10_defclass_isolated : U *)
Theorem C10_defclass_isolated : forall h c m fresh d k, forallb op_ok h = true -> d <> c -> ~ In c (mro_of (reach h) d) ->
  effective (step cow_of (reach h) (DefClass c m fresh)) d k = effective (reach h) d k.
Proof. exact l_defclass_isolated. Qed.
Eval vm_compute in "ASSUME:C10_defclass_isolated". Print Assumptions C10_defclass_isolated.

(* KIND C10_no_shared_tables : U *)
(* after ANY history no two (class, kind) pairs own the same dict object *)
Theorem C10_no_shared_tables : forall h, forallb op_ok h = true -> no_shared_tables (reach h).
Proof. exact l_no_shared_tables. Qed.
Eval vm_compute in "ASSUME:C10_no_shared_tables". Print Assumptions C10_no_shared_tables.

(* KIND C10_tables_frozen : U *)
(* for ALL histories that never target a class in d's MRO, every effective table of d is the shipped one;
   in particular d = SafeLoader / CSafeLoader / SafeDumper / CSafeDumper *)
Theorem C10_tables_frozen : forall d h k, forallb op_ok h = true -> avoids (mro_of w0 d) h = true ->
  effective (reach h) d k = effective w0 d k.
Proof. exact l_frozen. Qed.
Eval vm_compute in "ASSUME:C10_tables_frozen". Print Assumptions C10_tables_frozen.

(* KIND C10_helper_isolated : U *)
(* yaml.add_*(…, Loader=None) = the same Add on each class of the regenerated fan-out list: only heirs can change *)
Theorem C10_helper_isolated : forall h targets k keys v d k', forallb op_ok h = true ->
  (forall c, In c targets -> ~ In c (mro_of (reach h) d)) ->
  effective (run_from cow_of (reach h) (helper targets k keys v)) d k' = effective (reach h) d k'.
Proof. exact l_helper_isolated. Qed.
Eval vm_compute in "ASSUME:C10_helper_isolated". Print Assumptions C10_helper_isolated.

(* KIND C10_default_helpers_spare_safe : F *)
(* no shipped safe/base class inherits from a class the default helpers / YAMLObject register on (regenerated lists) *)
Theorem C10_default_helpers_spare_safe : forall s, In s safe_classes ->
  avoids (mro_of w0 s) (map (fun c => Add KCtor c [] "") fanout_targets) = true.
Proof. exact l_default_helpers_spare_safe. Qed.
Eval vm_compute in "ASSUME:C10_default_helpers_spare_safe". Print Assumptions C10_default_helpers_spare_safe.

(* KIND C10_entry_classes_unrelated : F *)
(* the sixteen classes a user passes as Loader= / Dumper= (frozen list of the public entry classes) are pairwise unrelated by
   inheritance in the regenerated class world - none is a base of another - and each exists *)
Theorem C10_entry_classes_unrelated : unrelated w0 entry_classes = true /\ forallb (fun c => existsb (String.eqb c) (mro_of w0 c)) entry_classes = true.
Proof. exact l_entry_classes_unrelated. Qed.
Eval vm_compute in "ASSUME:C10_entry_classes_unrelated". Print Assumptions C10_entry_classes_unrelated.
(* KIND C10_entry_classes_isolated : D *)
(* hence a registration of any kind on one shipped entry class changes no effective table of any other shipped entry class *)
Theorem C10_entry_classes_isolated : forall k c keys v d k', In c entry_classes -> In d entry_classes -> c <> d ->
  effective (step cow_of w0 (Add k c keys v)) d k' = effective w0 d k'.
Proof. exact l_entry_isolated. Qed.
Eval vm_compute in "ASSUME:C10_entry_classes_isolated". Print Assumptions C10_entry_classes_isolated.

(* KIND C10_nonvacuous : F *)
Example C10_nonvacuous :
  forallb op_ok demo_history = true /\ avoids (mro_of w0 "SafeLoader") demo_history = true /\
  avoids (mro_of w0 "SafeDumper") demo_history = true /\
  keys_of (effective (reach demo_history) "MyLoader" KCtor) = (keys_of (effective w0 "SafeLoader" KCtor) ++ [Some "!point"])%list /\
  effective (reach demo_history) "SafeLoader" KCtor = effective w0 "SafeLoader" KCtor.
Proof. exact demo_meets_hypotheses. Qed.

(* KIND C10_nocopy_leaks : F *)
(* the theorems are not idle: under the NoCopy shape a sibling does see the registration *)
Example C10_nocopy_leaks :
  let h := [DefClass "B" ["B"] [KCtor]; DefClass "S" ["S"; "B"] []; DefClass "T" ["T"; "B"] []] in
  effective (step (fun _ => NoCopy) (run expected_cow h) (Add KCtor "S" [Some "!x"] "f")) "T" KCtor = [(Some "!x", ["f"])] /\
  effective (step expected_cow (run expected_cow h) (Add KCtor "S" [Some "!x"] "f")) "T" KCtor = [].
Proof. exact nocopy_leaks. Qed.
