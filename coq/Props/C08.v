(* C08 - Plain scalars are typed exactly by the YAML 1.1 rules.   ONLY statements + `exact lemma`.
   resolvers / re_* / first_* are regenerated from lib/yaml/resolver.py on every run (Gen/GenRegex.v); `matches` is the
   derivative matcher of Model/Regex.v whose agreement with the denotational `lang` is proved (matches_ok); inclusion and
   emptiness are decided by the certified procedure of Proofs/RegexDec.v (all strings, no length bound). *)
From Coq Require Import List NArith ZArith Bool String.
Import ListNotations.
Require Import Regex RegexDec GenRegex Yaml11Types Scan Parse Construct C08Lemmas.
Require Construct Represent IntRoundTrip.
Open Scope N_scope.

(* KIND C08_index_complete : D *)
(* on every text a plain scalar can have, the first-character index never hides a matching resolver *)
Theorem C08_index_complete : forall t r f e, In (t, r, f, e) resolvers ->
  forall w, matches r w = true -> matches no_trailing_lf w = true -> matches (starts_in f e) w = true.
Proof. exact l_index_complete. Qed.
Eval vm_compute in "ASSUME:C08_index_complete"%string. Print Assumptions C08_index_complete.

(* KIND C08_index_complete_all_strings_refuted : F *)
(* FULL (all strings, also those ending in a line feed) is false: "\n" matches null but '\n' is not in null's first list.
   Unobservable for plain scalars (they never end in a break); it is why `! "yes\n"` reaches the bool converter. *)
Example C08_index_complete_all_strings_refuted :
  matches re_null [10] = true /\ matches (starts_in first_null first_eps_null) [10] = false.
Proof. exact l_index_complete_all_strings_refuted. Qed.

(* KIND C08_types_disjoint : D *)
Theorem C08_types_disjoint : forall a b, In (a, b) (pairs (map res_of resolvers)) ->
  forall w, matches a w = true -> matches b w = true -> False.
Proof. exact l_types_disjoint. Qed.
Eval vm_compute in "ASSUME:C08_types_disjoint"%string. Print Assumptions C08_types_disjoint.

(* KIND C08_rules_unchanged : D *)
(* every regenerated type language (over ALL strings) and first-list equals the frozen YAML 1.1 reference *)
Theorem C08_rules_unchanged : forall t r f e sr sf se, In ((t, r, f, e), (sr, sf, se)) (combine resolvers spec_resolvers) ->
  (forall w, matches r w = matches sr w) /\ f = sf /\ e = se.
Proof. exact l_rules_unchanged. Qed.
Eval vm_compute in "ASSUME:C08_rules_unchanged"%string. Print Assumptions C08_rules_unchanged.
(* KIND C08_rules_count : F *)
Theorem C08_rules_count : List.length resolvers = List.length spec_resolvers.
Proof. apply PeanoNat.Nat.eqb_eq. exact rules_count_ok. Qed.

(* KIND C08_resolve_is_first_match : U *)
(* the resolver model used by the whole load/dump correspondence = "first regex in registration order that matches" *)
Theorem C08_resolve_is_first_match : forall v b, matches no_trailing_lf v = true ->
  resolve_scalar false v true b = resolve_decl v.
Proof. exact l_resolve_is_first_match. Qed.
Eval vm_compute in "ASSUME:C08_resolve_is_first_match"%string. Print Assumptions C08_resolve_is_first_match.

(* KIND C08_quoted_is_str : U *)
Theorem C08_quoted_is_str : forall base v b, resolve_scalar base v false b = t_str.
Proof. exact l_quoted_is_str. Qed.
Eval vm_compute in "ASSUME:C08_quoted_is_str"%string. Print Assumptions C08_quoted_is_str.

(* KIND C08_timestamp_regexps_agree : D *)
(* a plain scalar resolved as timestamp is always matched by the constructor's own regexp (no None.groupdict()) *)
Theorem C08_timestamp_regexps_agree : forall w, matches re_timestamp w = true -> matches no_trailing_lf w = true ->
  matches re_ctor_timestamp w = true.
Proof. exact l_timestamp_regexps_agree. Qed.
Eval vm_compute in "ASSUME:C08_timestamp_regexps_agree"%string. Print Assumptions C08_timestamp_regexps_agree.

(* KIND C08_int_converter_total_refuted : F *)
(* FULL converter totality for int is false on the pinned tree: "0x_" is an int by the rules but int("0x") raises *)
Example C08_int_converter_total_refuted : matches re_int [48;120;95] = true /\ matches int_convertible [48;120;95] = false.
Proof. exact l_int_converter_total_refuted. Qed.
(* KIND C08_int_roundtrip : U *)
(* EVERY integer the representer model writes (every z whose decimal form has at most 4300 digits - CPython's limit: beyond it str(int) refuses and
   the model's int_text returns None) is read back by the constructor model's construct_yaml_int as the same integer: sign, no leading zero, no
   octal / sexagesimal / underscore reading of a decimal text (Proofs/IntRoundTrip.v) *)
Theorem C08_int_roundtrip : forall z t, Represent.int_text z = Some t -> Construct.construct_int t = Construct.COk z.
Proof. exact IntRoundTrip.int_text_roundtrip. Qed.
Eval vm_compute in "ASSUME:C08_int_roundtrip"%string. Print Assumptions C08_int_roundtrip.
(* KIND C08_int_examples : F *)
Example C08_int_examples : Represent.int_text (-12345678901234567890)%Z = Some [45; 49; 50; 51; 52; 53; 54; 55; 56; 57; 48; 49; 50; 51; 52; 53; 54; 55; 56; 57; 48]%N /\
  Construct.construct_int [45; 49; 50; 51; 52; 53; 54; 55; 56; 57; 48; 49; 50; 51; 52; 53; 54; 55; 56; 57; 48]%N = Construct.COk (-12345678901234567890)%Z /\ Represent.int_text 0%Z = Some [48%N].
Proof. exact IntRoundTrip.int_examples. Qed.


(* KIND C08_null_and_bool_texts_read_back : F *)
(* the three texts the representer model writes for None, True and False (`null`, `true`, `false`) are typed null / bool by the regenerated resolver
   rules when written plain, and converted back to the same value (finite: the representer writes no other text for these types) *)
Example C08_null_and_bool_texts_read_back :
  Construct.resolve_scalar false [110; 117; 108; 108] true false = Construct.t_null /\
  Construct.resolve_scalar false [116; 114; 117; 101] true false = Construct.t_bool /\ Construct.bool_of [116; 114; 117; 101] = Some true /\
  Construct.resolve_scalar false [102; 97; 108; 115; 101] true false = Construct.t_bool /\ Construct.bool_of [102; 97; 108; 115; 101] = Some false.
Proof. vm_compute. repeat split; reflexivity. Qed.
