(* C05 - Emitting then parsing returns the same events.   ONLY statements + `exact lemma`. *)
From Coq Require Import List NArith ZArith Bool Arith String.
Import ListNotations.
Require Import Scan Pos DQ SQ.
Require Emit EmitGrows EmitLemmas EmitPrefix EmitSafe EmitSQ Plain EmitPlain AnalysisPlain PlainDispatch.
Require ParseL ParserGrammar EmitGrammar.

(* KIND C05_double_quoted_scalar_roundtrip : U *)
(* for EVERY text t over printable ASCII (spaces, apostrophes included), the 15 single-letter escapes and \xHH code points,
   and every scanner state whose buffer is  " body(t) " tail  (body = the escaping write_double_quoted performs, no fold):
   scan_flow_scalar returns a double-quoted scalar token whose value is exactly t and leaves the buffer at tail *)
Theorem C05_double_quoted_scalar_roundtrip : forall t tail s,
  forallb simple t = true -> rest s = (34%N :: body t ++ 34%N :: tail)%list -> tail <> [] ->
  exists tok s', scan_flow_scalar true s = Ok (tok, s') /\ t_kind tok = TScalar t false SDouble /\ rest s' = tail.
Proof. exact dq_roundtrip. Qed.
Eval vm_compute in "ASSUME:C05_double_quoted_scalar_roundtrip"%string. Print Assumptions C05_double_quoted_scalar_roundtrip.

(* KIND C05_single_quoted_scalar_roundtrip : U *)
(* scalar contents character for character, single-quoted style: every text over printable ASCII written with its apostrophes
   doubled reads back as exactly that text (see C02_single_quoted_scalar_roundtrip) *)
Theorem C05_single_quoted_scalar_roundtrip : forall t z tail s,
  forallb raw1 t = true -> z <> 39%N -> rest s = (39%N :: body1 t ++ 39%N :: z :: tail)%list ->
  exists tok s', scan_flow_scalar false s = Ok (tok, s') /\ t_kind tok = TScalar t false SSingle /\ rest s' = (z :: tail)%list.
Proof. exact sq_roundtrip. Qed.
Eval vm_compute in "ASSUME:C05_single_quoted_scalar_roundtrip"%string. Print Assumptions C05_single_quoted_scalar_roundtrip.

(* KIND C05_emit_prefix_monotone : U *)
(* the emitter model's output is append-only (46 generated lemmas, one per function of Model/Emit.v: every run - returning, raising EmitterError or crashing - only
   conses chunks onto the output).  Hence for ALL event lists and ALL states: the chunks written for a prefix of the events are a prefix of the chunks written for
   the whole stream, also when the run ends in an error *)
Theorem C05_emit_prefix_monotone : forall es1 es2 s, exists d, fst (Emit.emit_all (es1 ++ es2)%list s) = (fst (Emit.emit_all es1 s) ++ d)%list.
Proof. exact EmitPrefix.l_emit_prefix_monotone. Qed.
Eval vm_compute in "ASSUME:C05_emit_prefix_monotone"%string. Print Assumptions C05_emit_prefix_monotone.

(* KIND C05_emitter_total : U *)
(* for EVERY list of events - well-formed or not, of any length and nesting - and every option set (canonical, allow_unicode, indent, width,
   line break): the run of the emitter model ends normally or with an EmitterError; it never crashes (no IndexError from the stacks of states
   and indents or from the scalar writers' indices, no TypeError from a missing event or from write_plain on a text with line breaks - the
   analysis never allows that style) and the event queue never needs more than its look-ahead.  Proofs/EmitSafe.v: a weakest-precondition
   calculus over the emitter monad, an invariant on the stack of continuation states / saved indents / cached analysis, all 18 states *)
Theorem C05_emitter_total : forall evs canon allow_uni ind width lb,
  EmitSafe.fine (snd (Emit.emit_all evs (Emit.init canon allow_uni ind width lb))).
Proof. exact EmitSafe.emitter_never_crashes. Qed.
Eval vm_compute in "ASSUME:C05_emitter_total"%string. Print Assumptions C05_emitter_total.
(* KIND C05_emit_keeps_invariant : U *)
(* the same per call of emit(): from every state that satisfies the invariant GI (what holds between two calls) one more event gives
   a state that satisfies it again, or an EmitterError *)
Theorem C05_emit_keeps_invariant : forall e s, EmitSafe.GI s ->
  match Emit.emit1 e s with Emit.Ok (_, s') => EmitSafe.GI s' | Emit.EmitErr _ _ => True | _ => False end.
Proof. exact EmitSafe.emit_keeps_invariant. Qed.
Eval vm_compute in "ASSUME:C05_emit_keeps_invariant"%string. Print Assumptions C05_emit_keeps_invariant.
(* KIND C05_emitter_total_nonvacuous : F *)
(* `fine` can fail: outside the invariant the model crashes exactly where Python would (write_plain on a text ending in a line break: TypeError;
   pop of an empty stack of states: IndexError); an ill-formed stream ends with an EmitterError and a well-formed one with its text *)
Example C05_emitter_total_nonvacuous :
  let s0 := Emit.init false false None None [10%N] in
  (match Emit.write_plain [97%N; 10%N] true s0 with Emit.Crash Emit.TypeError _ => True | _ => False end) /\
  (match Emit.pop_state s0 with Emit.Crash Emit.IndexError _ => True | _ => False end) /\
  (match snd (Emit.emit_all [Emit.EStreamStart; Emit.ESeqEnd] s0) with Emit.EmitErr _ _ => True | _ => False end) /\
  fst (Emit.emit_all [Emit.EStreamStart; Emit.EDocStart false None []; Emit.EScalar None None true false [97%N] None; Emit.EDocEnd false; Emit.EStreamEnd] s0)
    = [[97%N]; [10%N]; [46%N; 46%N; 46%N]; [10%N]].
Proof. exact EmitSafe.crash_is_possible. Qed.

(* KIND C05_plain_scalar_roundtrip : U *)
(* the plain style (the dumper's first choice): EVERY one-line text made of words (no blank character, a colon never followed by a blank, no leading '#')
   separated by runs of spaces, in block context at a column inside the current indentation, followed by the end of the input or by a line feed and the
   end of the input: scan_plain returns a plain scalar token with exactly that text (Proofs/Plain.v) *)
Theorem C05_plain_scalar_roundtrip : forall x t r s, Plain.plainok x t -> rest s = (t ++ x :: r)%list -> Plain.ender x r -> flow_level s = 0%Z ->
  (indent s + 1 <= Z.of_nat (col s))%Z ->
  exists tok s', scan_plain s = Ok (tok, s') /\ t_kind tok = TScalar t true SPlain /\ rest s' = Plain.after x r.
Proof. exact Plain.plain_roundtrip. Qed.
Eval vm_compute in "ASSUME:C05_plain_scalar_roundtrip"%string. Print Assumptions C05_plain_scalar_roundtrip.
(* KIND C05_plain_emit_then_scan : U *)
(* emitter model and scanner model TOGETHER for the plain style: for every such text and every emitter state standing after whitespace,
   write_plain (no folding) writes the text itself, and the scanner reads it back as exactly that text *)
Theorem C05_plain_emit_then_scan : forall x text r s, Plain.plainok x text -> Plain.ender x r -> Emit.whitespace s = true ->
  exists s', Emit.write_plain text false s = Emit.Ok (tt, s') /\ EmitSQ.otext s' = (EmitSQ.otext s ++ text)%list /\
    forall sc, rest sc = (text ++ x :: r)%list -> flow_level sc = 0%Z -> (indent sc + 1 <= Z.of_nat (col sc))%Z ->
      exists tok sc', scan_plain sc = Ok (tok, sc') /\ t_kind tok = TScalar text true SPlain /\ rest sc' = Plain.after x r.
Proof. exact EmitPlain.plain_emit_then_scan. Qed.
Eval vm_compute in "ASSUME:C05_plain_emit_then_scan"%string. Print Assumptions C05_plain_emit_then_scan.
(* KIND C05_analysed_plain_emit_then_scan : U *)
(* three cooperating sites: EVERY non-empty text for which the emitter's analyze_scalar allows the plain style in block context (any allow_unicode
   setting) is such a text of words and runs of spaces (Proofs/AnalysisPlain.v: an invariant of the analysis loop over every character); so what
   the style choice lets write_plain write, scan_plain reads back *)
Theorem C05_analysed_plain_emit_then_scan : forall au text x r s, text <> [] -> Emit.a_block_plain (Emit.analyze_scalar au text) = true -> Plain.ender x r ->
  Emit.whitespace s = true ->
  exists s', Emit.write_plain text false s = Emit.Ok (tt, s') /\ EmitSQ.otext s' = (EmitSQ.otext s ++ text)%list /\
    forall sc, rest sc = (text ++ x :: r)%list -> flow_level sc = 0%Z -> (indent sc + 1 <= Z.of_nat (col sc))%Z ->
      exists tok sc', scan_plain sc = Ok (tok, sc') /\ t_kind tok = TScalar text true SPlain /\ rest sc' = Plain.after x r.
Proof. exact AnalysisPlain.analysed_plain_emit_then_scan. Qed.
Eval vm_compute in "ASSUME:C05_analysed_plain_emit_then_scan"%string. Print Assumptions C05_analysed_plain_emit_then_scan.
(* KIND C05_dispatch_is_the_tail_of_fetch_more_tokens : U *)
(* PlainDispatch.dispatch is, literally, the part of fetch_more_tokens (scanner.py:156-260) that looks at the next character and selects the fetcher *)
Theorem C05_dispatch_is_the_tail_of_fetch_more_tokens :
  fetch_more_tokens = (scan_to_next_token ;;; stale_possible_simple_keys ;;; (s <- get ;; unwind_indent (Z.of_nat (col s)) ;;; PlainDispatch.dispatch)).
Proof. exact PlainDispatch.fetch_more_tokens_eq. Qed.
Eval vm_compute in "ASSUME:C05_dispatch_is_the_tail_of_fetch_more_tokens"%string. Print Assumptions C05_dispatch_is_the_tail_of_fetch_more_tokens.
(* KIND C05_analysed_plain_is_dispatched_to_plain : U *)
(* a fourth cooperating site: the scanner DECIDES to read a plain scalar exactly where the emitter wrote one.  For EVERY non-empty text for which
   analyze_scalar allows the plain style in block context, standing in the input followed by a blank, the dispatch of fetch_more_tokens selects
   fetch_plain - the text is not taken for a document marker (--- / ...), a block entry, a key or value indicator, a flow indicator, an anchor, alias,
   tag, directive, block or quoted scalar, and not rejected with "found character that cannot start any token" (Proofs/PlainDispatch.v: what the
   analysis establishes about the first character, and the absence of the two markers, carried through the twenty tests of the dispatch) *)
Theorem C05_analysed_plain_is_dispatched_to_plain : forall au text x r sc,
  text <> [] -> Emit.a_block_plain (Emit.analyze_scalar au text) = true -> mem x blankz = true ->
  rest sc = (text ++ x :: r)%list -> flow_level sc = 0%Z -> PlainDispatch.dispatch sc = fetch_plain sc.
Proof. exact PlainDispatch.analysed_plain_is_dispatched_to_plain. Qed.
Eval vm_compute in "ASSUME:C05_analysed_plain_is_dispatched_to_plain"%string. Print Assumptions C05_analysed_plain_is_dispatched_to_plain.
(* KIND C05_plain_dispatch_nonvacuous : F *)
(* "-x y" may be written plain and the whole scanner reads "-x y\n" as that plain scalar; "---x", "-" and "..." may not be written plain *)
Example C05_plain_dispatch_nonvacuous :
  Emit.a_block_plain (Emit.analyze_scalar false [45; 120; 32; 121]%N) = true /\
  map t_kind (fst (scan_all [45; 120; 32; 121; 10]%N)) = [TStreamStart; TScalar [45; 120; 32; 121]%N true SPlain; TStreamEnd] /\
  Emit.a_block_plain (Emit.analyze_scalar false [45; 45; 45; 120]%N) = false /\ Emit.a_block_plain (Emit.analyze_scalar false [45]%N) = false /\
  Emit.a_block_plain (Emit.analyze_scalar false [46; 46; 46]%N) = false.
Proof. exact PlainDispatch.dispatch_example. Qed.

(* KIND C05_emitter_accepts_the_event_grammar : U *)
(* EVERY list of events that the event grammar allows (a viable prefix of STREAM-START document* STREAM-END, the pushdown recogniser of
   ParserGrammar.v read on event kinds) and every option set: the emitter model never answers with a structural EmitterError ("expected
   NodeEvent / DocumentStartEvent / StreamStartEvent / DocumentEndEvent / nothing, but got ..."); what it can still reject is content - an
   anchor, tag, tag handle or %YAML version it cannot write.  Proofs/EmitGrammar.v: each of the 18 emitter states with its stack of
   continuation states is mapped to the recogniser's frames and every step is one transition; entering a block collection is justified by
   the look-ahead the event queue guarantees *)
Theorem C05_emitter_accepts_the_event_grammar : forall evs gfin canon allow_uni ind width lb,
  EmitGrammar.krun [ParserGrammar.GInit] (map EmitGrammar.kind evs) = Some gfin ->
  EmitGrammar.fine (snd (Emit.emit_all evs (Emit.init canon allow_uni ind width lb))).
Proof. exact EmitGrammar.emitter_accepts_the_event_grammar. Qed.
Eval vm_compute in "ASSUME:C05_emitter_accepts_the_event_grammar"%string. Print Assumptions C05_emitter_accepts_the_event_grammar.
(* KIND C05_emitter_accepts_parser_events : U *)
(* parser and emitter composed: the events the parser model delivers for ANY token list (C09_parser_events_grammatical), handed to the emitter
   as events of the same kinds, are never rejected for their structure *)
Theorem C05_emitter_accepts_parser_events : forall ts fuel evs canon allow_uni ind width lb,
  map EmitGrammar.kind evs = map EmitGrammar.pkind (map ParseL.e_kind (fst (ParseL.parse_loop fuel [] (ParseL.pinit ts)))) ->
  EmitGrammar.fine (snd (Emit.emit_all evs (Emit.init canon allow_uni ind width lb))).
Proof. exact EmitGrammar.emitter_accepts_parser_events. Qed.
Eval vm_compute in "ASSUME:C05_emitter_accepts_parser_events"%string. Print Assumptions C05_emitter_accepts_parser_events.
(* KIND C05_structure_and_content : F *)
(* non-vacuity: a stream outside the grammar IS rejected for its structure, and a grammatical one can still be rejected for content (an alias without anchor) *)
Example C05_structure_and_content :
  let s0 := Emit.init false false None None [10%N] in
  (match snd (Emit.emit_all [Emit.EStreamStart; Emit.ESeqEnd] s0) with Emit.EmitErr c _ => EmitGrammar.content c = false | _ => False end) /\
  EmitGrammar.krun [ParserGrammar.GInit] (map EmitGrammar.kind [Emit.EStreamStart; Emit.EDocStart false None []; Emit.EAlias None]) <> None /\
  (match snd (Emit.emit_all [Emit.EStreamStart; Emit.EDocStart false None []; Emit.EAlias None; Emit.EDocEnd false] s0) with Emit.EmitErr c _ => EmitGrammar.content c = true | _ => False end).
Proof. exact EmitGrammar.structure_and_content. Qed.

(* PARTIAL (FULL: forall v opts, load (dump v opts) ~ v): the double-quoted, single-quoted and (block-context) plain scalar layers without
   folding, the event grammar on both sides and the structure of dumped documents are theorems.  Folding, flow-context plain scalars, the literal and
   folded block styles, tags/anchors as text and the value<->node layer beyond integers are decided by the
   represent/serialize/emit/scan/parse/compose/construct correspondence and the direct round-trip run. *)
