(* C05 - Emitting then parsing returns the same events.   ONLY statements + `exact lemma`. *)
From Coq Require Import List NArith ZArith Bool Arith String.
Import ListNotations.
Require Import Scan Pos DQ SQ.
Require Emit EmitGrows EmitLemmas EmitPrefix.

(* KIND C05_double_quoted_scalar_roundtrip : U *)
(* for EVERY text t over printable ASCII (spaces, apostrophes included), the 15 single-letter escapes and \xHH code points,
   and every scanner state whose buffer is  " body(t) " tail  (body = the escaping write_double_quoted performs, no fold):
   scan_flow_scalar returns a double-quoted scalar token whose value is exactly t and leaves the buffer at tail *)
Theorem C05_double_quoted_scalar_roundtrip : forall t tail s,
  forallb simple t = true -> rest s = (34%N :: body t ++ 34%N :: tail)%list -> tail <> [] ->
  exists tok s', scan_flow_scalar true s = Ok (tok, s') /\ t_kind tok = TScalar t false SDouble /\ rest s' = tail.
Proof. exact dq_roundtrip. Qed.
Eval vm_compute in "ASSUME:C05_double_quoted_scalar_roundtrip"%string. Print Assumptions C05_double_quoted_scalar_roundtrip.

(* KIND C05_single_quoted_scalar_roundtrip : U *)
(* scalar contents character for character, single-quoted style: every text over printable ASCII written with its apostrophes
   doubled reads back as exactly that text (see C02_single_quoted_scalar_roundtrip) *)
Theorem C05_single_quoted_scalar_roundtrip : forall t z tail s,
  forallb raw1 t = true -> z <> 39%N -> rest s = (39%N :: body1 t ++ 39%N :: z :: tail)%list ->
  exists tok s', scan_flow_scalar false s = Ok (tok, s') /\ t_kind tok = TScalar t false SSingle /\ rest s' = (z :: tail)%list.
Proof. exact sq_roundtrip. Qed.
Eval vm_compute in "ASSUME:C05_single_quoted_scalar_roundtrip"%string. Print Assumptions C05_single_quoted_scalar_roundtrip.

(* KIND C05_emit_prefix_monotone : U *)
(* the emitter model's output is append-only (46 generated lemmas, one per function of Model/Emit.v: every run - returning, raising EmitterError or crashing - only
   conses chunks onto the output).  Hence for ALL event lists and ALL states: the chunks written for a prefix of the events are a prefix of the chunks written for
   the whole stream, also when the run ends in an error *)
Theorem C05_emit_prefix_monotone : forall es1 es2 s, exists d, fst (Emit.emit_all (es1 ++ es2)%list s) = (fst (Emit.emit_all es1 s) ++ d)%list.
Proof. exact EmitPrefix.l_emit_prefix_monotone. Qed.
Eval vm_compute in "ASSUME:C05_emit_prefix_monotone"%string. Print Assumptions C05_emit_prefix_monotone.

(* PARTIAL (FULL: forall v opts, load (dump v opts) ~ v): only the double-quoted scalar layer (the universal fallback style)
   without folding is a theorem.  Value<->node, node<->event and the other four scalar styles are decided by the
   represent/serialize/emit/scan/parse/compose/construct correspondence and the direct round-trip run. *)
