(* C16 - Dumping is deterministic and stable.   ONLY statements + `exact lemma`.
   py_sorted is the sort of represent_mapping / represent_set in Model/Represent.v (insertion sort on Python's < between keys,
   falling back to the given order when a comparison raises). *)
From Coq Require Import List NArith ZArith Bool Arith Permutation String.
Import ListNotations.
Require Import Scan Parse Construct Represent SortLemmas.
Require SortNum.

(* KIND C16_sort_is_permutation_invariant : U *)
(* generic: insertion sort over ANY strict total order on the elements returns the same list for every permutation of a duplicate-free input *)
Theorem C16_sort_is_permutation_invariant : forall (A : Type) (lt : A -> A -> bool) (dom : A -> Prop),
  (forall a b, dom a -> dom b -> lt a b = true -> lt b a = false) ->
  (forall a b c, dom a -> dom b -> dom c -> lt a b = true -> lt b c = true -> lt a c = true) ->
  (forall a b, dom a -> dom b -> a <> b -> lt a b = true \/ lt b a = true) ->
  forall l1 l2, Forall dom l1 -> NoDup l1 -> Permutation l1 l2 -> isort A lt l1 = isort A lt l2.
Proof. exact isort_perm_invariant. Qed.
Eval vm_compute in "ASSUME:C16_sort_is_permutation_invariant"%string. Print Assumptions C16_sort_is_permutation_invariant.

(* KIND C16_str_keyed_mapping_order_independent : U *)
(* the model's sort_keys on a mapping (or set) whose keys are str and pairwise different: the sorted item list - hence the node, the events
   and the text - is the same for EVERY insertion / iteration order (hash seeds only permute iteration) *)
Theorem C16_str_keyed_mapping_order_independent : forall l1 l2 : list (val * val),
  forallb is_str l1 = true -> NoDup (map fst l1) -> Permutation l1 l2 -> py_sorted l1 = py_sorted l2.
Proof. exact l_sorted_str_keys_perm_invariant. Qed.
Eval vm_compute in "ASSUME:C16_str_keyed_mapping_order_independent"%string. Print Assumptions C16_str_keyed_mapping_order_independent.

(* KIND C16_nonvacuous : F *)
Example C16_nonvacuous :
  py_sorted [(PStr [98]%N, PInt 1); (PStr [97]%N, PInt 2); (PStr [97; 97]%N, PNone)] =
  py_sorted [(PStr [97; 97]%N, PNone); (PStr [98]%N, PInt 1); (PStr [97]%N, PInt 2)] /\
  py_sorted [(PStr [98]%N, PInt 1); (PStr [97]%N, PInt 2)] = Some [(PStr [97]%N, PInt 2); (PStr [98]%N, PInt 1)].
Proof. vm_compute. split; reflexivity. Qed.

(* KIND C16_number_keyed_mapping_order_independent : U *)
(* the same for a mapping (or set) whose keys are NUMBERS - int, bool and finite float, mixed freely - pairwise different under Python's ==
   (as the keys of one dict always are): the order Python's < gives them (exact rational comparison in the model) does not depend on the
   insertion / iteration order *)
Theorem C16_number_keyed_mapping_order_independent : forall l1 l2 : list (val * val),
  forallb SortNum.is_num l1 = true -> NoDup l1 -> (forall a b, In a l1 -> In b l1 -> a <> b -> key_eqb (fst a) (fst b) = false) ->
  Permutation l1 l2 -> py_sorted l1 = py_sorted l2.
Proof. exact SortNum.l_sorted_num_keys_perm_invariant. Qed.
Eval vm_compute in "ASSUME:C16_number_keyed_mapping_order_independent"%string. Print Assumptions C16_number_keyed_mapping_order_independent.

(* KIND C16_number_keys_nonvacuous : F *)
(* {3, True, 2.5, -7} in two insertion orders: both sort to [-7; True; 2.5; 3] *)
Example C16_number_keys_nonvacuous :
  let l1 := [(PInt 3, PNone); (PBool true, PNone); (PFloat (FFin false 5 (-1)), PNone); (PInt (-7), PNone)] in
  let l2 := [(PInt (-7), PNone); (PFloat (FFin false 5 (-1)), PNone); (PInt 3, PNone); (PBool true, PNone)] in
  forallb SortNum.is_num l1 = true /\ py_sorted l1 = py_sorted l2 /\
  py_sorted l1 = Some [(PInt (-7), PNone); (PBool true, PNone); (PFloat (FFin false 5 (-1)), PNone); (PInt 3, PNone)].
Proof. exact SortNum.num_keys_example. Qed.

(* PARTIAL: bytes / date keys and mixed-type key sets, order_preserved without sort_keys, anchors_function_of_document and the dump fixed point are not proved;
   they are decided by the represent/serialize/emit correspondence and the direct run (permuted insertion orders, several PYTHONHASHSEEDs,
   dump(load(dump x)) = dump x). *)
