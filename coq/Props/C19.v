(* C19 - Failures of the caller's stream or callbacks pass through cleanly.   ONLY statements + `exact lemma`. *)
From Coq Require Import List NArith ZArith Bool Arith String.
Import ListNotations.
Require Import Emit EmitLemmas GenGlobals GlobalsPolicy StandaloneLemmas.
Require EmitGrows EmitPrefix EmitSafe.

(* KIND C19_no_handler_can_swallow : F *)
(* regenerated from lib/yaml: every try/except catches one of UnicodeEncodeError, binascii.Error, ImportError, IndexError, UnicodeDecodeError, TypeError
   (no bare / Exception / BaseException handler), translates it to a YAML error or is one of the two known swallowing sites (Reader.peek IndexError with an
   empty try body; represent_mapping's TypeError around sorted()), and every `finally` only disposes the loader/dumper: none guards a stream or callback call
   with a class a foreign exception could match *)
Theorem C19_no_handler_can_swallow : forallb handler_ok handlers = true.
Proof. exact l_handlers_ok. Qed.
Eval vm_compute in "ASSUME:C19_no_handler_can_swallow"%string. Print Assumptions C19_no_handler_can_swallow.

(* KIND C19_handlers_exact : F *)
(* the try/except/finally inventory of lib/yaml is exactly the pinned one: a new handler anywhere (e.g. an EAFP rewrite around a user callback) breaks this obligation *)
Theorem C19_handlers_exact : handlers_eqb handlers expected_handlers = true.
Proof. exact l_handlers_exact. Qed.
Eval vm_compute in "ASSUME:C19_handlers_exact"%string. Print Assumptions C19_handlers_exact.

(* KIND C19_class_state_untouched : F *)
(* a failed call cannot leave library-global state behind: the only writes to module/class-level containers are in the registration API (see C11) *)
Theorem C19_class_state_untouched : forallb site_ok mutation_sites = true.
Proof. exact l_global_writes_confined. Qed.
Eval vm_compute in "ASSUME:C19_class_state_untouched"%string. Print Assumptions C19_class_state_untouched.

(* KIND C19_events_consumed_left_to_right : U *)
(* for ALL event lists: the emitter model handles a prefix of the events without looking at the rest; if an event of the prefix fails, the run ends there
   with exactly what had been written up to that point *)
Theorem C19_events_consumed_left_to_right : forall es1 es2 s,
  emit_all (es1 ++ es2)%list s = match emit_state es1 s with inl s' => emit_all es2 s' | inr r => r end.
Proof. exact l_emit_all_app. Qed.
Eval vm_compute in "ASSUME:C19_events_consumed_left_to_right"%string. Print Assumptions C19_events_consumed_left_to_right.

(* KIND C19_emit_prefix_monotone : U *)
(* the emitter model's output is append-only (46 generated lemmas, one per function of Model/Emit.v: every run - returning, raising EmitterError or crashing - only
   conses chunks onto the output).  Hence for ALL event lists and ALL states: the chunks written for a prefix of the events are a prefix of the chunks written for
   the whole stream, also when the run ends in an error *)
Theorem C19_emit_prefix_monotone : forall es1 es2 s, exists d, fst (emit_all (es1 ++ es2)%list s) = (fst (emit_all es1 s) ++ d)%list.
Proof. exact EmitPrefix.l_emit_prefix_monotone. Qed.
Eval vm_compute in "ASSUME:C19_emit_prefix_monotone"%string. Print Assumptions C19_emit_prefix_monotone.

(* KIND C19_emitter_raises_only_emitter_errors : U *)
(* the only exceptions the emitter itself can raise are EmitterErrors: for EVERY event list and option set the model's run ends normally or with an
   EmitterError, never with an IndexError / TypeError of its own (Proofs/EmitSafe.v) - so any other exception seen by the caller of emit() comes from
   the caller's stream *)
Theorem C19_emitter_raises_only_emitter_errors : forall evs canon allow_uni ind width lb,
  EmitSafe.fine (snd (emit_all evs (init canon allow_uni ind width lb))).
Proof. exact EmitSafe.emitter_never_crashes. Qed.
Eval vm_compute in "ASSUME:C19_emitter_raises_only_emitter_errors"%string. Print Assumptions C19_emitter_raises_only_emitter_errors.

(* PARTIAL: fault_propagates with oracle streams/callbacks in the model and writes_are_prefix (append-only output of every emitter state function) are not proved;
   decided by the direct run: an injected unique exception at EVERY index of the write()/flush()/read()/user-constructor/user-representer sequence must reach the
   caller as the same object, the writes before it must be a prefix of the fault-free writes, and reference calls must behave afterwards; both back-ends. *)
