(* C13 - Aliases mean identity, and anchors obey the document rules.   ONLY statements + `exact lemma`.
   compose_node / construct_object are the validated transcriptions of composer.py / constructor.py (Model/Construct.v);
   node identity = index in the node store, object identity = heap address. *)
From Coq Require Import List NArith ZArith Bool Arith String.
Import ListNotations.
Require Import Scan Parse Construct ConstructLemmas.
Require ComposerTotal ComposerSpec.
Require Represent SerializeGrammar SerializeAnchors.

(* KIND C13_alias_is_identity : U *)
(* in EVERY composer state: an alias to a defined anchor yields the anchored node itself (same id) - no node is allocated, store and anchors unchanged *)
Theorem C13_alias_is_identity : forall f base s e rest_ a id,
  evs s = e :: rest_ -> e_kind e = VAlias a -> assoc_nat a (anchors s) = Some id ->
  compose_node (S f) base s = LOk (id, {| evs := rest_; store := store s; anchors := anchors s |}).
Proof. exact l_alias_is_identity. Qed.
Eval vm_compute in "ASSUME:C13_alias_is_identity"%string. Print Assumptions C13_alias_is_identity.

(* KIND C13_undefined_alias_rejected : U *)
Theorem C13_undefined_alias_rejected : forall f base s e rest_ a,
  evs s = e :: rest_ -> e_kind e = VAlias a -> assoc_nat a (anchors s) = None -> compose_node (S f) base s = LComposer 1.
Proof. exact l_undefined_alias_rejected. Qed.
Eval vm_compute in "ASSUME:C13_undefined_alias_rejected"%string. Print Assumptions C13_undefined_alias_rejected.

(* KIND C13_duplicate_anchor_rejected : U *)
Theorem C13_duplicate_anchor_rejected : forall f base s e rest_ a id,
  evs s = e :: rest_ -> assoc_nat a (anchors s) = Some id ->
  ((exists tag i0 i1 v st_, e_kind e = VScalar (Some a) tag i0 i1 v st_) \/ (exists tag imp fl, e_kind e = VSeqStart (Some a) tag imp fl) \/
   (exists tag imp fl, e_kind e = VMapStart (Some a) tag imp fl)) ->
  compose_node (S f) base s = LComposer 2.
Proof.
  intros f base s e rest_ a id H1 H3 [(tag & i0 & i1 & v & st_ & K)|[(tag & imp & fl & K)|(tag & imp & fl & K)]].
  - exact (l_duplicate_anchor_rejected_scalar f base s e rest_ a tag i0 i1 v st_ id H1 K H3).
  - exact (l_duplicate_anchor_rejected_seq f base s e rest_ a tag imp fl id H1 K H3).
  - exact (l_duplicate_anchor_rejected_map f base s e rest_ a tag imp fl id H1 K H3).
Qed.
Eval vm_compute in "ASSUME:C13_duplicate_anchor_rejected"%string. Print Assumptions C13_duplicate_anchor_rejected.

(* KIND C13_anchor_names_its_node : U *)
Theorem C13_anchor_names_its_node : forall f base s e rest_ a tag i0 i1 v st_,
  evs s = e :: rest_ -> e_kind e = VScalar (Some a) tag i0 i1 v st_ -> assoc_nat a (anchors s) = None ->
  exists n, compose_node (S f) base s = LOk (List.length (store s), {| evs := rest_; store := (store s ++ [n])%list; anchors := (anchors s ++ [(a, List.length (store s))])%list |}).
Proof. exact l_anchored_scalar_registers. Qed.
Eval vm_compute in "ASSUME:C13_anchor_names_its_node"%string. Print Assumptions C13_anchor_names_its_node.

(* KIND C13_shared_node_shared_object : U *)
(* in EVERY constructor state: a node already constructed yields the cached value (the same heap address) and allocates nothing *)
Theorem C13_shared_node_shared_object : forall f base id s v, assoc_id id (cache s) = Some v -> construct_object (S f) base id s = LOk (v, s).
Proof. exact l_construct_cached. Qed.
Eval vm_compute in "ASSUME:C13_shared_node_shared_object"%string. Print Assumptions C13_shared_node_shared_object.

(* KIND C13_unbuildable_recursion_rejected : U *)
(* a node that is reached again while it is still under construction and has no object yet is a ConstructorError - no loop *)
Theorem C13_unbuildable_recursion_rejected : forall f base id s, assoc_id id (cache s) = None -> existsb (Nat.eqb id) (recursive s) = true ->
  construct_object (S f) base id s = LConstructor 4.
Proof. exact l_recursive_rejected. Qed.
Eval vm_compute in "ASSUME:C13_unbuildable_recursion_rejected"%string. Print Assumptions C13_unbuildable_recursion_rejected.

(* KIND C13_self_reference_examples : F *)
(* whole-model runs: &a [*a] is one list containing itself; &a {*a: 1} is a ConstructorError; [*a] and [&a x, &a y] are ComposerErrors *)
Example C13_self_reference_examples :
  load_all false (txt [38;97;32;91;42;97;93]%N) = ([(PRef 0, [CList [PRef 0]])], LOk tt) /\
  snd (load_all false (txt [38;97;32;123;42;97;58;32;49;125]%N)) = LConstructor 5 /\
  snd (load_all false (txt [91;42;97;93]%N)) = LComposer 1 /\
  snd (load_all false (txt [91;38;97;32;120;44;32;38;97;32;121;93]%N)) = LComposer 2.
Proof. exact l_self_reference_examples. Qed.

(* KIND C13_composer_numbering : U *)
(* whole nodes, EVERY grammatical node (any depth) in EVERY composer state: when the composer returns a node it has consumed exactly the
   node's events, the node store grew by exactly one entry per scalar / collection start event (ids are positions in document
   order), and the anchor table is the old table followed by (name, id) of every anchored node in document order - aliases add
   nothing.  With C13_alias_is_identity (an alias returns the table's entry) and C13_duplicate_anchor_rejected (a name is defined
   once) this fixes which node every alias of a document denotes *)
Theorem C13_composer_numbering : forall es rest base st an fuel,
  ComposerTotal.clang ComposerTotal.KNode (map e_kind es) -> List.length es < fuel ->
  ComposerSpec.spec (compose_node fuel base (ComposerTotal.mkc (es ++ rest) st an)) (map e_kind es) rest st an.
Proof. exact ComposerSpec.composer_numbering. Qed.
Eval vm_compute in "ASSUME:C13_composer_numbering"%string. Print Assumptions C13_composer_numbering.
(* KIND C13_composer_result_id : U *)
(* what a node composes to, in every state: an alias gives the id the anchor table holds for its name, every other node the next
   free id of the node store (so two places of a document hold the same node only through an alias) *)
Theorem C13_composer_result_id : forall e es base st an fuel id s',
  compose_node fuel base (ComposerTotal.mkc (e :: es) st an) = LOk (id, s') ->
  match e_kind e with
  | VAlias x => assoc_nat x an = Some id
  | VScalar _ _ _ _ _ _ | VSeqStart _ _ _ _ | VMapStart _ _ _ _ => id = List.length st
  | _ => False
  end.
Proof. exact ComposerSpec.composer_result_id. Qed.
Eval vm_compute in "ASSUME:C13_composer_result_id"%string. Print Assumptions C13_composer_result_id.
(* KIND C13_numbering_nonvacuous : F *)
(* `[&x a, {k: *x}, &y [*x]]` from an empty state: 5 nodes (ids 0..4: seq, a, map, k, inner seq), anchors x -> 1, y -> 4, the two aliases of x give node 1 *)
Example C13_numbering_nonvacuous :
  let m := {| m_index := 0; m_line := 0; m_col := 0 |} in
  let e k := {| e_kind := k; e_start := m; e_end := m |} in
  let x := [120%N] in let y := [121%N] in
  let sc a := VScalar a None true false [97%N] SPlain in
  let doc := [e (VSeqStart None None true true); e (sc (Some x)); e (VMapStart None None true true); e (sc None); e (VAlias x); e VMapEnd;
              e (VSeqStart (Some y) None true true); e (VAlias x); e VSeqEnd; e VSeqEnd] in
  match compose_node 11 false (ComposerTotal.mkc doc [] []) with
  | LOk (id, s') => id = 0 /\ List.length (store s') = 5 /\ anchors s' = [(x, 1); (y, 4)] /\
                    option_map n_kind (nth_error (store s') 2) = Some (NMap [(3, 1)]) /\ option_map n_kind (nth_error (store s') 4) = Some (NSeq [1])
  | _ => False end.
Proof. vm_compute. repeat split; reflexivity. Qed.

(* KIND C13_dumped_aliases_have_anchors : U *)
(* the dump side of "aliases mean identity": for EVERY value, heap of containers (sharing and cycles) and representer option set, every ALIAS event
   of the document the representer + serializer models write has a non-empty name, and that name is the anchor carried by a node event of the
   same document - a node that is written twice is written as an anchored node and aliases of that anchor.  Proofs/SerializeAnchors.v: the
   serializer's two traversals (anchor_node, which numbers the nodes met twice, and serialize_node, which writes them) are run side by side:
   the written nodes are exactly the nodes of the table, the table only grows, and whenever serialize_node writes an alias anchor_node has
   numbered that node *)
Theorem C13_dumped_aliases_have_anchors : forall o h root evs, Represent.dump_doc o h root = Represent.ROk evs ->
  forall a, In (Represent.SAlias a) evs -> a <> [] /\ exists e, In e evs /\ SerializeAnchors.anchor_of_ev e = Some a.
Proof. exact SerializeAnchors.dumped_aliases_have_anchors. Qed.
Eval vm_compute in "ASSUME:C13_dumped_aliases_have_anchors"%string. Print Assumptions C13_dumped_aliases_have_anchors.
(* KIND C13_aliases_of_the_cycle : F *)
(* non-vacuity: a list that contains itself and a mapping shared twice is written with two anchors and the aliases of exactly those anchors *)
Example C13_aliases_of_the_cycle :
  let o := {| Represent.default_style := None; Represent.default_flow := None; Represent.sort_keys := true |} in
  let h := [Construct.CList [Construct.PInt 1; Construct.PRef 0; Construct.PRef 1; Construct.PRef 1]; Construct.CDict [(Construct.PStr [107%N], Construct.PNone)]] in
  match Represent.dump_doc o h (Construct.PRef 0) with
  | Represent.ROk evs => map (fun e => match e with Represent.SAlias a => Some a | _ => None end) evs =
               [None; None; None; Some (Represent.anchor_name 1); None; None; None; None; Some (Represent.anchor_name 2); None; None] /\
               map SerializeAnchors.anchor_of_ev evs = [None; Some (Represent.anchor_name 1); None; None; Some (Represent.anchor_name 2); None; None; None; None; None; None]
  | _ => False
  end.
Proof. exact SerializeAnchors.aliases_of_the_cycle. Qed.

(* PARTIAL: the global statement (two places are the same object IFF anchor/alias, for whole documents incl. cycles) is not proved:
   it is decided by the construct correspondence (graphs with identity numbering) and the direct run against identity classes computed
   from the generator's AST. *)
