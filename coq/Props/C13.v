(* C13 - Aliases mean identity, and anchors obey the document rules.   ONLY statements + `exact lemma`.
   compose_node / construct_object are the validated transcriptions of composer.py / constructor.py (Model/Construct.v);
   node identity = index in the node store, object identity = heap address. *)
From Coq Require Import List NArith ZArith Bool Arith String.
Import ListNotations.
Require Import Scan Parse Construct ConstructLemmas.

(* KIND C13_alias_is_identity : U *)
(* in EVERY composer state: an alias to a defined anchor yields the anchored node itself (same id) - no node is allocated, store and anchors unchanged *)
Theorem C13_alias_is_identity : forall f base s e rest_ a id,
  evs s = e :: rest_ -> e_kind e = VAlias a -> assoc_nat a (anchors s) = Some id ->
  compose_node (S f) base s = LOk (id, {| evs := rest_; store := store s; anchors := anchors s |}).
Proof. exact l_alias_is_identity. Qed.
Eval vm_compute in "ASSUME:C13_alias_is_identity"%string. Print Assumptions C13_alias_is_identity.

(* KIND C13_undefined_alias_rejected : U *)
Theorem C13_undefined_alias_rejected : forall f base s e rest_ a,
  evs s = e :: rest_ -> e_kind e = VAlias a -> assoc_nat a (anchors s) = None -> compose_node (S f) base s = LComposer 1.
Proof. exact l_undefined_alias_rejected. Qed.
Eval vm_compute in "ASSUME:C13_undefined_alias_rejected"%string. Print Assumptions C13_undefined_alias_rejected.

(* KIND C13_duplicate_anchor_rejected : U *)
Theorem C13_duplicate_anchor_rejected : forall f base s e rest_ a id,
  evs s = e :: rest_ -> assoc_nat a (anchors s) = Some id ->
  ((exists tag i0 i1 v st_, e_kind e = VScalar (Some a) tag i0 i1 v st_) \/ (exists tag imp fl, e_kind e = VSeqStart (Some a) tag imp fl) \/
   (exists tag imp fl, e_kind e = VMapStart (Some a) tag imp fl)) ->
  compose_node (S f) base s = LComposer 2.
Proof.
  intros f base s e rest_ a id H1 H3 [(tag & i0 & i1 & v & st_ & K)|[(tag & imp & fl & K)|(tag & imp & fl & K)]].
  - exact (l_duplicate_anchor_rejected_scalar f base s e rest_ a tag i0 i1 v st_ id H1 K H3).
  - exact (l_duplicate_anchor_rejected_seq f base s e rest_ a tag imp fl id H1 K H3).
  - exact (l_duplicate_anchor_rejected_map f base s e rest_ a tag imp fl id H1 K H3).
Qed.
Eval vm_compute in "ASSUME:C13_duplicate_anchor_rejected"%string. Print Assumptions C13_duplicate_anchor_rejected.

(* KIND C13_anchor_names_its_node : U *)
Theorem C13_anchor_names_its_node : forall f base s e rest_ a tag i0 i1 v st_,
  evs s = e :: rest_ -> e_kind e = VScalar (Some a) tag i0 i1 v st_ -> assoc_nat a (anchors s) = None ->
  exists n, compose_node (S f) base s = LOk (List.length (store s), {| evs := rest_; store := (store s ++ [n])%list; anchors := (anchors s ++ [(a, List.length (store s))])%list |}).
Proof. exact l_anchored_scalar_registers. Qed.
Eval vm_compute in "ASSUME:C13_anchor_names_its_node"%string. Print Assumptions C13_anchor_names_its_node.

(* KIND C13_shared_node_shared_object : U *)
(* in EVERY constructor state: a node already constructed yields the cached value (the same heap address) and allocates nothing *)
Theorem C13_shared_node_shared_object : forall f base id s v, assoc_id id (cache s) = Some v -> construct_object (S f) base id s = LOk (v, s).
Proof. exact l_construct_cached. Qed.
Eval vm_compute in "ASSUME:C13_shared_node_shared_object"%string. Print Assumptions C13_shared_node_shared_object.

(* KIND C13_unbuildable_recursion_rejected : U *)
(* a node that is reached again while it is still under construction and has no object yet is a ConstructorError - no loop *)
Theorem C13_unbuildable_recursion_rejected : forall f base id s, assoc_id id (cache s) = None -> existsb (Nat.eqb id) (recursive s) = true ->
  construct_object (S f) base id s = LConstructor 4.
Proof. exact l_recursive_rejected. Qed.
Eval vm_compute in "ASSUME:C13_unbuildable_recursion_rejected"%string. Print Assumptions C13_unbuildable_recursion_rejected.

(* KIND C13_self_reference_examples : F *)
(* whole-model runs: &a [*a] is one list containing itself; &a {*a: 1} is a ConstructorError; [*a] and [&a x, &a y] are ComposerErrors *)
Example C13_self_reference_examples :
  load_all false (txt [38;97;32;91;42;97;93]%N) = ([(PRef 0, [CList [PRef 0]])], LOk tt) /\
  snd (load_all false (txt [38;97;32;123;42;97;58;32;49;125]%N)) = LConstructor 5 /\
  snd (load_all false (txt [91;42;97;93]%N)) = LComposer 1 /\
  snd (load_all false (txt [91;38;97;32;120;44;32;38;97;32;121;93]%N)) = LComposer 2.
Proof. exact l_self_reference_examples. Qed.

(* PARTIAL: the global statement (two places are the same object IFF anchor/alias, for whole documents incl. cycles) is not proved:
   it is decided by the construct correspondence (graphs with identity numbering) and the direct run against identity classes computed
   from the generator's AST. *)
