(* C17 - Python objects survive dump / unsafe load as they survive pickle.   ONLY statements + `exact lemma`.
   Model/Pickle.v: the reduce protocol as an abstract machine; yaml_ops = represent_object + construct_python_object(_apply), pickle_ops = protocol 2. *)
From Coq Require Import List Bool Arith String.
Import ListNotations.
Require Import Pickle PickleLemmas.

(* KIND C17_yaml_eq_pickle_commuting : U *)
(* for EVERY reduce tuple (new/apply, any arguments, any list and dict items) whose state is None, a dict, or a truthy object: the YAML rebuild applies the same
   constructor arguments, the same state (no state = empty dict) and the same items as pickle protocol 2 *)
Theorem C17_yaml_eq_pickle_commuting : forall r, state_ok (st r) = true -> same_object (build (yaml_ops r)) (build (pickle_ops r)).
Proof. exact l_yaml_eq_pickle_commuting. Qed.
Eval vm_compute in "ASSUME:C17_yaml_eq_pickle_commuting"%string. Print Assumptions C17_yaml_eq_pickle_commuting.

(* KIND C17_yaml_ops_order_refuted : F *)
(* FULL (same operation sequence) is false: YAML applies the state BEFORE the items, pickle after - observable for classes whose append depends on the state *)
Example C17_yaml_ops_order_refuted :
  let r := {| newobj := false; args := []; st := StDict true; listitems := Some [1; 2; 3; 4]; dictitems := None |} in
  yaml_ops r = [Create false []; SetState (StDict true); Extend [1; 2; 3; 4]] /\
  pickle_ops r = [Create false []; Extend [1; 2; 3; 4]; SetState (StDict true)].
Proof. exact l_yaml_ops_order_refuted. Qed.

(* KIND C17_falsy_state_refuted : F *)
Example C17_falsy_state_refuted :
  let r := {| newobj := true; args := []; st := StOther false; listitems := None; dictitems := None |} in
  b_state (build (pickle_ops r)) = Some (StOther false) /\ b_state (build (yaml_ops r)) = None.
Proof. exact l_falsy_state_refuted. Qed.

(* PARTIAL: the Python object protocol itself (__reduce_ex__, copyreg, __new__/__setstate__/__dict__ semantics, sharing and cycles) is modelled abstractly, not verified;
   the model is tied to the code by the protocol correspondence (observed __new__/__init__/__setstate__/extend/__setitem__ calls of an instrumented class for every reduce
   shape vs yaml_ops / pickle_ops) and the property is decided by the direct run over a class family (YAML rebuild = pickle-2 rebuild as canonical graphs). *)
