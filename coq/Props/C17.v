(* C17 - Python objects survive dump / unsafe load as they survive pickle.   ONLY statements + `exact lemma`.
   Model/Pickle.v: the reduce protocol as an abstract machine; yaml_ops = represent_object + construct_python_object(_apply), pickle_ops = protocol 2. *)
From Coq Require Import List Bool Arith String.
Import ListNotations.
Require Import Pickle PickleLemmas PickleState PickleStateLemmas.

(* KIND C17_yaml_eq_pickle_commuting : U *)
(* for EVERY reduce tuple (new/apply, any arguments, any list and dict items) whose state is None, a dict, or a truthy object: the YAML rebuild applies the same
   constructor arguments, the same state (no state = empty dict) and the same items as pickle protocol 2 *)
Theorem C17_yaml_eq_pickle_commuting : forall r, state_ok (st r) = true -> same_object (build (yaml_ops r)) (build (pickle_ops r)).
Proof. exact l_yaml_eq_pickle_commuting. Qed.
Eval vm_compute in "ASSUME:C17_yaml_eq_pickle_commuting"%string. Print Assumptions C17_yaml_eq_pickle_commuting.

(* KIND C17_yaml_ops_order_refuted : F *)
(* FULL (same operation sequence) is false: YAML applies the state BEFORE the items, pickle after - observable for classes whose append depends on the state *)
Example C17_yaml_ops_order_refuted :
  let r := {| newobj := false; args := []; st := StDict true; listitems := Some [1; 2; 3; 4]; dictitems := None |} in
  yaml_ops r = [Create false []; SetState (StDict true); Extend [1; 2; 3; 4]] /\
  pickle_ops r = [Create false []; Extend [1; 2; 3; 4]; SetState (StDict true)].
Proof. exact l_yaml_ops_order_refuted. Qed.

(* KIND C17_falsy_state_refuted : F *)
Example C17_falsy_state_refuted :
  let r := {| newobj := true; args := []; st := StOther false; listitems := None; dictitems := None |} in
  b_state (build (pickle_ops r)) = Some (StOther false) /\ b_state (build (yaml_ops r)) = None.
Proof. exact l_falsy_state_refuted. Qed.

(* KIND C17_state_applied_as_pickle_does : U *)
(* the BUILD step (Model/PickleState.v: set_python_instance_state vs pickle's load_build), for EVERY instance kind (with or without __setstate__, with
   or without __dict__) and every state shape (a dictionary; a pair of a dictionary or None and a slot dictionary; each part empty or not): whenever
   pickle can apply the state at all, YAML performs exactly the same observable operations - __setstate__(state), or entries written into
   instance.__dict__ directly (never through setattr: classes that guard attribute assignment are restored), then setattr for the slot items *)
Theorem C17_state_applied_as_pickle_does : forall i s, ~ In AttrError (pickle_apply i s) -> yaml_apply i s = pickle_apply i s.
Proof. exact l_state_applied_as_pickle_does. Qed.
Eval vm_compute in "ASSUME:C17_state_applied_as_pickle_does"%string. Print Assumptions C17_state_applied_as_pickle_does.
(* KIND C17_state_usual_instances : U *)
Theorem C17_state_usual_instances : forall i s, has_dict i = true \/ has_setstate i = true \/ dict_part s = DNone -> yaml_apply i s = pickle_apply i s.
Proof. exact l_state_usual_instances. Qed.
Eval vm_compute in "ASSUME:C17_state_usual_instances"%string. Print Assumptions C17_state_usual_instances.
(* KIND C17_slots_only_difference : F *)
(* the only difference: a dictionary state (even an empty one) for an instance without __dict__ makes pickle raise AttributeError; YAML uses setattr *)
Example C17_slots_only_difference :
  let i := {| has_setstate := false; has_dict := false |} in
  pickle_apply i (SDict true) = [AttrError] /\ yaml_apply i (SDict true) = [SetAttrs] /\
  pickle_apply i (SPair DEmpty true) = [AttrError] /\ yaml_apply i (SPair DEmpty true) = [SetAttrs] /\
  pickle_apply i (SPair DNone true) = [SetAttrs] /\ yaml_apply i (SPair DNone true) = [SetAttrs].
Proof. exact l_slots_only_difference. Qed.

(* PARTIAL: the Python object protocol itself (__reduce_ex__, copyreg, __new__/__setstate__/__dict__ semantics, sharing and cycles) is modelled abstractly, not verified;
   the model is tied to the code by the protocol correspondence (observed __new__/__init__/__setstate__/extend/__setitem__ calls of an instrumented class for every reduce
   shape vs yaml_ops / pickle_ops) and the property is decided by the direct run over a class family (YAML rebuild = pickle-2 rebuild as canonical graphs). *)
