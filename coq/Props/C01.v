(* C01 - Safe loading is confined to plain data, for every document.   ONLY statements + `exact lemma`.
   w0 = class world after the regenerated import-time registration program (Gen/GenHistory.v); methods = regenerated call graph of
   constructor.py (Gen/GenCalls.v); dispatch_of = the tag dispatch of construct_object (Model/Dispatch.v, source block checked against
   its normal form by the translator); policies = Spec/Confinement.v. *)
From Coq Require Import List String Bool.
Import ListNotations.
Require Import Registry GenHistory CallGraph GenCalls Dispatch Confinement ConfineLemmas ConfineSafe ConfineUnsafe ConfineC.
Require Construct ConstructLemmas.
Open Scope string_scope.

(* KIND C01_safe_dispatch_closed : U *)
(* for EVERY tag string outside the 12 core tags and every node kind, SafeLoader / CSafeLoader dispatch to construct_undefined *)
Theorem C01_safe_dispatch_closed : forall c tag kind_default, In c safe_loader_classes -> ~ In tag core_tags ->
  dispatch_of w0 c tag kind_default = "SafeConstructor.construct_undefined".
Proof. exact l_safe_dispatch_closed. Qed.
Eval vm_compute in "ASSUME:C01_safe_dispatch_closed". Print Assumptions C01_safe_dispatch_closed.

(* KIND C01_base_dispatch_default : U *)
(* BaseLoader / CBaseLoader ignore tags: every tag dispatches to the node-kind default (str / list / dict) *)
Theorem C01_base_dispatch_default : forall c tag kind_default, In c base_loader_classes -> dispatch_of w0 c tag kind_default = kind_default.
Proof. exact l_base_dispatch_default. Qed.
Eval vm_compute in "ASSUME:C01_base_dispatch_default". Print Assumptions C01_base_dispatch_default.

(* KIND C01_safe_closure_confined : F *)
(* the closure of the regenerated call graph from the loader entry points (through the effective tables and self.* edges along each class's MRO,
   `if unsafe:` branches included) reaches no instantiating/name-resolving method and makes only plain-data leaf calls: no __import__,
   getattr, setattr, eval, dynamic call, no call passing unsafe= *)
Theorem C01_safe_closure_confined : forallb safe_closure_ok (safe_loader_classes ++ base_loader_classes) = true.
Proof. exact l_safe_closure_confined. Qed.
Eval vm_compute in "ASSUME:C01_safe_closure_confined". Print Assumptions C01_safe_closure_confined.

(* KIND C01_unsafe_closure_not_confined : F *)
(* the policy is not idle: the same closure for UnsafeLoader is rejected *)
Example C01_unsafe_closure_not_confined : confined full_leaf_ok full_method_ok (reach w0 methods "UnsafeLoader" false) = false.
Proof. exact l_unsafe_closure_not_confined. Qed.

(* KIND C01_c_loaders_share_constructors : F *)
Theorem C01_c_loaders_share_constructors :
  ctor_part "CSafeLoader" = ctor_part "SafeLoader" /\ ctor_part "CBaseLoader" = ctor_part "BaseLoader" /\
  ctor_part "CFullLoader" = ctor_part "FullLoader" /\ ctor_part "CUnsafeLoader" = ctor_part "UnsafeLoader" /\ ctor_part "CLoader" = ctor_part "Loader" /\
  forallb (fun x => negb (String.eqb (fst (fst x)) "Constructor")) methods = true /\
  forallb (fun k => match own_of "Constructor" k (own w0) with None => true | Some _ => false end) [KCtor; KMultiCtor] = true.
Proof. exact l_c_loaders_share_constructors. Qed.

(* KIND C01_model_unknown_tag_rejected : U *)
(* value level, on the validated composer/constructor model (Model/Construct.v, safe variant): in EVERY constructor state, a
   node that is neither cached nor under construction and whose tag is not one of the 12 core tags makes construct_object
   fail with a ConstructorError - nothing is allocated, no converter runs.  (Errors propagate through every bind of the model,
   so a document with such a node reached by construct_object does not load; the contexts in which the implementation does
   NOT reach the node through construct_object - merge sources, `=` values - are the known findings.) *)
Theorem C01_model_unknown_tag_rejected : forall f id s n,
  Construct.assoc_id id (Construct.cache s) = None -> existsb (Nat.eqb id) (Construct.recursive s) = false ->
  nth_error (Construct.nodes s) id = Some n -> ConstructLemmas.is_core (Construct.n_tag n) = false ->
  Construct.construct_object (S f) false id s = Construct.LConstructor 8.
Proof. exact ConstructLemmas.l_unknown_tag_rejected. Qed.
Eval vm_compute in "ASSUME:C01_model_unknown_tag_rejected". Print Assumptions C01_model_unknown_tag_rejected.

(* PARTIAL: safe_construct_plain (every value built is plain, effect trace empty) and unknown_tag_rejected for every nesting are not
   proved over the constructor model; they are decided by the construct correspondence (type-strict graphs) and the direct run under audit
   and profile hooks.  FULL "only YAML errors" is refuted by the converter crashes (known findings). *)
