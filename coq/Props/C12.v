(* C12 - Multi-document streams keep their document boundaries.   ONLY statements + `exact lemma`. *)
From Coq Require Import List NArith ZArith Bool Arith String.
Import ListNotations.
Require Import Scan Parse Construct StandaloneLemmas.
Require Emit EmitGrows EmitMarkers.
Require Emit EmitGrows EmitLemmas EmitPrefix.
Require ParseL ParserIsolation.

(* KIND C12_doc_indicator_only_at_column_0 : U *)
(* in EVERY scanner state: '---' / '...' is recognised as a document boundary only at column 0 *)
Theorem C12_doc_indicator_only_at_column_0 : forall c s, col s <> 0 -> check_doc c s = Scan.Ok (false, s).
Proof. exact l_doc_indicator_col0. Qed.
Eval vm_compute in "ASSUME:C12_doc_indicator_only_at_column_0"%string. Print Assumptions C12_doc_indicator_only_at_column_0.

(* KIND C12_document_starts_fresh : U *)
Theorem C12_document_starts_fresh : forall f base e rest_ acc ex v tags,
  e_kind e = VDocStart ex v tags ->
  exists k, docs_loop (S f) base (e :: rest_) acc = k (compose_node (S (List.length (e :: rest_))) base {| evs := rest_; store := []; anchors := [] |}).
Proof. intros. eexists (fun r => _). rewrite (l_document_starts_fresh f base e rest_ acc ex v tags H). reflexivity. Qed.
Eval vm_compute in "ASSUME:C12_document_starts_fresh"%string. Print Assumptions C12_document_starts_fresh.

(* KIND C12_examples : F *)
(* whole-model runs: three documents in, three out; '---' inside a line or a quoted scalar is not a boundary *)
Example C12_examples :
  List.length (fst (load_all false [97; 10; 45; 45; 45; 32; 98; 10; 45; 45; 45; 10; 99; 10]%N)) = 3 /\
  List.length (fst (load_all false [34; 97; 32; 45; 45; 45; 32; 98; 34; 10]%N)) = 1 /\
  List.length (fst (load_all false [97; 58; 32; 45; 45; 45; 10]%N)) = 1.
Proof. vm_compute. repeat split; reflexivity. Qed.

(* KIND C12_emit_prefix_monotone : U *)
(* the emitter model's output is append-only (46 generated lemmas, one per function of Model/Emit.v: every run - returning, raising EmitterError or crashing - only
   conses chunks onto the output).  Hence for ALL event lists and ALL states: the chunks written for a prefix of the events are a prefix of the chunks written for
   the whole stream, also when the run ends in an error *)
Theorem C12_emit_prefix_monotone : forall es1 es2 s, exists d, fst (Emit.emit_all (es1 ++ es2)%list s) = (fst (Emit.emit_all es1 s) ++ d)%list.
Proof. exact EmitPrefix.l_emit_prefix_monotone. Qed.
Eval vm_compute in "ASSUME:C12_emit_prefix_monotone"%string. Print Assumptions C12_emit_prefix_monotone.

(* KIND C12_directives_do_not_leak : U *)
(* documents of a stream are parsed independently of the directives of their predecessors: see C11_directives_do_not_leak (all token lists) *)
Theorem C12_directives_do_not_leak : forall fuel acc ts p stk mks h v h' v', p = ParseL.PDocStart \/ p = ParseL.PImplicitDocStart ->
  ParseL.parse_loop fuel acc {| ParseL.toks := ts; ParseL.pstate_ := Some p; ParseL.pstates := stk; ParseL.pmarks := mks; ParseL.handles := h; ParseL.version_ := v |} =
  ParseL.parse_loop fuel acc {| ParseL.toks := ts; ParseL.pstate_ := Some p; ParseL.pstates := stk; ParseL.pmarks := mks; ParseL.handles := h'; ParseL.version_ := v' |}.
Proof. exact ParserIsolation.directives_do_not_leak. Qed.
Eval vm_compute in "ASSUME:C12_directives_do_not_leak"%string. Print Assumptions C12_directives_do_not_leak.

(* KIND C12_explicit_documents_get_their_marker : U *)
(* the emitter, EVERY state: a document start that is explicit, or not the first of the stream, or carries a %YAML or %TAG directive, writes the chunk
   `---` (right after an indentation step, as a chunk of its own), whatever else it writes.  Proofs/EmitMarkers.v *)
Theorem C12_explicit_documents_get_their_marker : forall first explicit version tags s,
  Emit.cur_ev s = Some (Emit.EDocStart explicit version tags) ->
  (explicit = true \/ first = false \/ version <> None \/ tags <> []) ->
  match Emit.expect_document_start first s with
  | Emit.Ok (_, s') => exists post pre, Emit.out s' = (post ++ [45; 45; 45]%N :: pre)%list /\ EmitGrows.extends (Emit.out s) pre
  | _ => True end.
Proof. exact EmitMarkers.explicit_documents_get_their_marker. Qed.
Eval vm_compute in "ASSUME:C12_explicit_documents_get_their_marker"%string. Print Assumptions C12_explicit_documents_get_their_marker.
(* KIND C12_explicit_document_end_gets_its_marker : U *)
Theorem C12_explicit_document_end_gets_its_marker : forall s, Emit.state s = Emit.XDocEnd -> Emit.cur_ev s = Some (Emit.EDocEnd true) ->
  match Emit.step s with
  | Emit.Ok (_, s') => exists post pre, Emit.out s' = (post ++ [46; 46; 46]%N :: pre)%list /\ EmitGrows.extends (Emit.out s) pre
  | _ => True end.
Proof. exact EmitMarkers.explicit_document_end_gets_its_marker. Qed.
Eval vm_compute in "ASSUME:C12_explicit_document_end_gets_its_marker"%string. Print Assumptions C12_explicit_document_end_gets_its_marker.

(* KIND C12_markers_example : F *)
(* two documents - the first with explicit start and end, the second with a %YAML 1.1 directive - are written `--- a / ... / %YAML 1.1 / --- b / ...` *)
Example C12_markers_example :
  let sc v := Emit.EScalar None None true false v None in
  match EmitLemmas.emit_state [Emit.EStreamStart; Emit.EDocStart true None []; sc [97%N]; Emit.EDocEnd true; Emit.EDocStart false (Some (1%N, 1%N)) [];
                               sc [98%N]; Emit.EDocEnd false; Emit.EStreamEnd] (Emit.init false false None None [10%N]) with
  | inl s' => List.concat (rev (Emit.out s')) =
              [45; 45; 45; 32; 97; 10; 46; 46; 46; 10; 37; 89; 65; 77; 76; 32; 49; 46; 49; 10; 45; 45; 45; 32; 98; 10; 46; 46; 46; 10]%N
  | inr _ => False end.
Proof. vm_compute. reflexivity. Qed.

(* PARTIAL: doc_markers / no_marker_inside / doc_text_prefix_stable on the emitter model and parser_doc_count are not proved; decided by the exact-text
   emitter correspondence, the parse correspondence and the direct dump_all/serialize_all/emit -> load_all/compose_all/parse run (n in = n out, each
   document equal, text of a document independent of its followers). *)
