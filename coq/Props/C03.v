(* C03 - Reading never fails with anything but a YAML error.   ONLY statements + `exact lemma`.
   The models return explicit Crash (what Python would raise: IndexError, ValueError ...) and OutOfFuel outcomes, so
   "never anything but a YAML error" is a statement about the model, not true by totalisation. *)
From Coq Require Import List NArith ZArith Bool Arith String.
Import ListNotations.
Require Import Scan Pos Reader Chunk Comb ParseL PT ParserSafe ParserTerm.
Require Construct ComposerTotal ParserGrammar ScanSafe PlainDispatch ScanQueue ScanMarks.

(* KIND C03_forward_never_crashes_inside_buffer : U *)
(* Reader.forward over any prefix that lies inside the buffer returns normally (no IndexError) *)
Theorem C03_forward_never_crashes_inside_buffer : forall n s p r x,
  Scan.rest s = (p ++ x :: r)%list -> List.length p = n -> exists s', Scan.forward n s = Scan.Ok (tt, s').
Proof. intros n s p r x H1 H2. destruct (forward_spec n s p r x H1 H2) as (s' & H & _). exists s'. exact H. Qed.
Eval vm_compute in "ASSUME:C03_forward_never_crashes_inside_buffer"%string. Print Assumptions C03_forward_never_crashes_inside_buffer.

(* KIND C03_decoder_terminates : U *)
(* the byte decoder of the reader is total and needs at most |bytes|+1 steps; its outcome is characters or a ReaderError position *)
Theorem C03_decoder_terminates : forall f fin bs off acc, List.length bs < f -> decode f Utf8 fin bs off acc = D fin bs off acc.
Proof. exact decode_fuel. Qed.
Eval vm_compute in "ASSUME:C03_decoder_terminates"%string. Print Assumptions C03_decoder_terminates.

(* KIND C03_scan_anchor_safe : U *)
(* the NUL-sentinel discipline: under "buffer = text ++ [NUL], NUL nowhere else, pointer inside" scanning an anchor/alias never
   indexes outside the buffer, ends with a token (pointer advanced, invariant kept) or a ScannerError positioned inside *)
Theorem C03_scan_anchor_safe : forall r c, Comb.inv r -> Comb.peek r 0 = Comb.Ok c -> c <> 0%N ->
  (exists v r', scan_anchor (List.length (buf r)) r = Comb.Ok (v, r') /\ Comb.inv r' /\ pos r < pos r')
  \/ (exists p, scan_anchor (List.length (buf r)) r = Comb.YamlErr p /\ p <= List.length (buf r)).
Proof. exact scan_anchor_safe. Qed.
Eval vm_compute in "ASSUME:C03_scan_anchor_safe"%string. Print Assumptions C03_scan_anchor_safe.

(* KIND C03_parser_first_step_safe : U *)
(* parser over ANY token list ending in its only STREAM-END: the first step and the document-end step never crash
   (states.pop()/marks.pop() on empty, None.start_mark, the two asserts are Crash outcomes of the model) and keep the stack invariant *)
Theorem C03_parser_first_step_safe : forall s, Inv0 s -> safe_step s.
Proof. exact step_stream_start. Qed.
Eval vm_compute in "ASSUME:C03_parser_first_step_safe"%string. Print Assumptions C03_parser_first_step_safe.
(* KIND C03_parser_doc_end_step_safe : U *)
Theorem C03_parser_doc_end_step_safe : forall s, pstate_ s = Some PDocEnd -> Inv s -> safe_step s.
Proof. exact step_doc_end. Qed.
Eval vm_compute in "ASSUME:C03_parser_doc_end_step_safe"%string. Print Assumptions C03_parser_doc_end_step_safe.

(* KIND C03_parser_step_keeps_invariant : U *)
(* EVERY one of the 21 parser states: from a state satisfying the stack invariant (token list ends in its only STREAM-END, the
   stack of states holds continuation states above one PDocEnd, one mark per open collection, a collection's start token still
   at the head in the First states) one step ends in an event or a ParserError and re-establishes the invariant - never a
   crash (states.pop() / marks.pop() / marks[-1] on an empty list, None.start_mark, the asserts, token.encoding) *)
Theorem C03_parser_step_keeps_invariant : forall s, Inv2 s -> wp ParseL.step (fun _ s' => Inv2 s') s.
Proof. exact step_inv. Qed.
Eval vm_compute in "ASSUME:C03_parser_step_keeps_invariant"%string. Print Assumptions C03_parser_step_keeps_invariant.
(* KIND C03_parser_never_crashes : U *)
(* the parser alone, for ALL token lists t :: r that start with STREAM-START and end in their only STREAM-END, whatever lies
   between, and for every amount of fuel: the run never ends in a non-YAML exception.  (Termination: C03_parser_total below.) *)
Theorem C03_parser_never_crashes : forall t r fuel, t_kind t = TStreamStart -> toks_ok r ->
  no_crash (snd (parse_loop fuel [] (pinit (t :: r)))).
Proof. exact parser_never_crashes. Qed.
Eval vm_compute in "ASSUME:C03_parser_never_crashes"%string. Print Assumptions C03_parser_never_crashes.
(* KIND C03_parser_step_decreases_potential : U *)
(* termination argument: Phi = 8 per token still to be consumed + rank of the current state + (rank+1) of every pending
   continuation on the stack; every step that delivers an event strictly decreases it (all 21 states) *)
Theorem C03_parser_step_decreases_potential : forall s, Inv2 s ->
  wp ParseL.step (fun _ s' => Inv2 s' /\ (pstate_ s <> None -> Phi s' < Phi s)) s.
Proof. exact step_dec. Qed.
Eval vm_compute in "ASSUME:C03_parser_step_decreases_potential"%string. Print Assumptions C03_parser_step_decreases_potential.
(* KIND C03_parser_total : U *)
(* the parser alone is TOTAL: for ALL token lists t :: r that start with STREAM-START and end in their only STREAM-END, the run
   of the model (fuel 8n+16) ends with the events or with a ParserError - it neither crashes nor runs out of fuel (no hang) *)
Theorem C03_parser_total : forall t r, t_kind t = TStreamStart -> toks_ok r -> total (snd (parse_all (t :: r))).
Proof. exact parser_total. Qed.
Eval vm_compute in "ASSUME:C03_parser_total"%string. Print Assumptions C03_parser_total.
(* KIND C03_parser_crash_needs_bad_delimiters : F *)
(* not vacuous, and the hypotheses are needed: without the final STREAM-END the model does crash (None.start_mark), exactly as
   the implementation does (parsel correspondence) *)
Example C03_parser_crash_needs_bad_delimiters :
  let m := {| m_index := 0; m_line := 0; m_col := 0 |} in
  let tk k := {| t_kind := k; t_start := m; t_end := m |} in
  no_crash (snd (parse_all [tk TStreamStart; tk (TScalar [97%N] true SPlain); tk TStreamEnd])) /\
  ~ no_crash (snd (parse_all [tk TStreamStart; tk (TScalar [97%N] true SPlain)])).
Proof. vm_compute. split; [exact I|intros H; exact H]. Qed.

(* KIND C03_scanner_total_refuted : F *)
(* FULL (scanner never crashes) is false of the faithful model: a %YAML directive whose minor number has more than 4300 digits
   makes int() raise ValueError (CPython's integer string conversion limit).  Replayed on the implementation this is the known
   finding F-yaml-directive-4300-digits.  (The earlier witness "\UFFFFFFFF" -> chr() OverflowError was repaired in /repo by a
   fix: commit; the model now returns a ScannerError there, second statement.) *)
Example C03_scanner_total_refuted :
  snd (scan_all ([37; 89; 65; 77; 76; 32; 49; 46]%N ++ repeat 49%N (N.to_nat 4301))) = Scan.Crash Scan.ValueError.
Proof. vm_compute. reflexivity. Qed.
(* KIND C03_escape_out_of_range_is_scanner_error : F *)
Example C03_escape_out_of_range_is_scanner_error :
  match snd (scan_all [34; 92; 85; 70; 70; 70; 70; 70; 70; 70; 70; 34]%N) with Scan.ScanErr _ _ _ => True | _ => False end.
Proof. vm_compute. exact I. Qed.

(* KIND C03_composer_total : U *)
(* the composer model (compose_node of Model/Construct.v: node store, anchor table, aliases), in EVERY state - any node store, any
   anchor table - given the events of ONE grammatical node (any nesting depth, any length) followed by anything, and any fuel above
   the number of those events: it ends with a node id having consumed exactly those events, or with a ComposerError (undefined
   alias, duplicate anchor); never a crash, never short of events, never out of fuel *)
Theorem C03_composer_total : forall es rest base st an fuel,
  ComposerTotal.clang ComposerTotal.KNode (map Parse.e_kind es) -> List.length es < fuel ->
  ComposerTotal.good (Construct.compose_node fuel base (ComposerTotal.mkc (es ++ rest) st an)) rest.
Proof. exact ComposerTotal.composer_total. Qed.
Eval vm_compute in "ASSUME:C03_composer_total"%string. Print Assumptions C03_composer_total.
(* KIND C03_parsed_documents_compose : U *)
(* parser and composer together, EVERY token list: when the parser's run ends normally its events (read in the composer's event
   type) are STREAM-START, documents, STREAM-END, and in every document the composer started on the root node's events - in any
   state - cannot crash, run short of events or of fuel *)
Theorem C03_parsed_documents_compose : forall ts, snd (ParseL.parse_all ts) = Scan.Ok tt ->
  exists ds, map ComposerTotal.cv (map ParseL.e_kind (fst (ParseL.parse_all ts))) = (Parse.VStreamStart :: ds ++ [Parse.VStreamEnd])%list /\
             ComposerTotal.docs_composable ds.
Proof. exact ComposerTotal.parsed_documents_compose. Qed.
Eval vm_compute in "ASSUME:C03_parsed_documents_compose"%string. Print Assumptions C03_parsed_documents_compose.
(* KIND C03_composer_nonvacuous : F *)
(* not vacuous: `[a, &x {k: *x}]` composes to node 1 consuming all 9 events; an alias to an undefined anchor is a ComposerError; and the
   grammar hypothesis is needed - a sequence that is never closed runs out of events *)
Example C03_composer_nonvacuous :
  let m := {| m_index := 0; m_line := 0; m_col := 0 |} in
  let e k := {| Parse.e_kind := k; Parse.e_start := m; Parse.e_end := m |} in
  let sc := Parse.VScalar None None true false [97%N] SPlain in
  let x := [120%N] in
  let good := [e (Parse.VSeqStart None None true true); e sc; e (Parse.VMapStart (Some x) None true true); e sc; e (Parse.VAlias x); e Parse.VMapEnd; e Parse.VSeqEnd] in
  (exists id s', Construct.compose_node 8 false (ComposerTotal.mkc (good ++ [e Parse.VStreamEnd]) [] []) = Construct.LOk (id, s') /\ List.length (Construct.evs s') = 1 /\ List.length (Construct.store s') = 4) /\
  Construct.compose_node 8 false (ComposerTotal.mkc [e (Parse.VAlias x)] [] []) = Construct.LComposer 1 /\
  Construct.compose_node 8 false (ComposerTotal.mkc [e (Parse.VSeqStart None None true true); e sc] [] []) = Construct.LScan Scan.OutOfFuel.
Proof. vm_compute. repeat split; eauto. Qed.

(* KIND C03_scanner_never_crashes : U *)
(* the WHOLE scanner model (all of scanner.py: the token loop, simple keys, indentation, every fetcher and every token scanner), on EVERY text
   without NUL - a text with NUL never reaches the scanner, the reader rejects it: the run never ends in an IndexError (peek / forward past the end of
   the buffer, pop from an empty indent stack) or OverflowError; the only Python exception other than ScannerError is the ValueError of int() on a
   %YAML version of more than 4300 digits (C03_scanner_total_refuted, a known finding).  Proofs/ScanSafe.v: a weakest-precondition calculus over
   the scanner monad; the invariant is the NUL-sentinel discipline of reader.py (the buffer ends with NUL and holds NUL nowhere else) together
   with the shape of the indent stack; every peek(k) is justified by k characters known not to be NUL, every loop by characters consumed.
   The token budget of scan_all (2n+8 requests) is the only fuel that may run out in this statement - see C03_token_request_total for the rest *)
Theorem C03_scanner_never_crashes : forall text, ~ In Scan.NUL text ->
  match snd (Scan.scan_all text) with Scan.Crash e => e = Scan.ValueError | _ => True end.
Proof. exact ScanSafe.scanner_never_crashes. Qed.
Eval vm_compute in "ASSUME:C03_scanner_never_crashes"%string. Print Assumptions C03_scanner_never_crashes.
(* KIND C03_token_request_total : U *)
(* one token request (need_more_tokens / fetch_more_tokens until a token is available) from ANY scanner state that satisfies the invariant: it
   returns with the invariant, or with a ScannerError (or the ValueError above) - it never crashes and never runs out of its look-ahead fuel *)
Theorem C03_token_request_total : forall s, ScanSafe.Inv s -> ScanSafe.wp (Scan.fill (S (S (List.length (Scan.rest s))))) (fun _ s' => ScanSafe.Inv s') s.
Proof. exact ScanSafe.fill_never_crashes. Qed.
Eval vm_compute in "ASSUME:C03_token_request_total"%string. Print Assumptions C03_token_request_total.
(* KIND C03_fetch_more_tokens_makes_progress : U *)
(* every call of fetch_more_tokens consumes at least one character or ends the stream: the scanner cannot loop without reading *)
Theorem C03_fetch_more_tokens_makes_progress : forall s, ScanSafe.Inv s ->
  ScanSafe.wp Scan.fetch_more_tokens (fun _ s' => ScanSafe.Inv s' /\ (List.length (Scan.rest s') < List.length (Scan.rest s) \/ Scan.sdone s' = true)) s.
Proof. exact ScanSafe.wp_fetch_more_tokens. Qed.
Eval vm_compute in "ASSUME:C03_fetch_more_tokens_makes_progress"%string. Print Assumptions C03_fetch_more_tokens_makes_progress.
(* KIND C03_scanner_invariant_nonvacuous : F *)
(* the initial state of every NUL-free text satisfies the invariant; and the sentinel matters: without the final NUL the model does crash *)
Example C03_scanner_invariant_nonvacuous :
  ScanSafe.Inv (Scan.init [97; 58; 32; 98]%N) /\
  snd (Scan.scan_loop 10 [] {| Scan.rest := [97%N]; Scan.index := 0; Scan.line := 0; Scan.col := 0; Scan.sdone := false; Scan.flow_level := 0; Scan.tokens := [];
                               Scan.taken := 0; Scan.indent := -1; Scan.indents := []; Scan.allow_sk := true; Scan.psk := [] |}) = Scan.Crash Scan.IndexError.
Proof. split; [apply ScanSafe.init_inv; cbv; intuition discriminate|vm_compute; reflexivity]. Qed.

(* KIND C03_scanned_tokens_are_delimited : U *)
(* what the scanner delivers is what the parser theorems ask for: for EVERY text, when the scan ends normally the token list is STREAM-START, tokens that
   are not STREAM-END, and one final STREAM-END.  (Proofs/ScanQueue.v; the bookkeeping lemmas for the 58 functions that never touch the token queue or
   only add tokens of a fixed kind are generated from Model/Scan.v by tools/gen_scanq.py, one generic tactic) *)
Theorem C03_scanned_tokens_are_delimited : forall text toks, Scan.scan_all text = (toks, Scan.Ok tt) ->
  exists t r, toks = (t :: r)%list /\ t_kind t = TStreamStart /\ toks_ok r.
Proof. exact ScanQueue.scanned_tokens_are_delimited. Qed.
Eval vm_compute in "ASSUME:C03_scanned_tokens_are_delimited"%string. Print Assumptions C03_scanned_tokens_are_delimited.
(* KIND C03_scanned_text_parses_totally : U *)
(* scanner and parser composed, EVERY text: when the scan ends normally, the parser run on its tokens is total - events or a ParserError, never a crash,
   never out of fuel; with C03_scanner_never_crashes (no crash before) and C03_parsed_documents_compose (no crash after) the chain from characters to
   node graphs never leaves the YAML errors, except for the ValueError of the 4300-digit version *)
Theorem C03_scanned_text_parses_totally : forall text, snd (Scan.scan_all text) = Scan.Ok tt ->
  ParserTerm.total (snd (ParseL.parse_all (fst (Scan.scan_all text)))).
Proof. exact ScanQueue.scanned_text_parses_totally. Qed.
Eval vm_compute in "ASSUME:C03_scanned_text_parses_totally"%string. Print Assumptions C03_scanned_text_parses_totally.
(* KIND C03_error_marks_inside_the_buffer : U *)
(* EVERY text: when the scan ends with a ScannerError, the position it reports - and the position of its context, if it has one - is an index into the
   buffer (the input and its final NUL).  Proofs/ScanMarks.v: the position invariant index + remaining characters = buffer length, and "the marks of
   the saved simple keys lie inside", kept by all 69 functions (lemmas generated from Model/Scan.v by tools/gen_scanm.py) *)
Theorem C03_error_marks_inside_the_buffer : forall text toks c code pm, Scan.scan_all text = (toks, Scan.ScanErr c code pm) ->
  m_index pm <= List.length text + 1 /\ match c with Some cm => m_index cm <= List.length text + 1 | None => True end.
Proof. exact ScanMarks.error_marks_inside_the_buffer. Qed.
Eval vm_compute in "ASSUME:C03_error_marks_inside_the_buffer"%string. Print Assumptions C03_error_marks_inside_the_buffer.
(* KIND C03_scan_examples : F *)
(* "a: [b" scans to a ScannerError-free token list that the parser rejects with a ParserError; "'x" is a ScannerError at index 2, inside the buffer *)
Example C03_scan_examples :
  snd (Scan.scan_all [97; 58; 32; 91; 98]%N) = Scan.Ok tt /\
  (match snd (ParseL.parse_all (fst (Scan.scan_all [97; 58; 32; 91; 98]%N))) with Scan.ScanErr _ _ _ => True | _ => False end) /\
  (match snd (Scan.scan_all [39; 120]%N) with Scan.ScanErr _ _ pm => m_index pm = 2 | _ => False end).
Proof. vm_compute. repeat split; reflexivity. Qed.

(* PARTIAL: the token budget of scan_all (the number of tokens is at most 2n+8), error positions in terms of line and column, and the marks of
   parser / composer errors are not proved.  They are decided by the scan/parse/compose/reader correspondence on a malformed-input stream (outcome class
   incl. the class of any non-YAML exception must agree with the model) and by the direct run on the implementation under a watchdog. *)
