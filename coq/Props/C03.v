(* C03 - Reading never fails with anything but a YAML error.   ONLY statements + `exact lemma`.
   The models return explicit Crash (what Python would raise: IndexError, ValueError ...) and OutOfFuel outcomes, so
   "never anything but a YAML error" is a statement about the model, not true by totalisation. *)
From Coq Require Import List NArith ZArith Bool Arith String.
Import ListNotations.
Require Import Scan Pos Reader Chunk Comb ParseL PT.

(* KIND C03_forward_never_crashes_inside_buffer : U *)
(* Reader.forward over any prefix that lies inside the buffer returns normally (no IndexError) *)
Theorem C03_forward_never_crashes_inside_buffer : forall n s p r x,
  Scan.rest s = (p ++ x :: r)%list -> List.length p = n -> exists s', Scan.forward n s = Scan.Ok (tt, s').
Proof. intros n s p r x H1 H2. destruct (forward_spec n s p r x H1 H2) as (s' & H & _). exists s'. exact H. Qed.
Eval vm_compute in "ASSUME:C03_forward_never_crashes_inside_buffer"%string. Print Assumptions C03_forward_never_crashes_inside_buffer.

(* KIND C03_decoder_terminates : U *)
(* the byte decoder of the reader is total and needs at most |bytes|+1 steps; its outcome is characters or a ReaderError position *)
Theorem C03_decoder_terminates : forall f fin bs off acc, List.length bs < f -> decode f Utf8 fin bs off acc = D fin bs off acc.
Proof. exact decode_fuel. Qed.
Eval vm_compute in "ASSUME:C03_decoder_terminates"%string. Print Assumptions C03_decoder_terminates.

(* KIND C03_scan_anchor_safe : U *)
(* the NUL-sentinel discipline: under "buffer = text ++ [NUL], NUL nowhere else, pointer inside" scanning an anchor/alias never
   indexes outside the buffer, ends with a token (pointer advanced, invariant kept) or a ScannerError positioned inside *)
Theorem C03_scan_anchor_safe : forall r c, Comb.inv r -> Comb.peek r 0 = Comb.Ok c -> c <> 0%N ->
  (exists v r', scan_anchor (List.length (buf r)) r = Comb.Ok (v, r') /\ Comb.inv r' /\ pos r < pos r')
  \/ (exists p, scan_anchor (List.length (buf r)) r = Comb.YamlErr p /\ p <= List.length (buf r)).
Proof. exact scan_anchor_safe. Qed.
Eval vm_compute in "ASSUME:C03_scan_anchor_safe"%string. Print Assumptions C03_scan_anchor_safe.

(* KIND C03_parser_first_step_safe : U *)
(* parser over ANY token list ending in its only STREAM-END: the first step and the document-end step never crash
   (states.pop()/marks.pop() on empty, None.start_mark, the two asserts are Crash outcomes of the model) and keep the stack invariant *)
Theorem C03_parser_first_step_safe : forall s, Inv0 s -> safe_step s.
Proof. exact step_stream_start. Qed.
Eval vm_compute in "ASSUME:C03_parser_first_step_safe"%string. Print Assumptions C03_parser_first_step_safe.
(* KIND C03_parser_doc_end_step_safe : U *)
Theorem C03_parser_doc_end_step_safe : forall s, pstate_ s = Some PDocEnd -> Inv s -> safe_step s.
Proof. exact step_doc_end. Qed.
Eval vm_compute in "ASSUME:C03_parser_doc_end_step_safe"%string. Print Assumptions C03_parser_doc_end_step_safe.

(* KIND C03_scanner_total_refuted : F *)
(* FULL (scanner never crashes) is false of the faithful model: a %YAML directive whose minor number has more than 4300 digits
   makes int() raise ValueError (CPython's integer string conversion limit).  Replayed on the implementation this is the known
   finding F-yaml-directive-4300-digits.  (The earlier witness "\UFFFFFFFF" -> chr() OverflowError was repaired in /repo by a
   fix: commit; the model now returns a ScannerError there, second statement.) *)
Example C03_scanner_total_refuted :
  snd (scan_all ([37; 89; 65; 77; 76; 32; 49; 46]%N ++ repeat 49%N (N.to_nat 4301))) = Scan.Crash Scan.ValueError.
Proof. vm_compute. reflexivity. Qed.
(* KIND C03_escape_out_of_range_is_scanner_error : F *)
Example C03_escape_out_of_range_is_scanner_error :
  match snd (scan_all [34; 92; 85; 70; 70; 70; 70; 70; 70; 70; 70; 34]%N) with Scan.ScanErr _ _ _ => True | _ => False end.
Proof. vm_compute. exact I. Qed.

(* PARTIAL: scanner_total, parser_total (all 21 states), composer_total and error_marks_inside are not proved.  They are
   decided by the scan/parse/compose/reader correspondence on a malformed-input stream (outcome class incl. the class of any
   non-YAML exception must agree with the model) and by the direct run on the implementation under a watchdog. *)
