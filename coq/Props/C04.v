(* C04 - Full loading never imports, calls or instantiates what a document names.   ONLY statements + `exact lemma`. *)
From Coq Require Import List String Bool.
Import ListNotations.
Require Import Registry GenHistory CallGraph GenCalls Dispatch Confinement ConfineLemmas ConfineFull ConfineUnsafe.
Open Scope string_scope.

(* KIND C04_object_tags_rejected : U *)
(* for EVERY suffix: python/object:, python/object/new:, python/object/apply:, python/module: dispatch to construct_undefined on FullLoader / CFullLoader *)
Theorem C04_object_tags_rejected : forall c p suffix kind_default, In c full_loader_classes -> In p object_prefixes ->
  dispatch_of w0 c (p ++ suffix) kind_default = "SafeConstructor.construct_undefined".
Proof. exact l_object_tags_rejected. Qed.
Eval vm_compute in "ASSUME:C04_object_tags_rejected". Print Assumptions C04_object_tags_rejected.

(* KIND C04_unsafe_only_on_unsafe : F *)
(* over every shipped class: an instantiating multi-constructor is effective exactly on UnsafeConstructor/Constructor/UnsafeLoader/Loader/CUnsafeLoader/CLoader *)
Theorem C04_unsafe_only_on_unsafe : forallb (fun c => Bool.eqb (has_instantiating c) (in_s c unsafe_classes)) shipped_classes = true.
Proof. exact l_unsafe_only_on_unsafe. Qed.
Eval vm_compute in "ASSUME:C04_unsafe_only_on_unsafe". Print Assumptions C04_unsafe_only_on_unsafe.

(* KIND C04_full_closure_confined : F *)
(* with `if unsafe:` branches dead (no reachable call site passes unsafe=): no __import__, no make_python_instance / set_python_instance_state /
   find_python_module, no dynamic call; beyond plain data only getattr/hasattr on modules, tuple() and complex() *)
Theorem C04_full_closure_confined : forallb full_closure_ok full_loader_classes = true.
Proof. exact l_full_closure_confined. Qed.
Eval vm_compute in "ASSUME:C04_full_closure_confined". Print Assumptions C04_full_closure_confined.

(* KIND C04_unsafe_closure_not_confined : F *)
Example C04_unsafe_closure_not_confined : confined full_leaf_ok full_method_ok (reach w0 methods "UnsafeLoader" false) = false.
Proof. exact l_unsafe_closure_not_confined. Qed.

(* PARTIAL: full_effects / full_value_universe over a FullConstructor model are not proved (the constructor model covers Safe/Base);
   decided by the direct run under audit + profile hooks over the python/* vocabulary. getattr on a module with a PEP 562 __getattr__ is outside the model. *)
