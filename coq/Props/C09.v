(* C09 - Tokens and events are grammatical and their positions are true.   ONLY statements + `exact lemma`.
   Scan.forward is the transcription of Reader.forward (reader.py:99-112) inside the validated scanner model; every mark
   of the model is a snapshot (get_mark) of (index, line, col) of that state. *)
From Coq Require Import List NArith ZArith Bool Arith String.
Import ListNotations.
Require Import Scan Pos.
Require ParseL PT ParserSafe ParserMarks.

(* KIND C09_position_invariant : U *)
(* after forward n over ANY prefix p (any length, any characters): index grew by |p|, (line, column) are the ones obtained
   by classifying each consumed character (CR LF counted once, U+FEFF not advancing the column), the buffer is the suffix,
   no crash, and no other scanner field moved *)
Theorem C09_position_invariant : forall n s p r x,
  rest s = (p ++ x :: r)%list -> List.length p = n ->
  exists s', forward n s = Ok (tt, s') /\ rest s' = x :: r /\ index s' = index s + n /\
             (line s', col s') = advance p x (line s) (col s) /\
             tokens s' = tokens s /\ flow_level s' = flow_level s /\ indent s' = indent s.
Proof. exact forward_spec. Qed.
Eval vm_compute in "ASSUME:C09_position_invariant"%string. Print Assumptions C09_position_invariant.

(* KIND C09_line_counts_breaks : U *)
(* the line of a position = start line + number of line breaks among the consumed characters *)
Theorem C09_line_counts_breaks : forall p x l c, fst (advance p x l c) = l + count_breaks p x.
Proof. exact advance_line. Qed.
Eval vm_compute in "ASSUME:C09_line_counts_breaks"%string. Print Assumptions C09_line_counts_breaks.

(* KIND C09_nonvacuous : F *)
Example C09_nonvacuous : advance [97; 13; 10; 65279; 98; 133]%N 99%N 0 0 = (2, 0) /\ count_breaks [97; 13; 10; 65279; 98; 133]%N 99%N = 2.
Proof. vm_compute. split; reflexivity. Qed.

(* KIND C09_parser_event_marks_ordered : U *)
(* the parser alone, for EVERY token list (STREAM-START ... single STREAM-END) whose token marks are in text order (each token
   starts at or after the end of the previous one and ends at or after its own start): every event the parser model delivers
   has start <= end - including the empty scalars, the collection starts that take their start mark from an anchor or tag
   token, and the document events that span directives - and the starts of successive events never move backwards *)
Theorem C09_parser_event_marks_ordered : forall t r, t_kind t = TStreamStart -> PT.toks_ok r -> ParserMarks.ordered 0 (t :: r) ->
  Forall ParserMarks.ev_ok (fst (ParseL.parse_all (t :: r))) /\ ParserMarks.starts_sorted (fst (ParseL.parse_all (t :: r))).
Proof. exact ParserMarks.parser_event_marks_ordered. Qed.
Eval vm_compute in "ASSUME:C09_parser_event_marks_ordered"%string. Print Assumptions C09_parser_event_marks_ordered.
(* KIND C09_parser_step_marks : U *)
(* one step, any state satisfying the stack invariant whose remaining tokens are ordered at or after lo: the event (if any)
   starts at or after lo, ends at or after its start, and the remaining tokens stay ordered at or after the event's start *)
Theorem C09_parser_step_marks : forall lo s, ParserMarks.InvM lo s ->
  ParserSafe.wp ParseL.step (fun o s' => match o with
     | Some e => lo <= ParserMarks.idx (ParseL.e_start e) /\ ParserMarks.ev_ok e /\ ParserMarks.InvM (ParserMarks.idx (ParseL.e_start e)) s'
     | None => True end) s.
Proof. exact ParserMarks.step_invM. Qed.
Eval vm_compute in "ASSUME:C09_parser_step_marks"%string. Print Assumptions C09_parser_step_marks.

(* PARTIAL: token_marks_monotone (scanner), block_balanced, parser_sound (event grammar for ALL token lists) and span_is_value are
   not proved; they are decided by the scan/parse correspondence (every mark compared) and by the direct run that
   recomputes every mark from the text and recognises both grammars (see tools/props/c09.py). *)
