(* C09 - Tokens and events are grammatical and their positions are true.   ONLY statements + `exact lemma`.
   Scan.forward is the transcription of Reader.forward (reader.py:99-112) inside the validated scanner model; every mark
   of the model is a snapshot (get_mark) of (index, line, col) of that state. *)
From Coq Require Import List NArith ZArith Bool Arith String.
Import ListNotations.
Require Import Scan Pos.

(* KIND C09_position_invariant : U *)
(* after forward n over ANY prefix p (any length, any characters): index grew by |p|, (line, column) are the ones obtained
   by classifying each consumed character (CR LF counted once, U+FEFF not advancing the column), the buffer is the suffix,
   no crash, and no other scanner field moved *)
Theorem C09_position_invariant : forall n s p r x,
  rest s = (p ++ x :: r)%list -> List.length p = n ->
  exists s', forward n s = Ok (tt, s') /\ rest s' = x :: r /\ index s' = index s + n /\
             (line s', col s') = advance p x (line s) (col s) /\
             tokens s' = tokens s /\ flow_level s' = flow_level s /\ indent s' = indent s.
Proof. exact forward_spec. Qed.
Eval vm_compute in "ASSUME:C09_position_invariant"%string. Print Assumptions C09_position_invariant.

(* KIND C09_line_counts_breaks : U *)
(* the line of a position = start line + number of line breaks among the consumed characters *)
Theorem C09_line_counts_breaks : forall p x l c, fst (advance p x l c) = l + count_breaks p x.
Proof. exact advance_line. Qed.
Eval vm_compute in "ASSUME:C09_line_counts_breaks"%string. Print Assumptions C09_line_counts_breaks.

(* KIND C09_nonvacuous : F *)
Example C09_nonvacuous : advance [97; 13; 10; 65279; 98; 133]%N 99%N 0 0 = (2, 0) /\ count_breaks [97; 13; 10; 65279; 98; 133]%N 99%N = 2.
Proof. vm_compute. split; reflexivity. Qed.

(* PARTIAL: token_marks_monotone, block_balanced, parser_sound (event grammar for ALL token lists) and span_is_value are
   not proved; they are decided by the scan/parse correspondence (every mark compared) and by the direct run that
   recomputes every mark from the text and recognises both grammars (see tools/props/c09.py). *)
