(* C09 - Tokens and events are grammatical and their positions are true.   ONLY statements + `exact lemma`.
   Scan.forward is the transcription of Reader.forward (reader.py:99-112) inside the validated scanner model; every mark
   of the model is a snapshot (get_mark) of (index, line, col) of that state. *)
From Coq Require Import List NArith ZArith Bool Arith String.
Import ListNotations.
Require Import Scan Pos.
Require ScanTok ScanMonoGen.
Require ParseL PT ParserSafe ParserMarks ParserGrammar.

(* KIND C09_position_invariant : U *)
(* after forward n over ANY prefix p (any length, any characters): index grew by |p|, (line, column) are the ones obtained
   by classifying each consumed character (CR LF counted once, U+FEFF not advancing the column), the buffer is the suffix,
   no crash, and no other scanner field moved *)
Theorem C09_position_invariant : forall n s p r x,
  rest s = (p ++ x :: r)%list -> List.length p = n ->
  exists s', forward n s = Ok (tt, s') /\ rest s' = x :: r /\ index s' = index s + n /\
             (line s', col s') = advance p x (line s) (col s) /\
             tokens s' = tokens s /\ flow_level s' = flow_level s /\ indent s' = indent s.
Proof. exact forward_spec. Qed.
Eval vm_compute in "ASSUME:C09_position_invariant"%string. Print Assumptions C09_position_invariant.

(* KIND C09_line_counts_breaks : U *)
(* the line of a position = start line + number of line breaks among the consumed characters *)
Theorem C09_line_counts_breaks : forall p x l c, fst (advance p x l c) = l + count_breaks p x.
Proof. exact advance_line. Qed.
Eval vm_compute in "ASSUME:C09_line_counts_breaks"%string. Print Assumptions C09_line_counts_breaks.

(* KIND C09_nonvacuous : F *)
Example C09_nonvacuous : advance [97; 13; 10; 65279; 98; 133]%N 99%N 0 0 = (2, 0) /\ count_breaks [97; 13; 10; 65279; 98; 133]%N 99%N = 2.
Proof. vm_compute. split; reflexivity. Qed.

(* KIND C09_parser_event_marks_ordered : U *)
(* the parser alone, for EVERY token list (STREAM-START ... single STREAM-END) whose token marks are in text order (each token
   starts at or after the end of the previous one and ends at or after its own start): every event the parser model delivers
   has start <= end - including the empty scalars, the collection starts that take their start mark from an anchor or tag
   token, and the document events that span directives - and the starts of successive events never move backwards *)
Theorem C09_parser_event_marks_ordered : forall t r, t_kind t = TStreamStart -> PT.toks_ok r -> ParserMarks.ordered 0 (t :: r) ->
  Forall ParserMarks.ev_ok (fst (ParseL.parse_all (t :: r))) /\ ParserMarks.starts_sorted (fst (ParseL.parse_all (t :: r))).
Proof. exact ParserMarks.parser_event_marks_ordered. Qed.
Eval vm_compute in "ASSUME:C09_parser_event_marks_ordered"%string. Print Assumptions C09_parser_event_marks_ordered.
(* KIND C09_parser_step_marks : U *)
(* one step, any state satisfying the stack invariant whose remaining tokens are ordered at or after lo: the event (if any)
   starts at or after lo, ends at or after its start, and the remaining tokens stay ordered at or after the event's start *)
Theorem C09_parser_step_marks : forall lo s, ParserMarks.InvM lo s ->
  ParserSafe.wp ParseL.step (fun o s' => match o with
     | Some e => lo <= ParserMarks.idx (ParseL.e_start e) /\ ParserMarks.ev_ok e /\ ParserMarks.InvM (ParserMarks.idx (ParseL.e_start e)) s'
     | None => True end) s.
Proof. exact ParserMarks.step_invM. Qed.
Eval vm_compute in "ASSUME:C09_parser_step_marks"%string. Print Assumptions C09_parser_step_marks.

(* KIND C09_parser_events_grammatical : U *)
(* the parser alone, for EVERY token list - no hypothesis on the tokens at all - and every amount of fuel: whatever the outcome
   (events, ParserError, crash on an undelimited list, fuel exhaustion) the events delivered so far are a viable prefix of the
   event grammar, and when the run ends normally the whole event list is accepted by the pushdown recogniser of
   stream ::= STREAM-START (DOCUMENT-START node DOCUMENT-END)* STREAM-END,
   node ::= ALIAS | SCALAR | SEQUENCE-START node* SEQUENCE-END | MAPPING-START (node node)* MAPPING-END *)
Theorem C09_parser_events_grammatical : forall ts fuel,
  ParserGrammar.viable (map ParseL.e_kind (fst (ParseL.parse_loop fuel [] (ParseL.pinit ts)))) /\
  (snd (ParseL.parse_loop fuel [] (ParseL.pinit ts)) = Ok tt ->
   ParserGrammar.grammatical (map ParseL.e_kind (fst (ParseL.parse_loop fuel [] (ParseL.pinit ts))))).
Proof. exact ParserGrammar.parser_events_grammatical. Qed.
Eval vm_compute in "ASSUME:C09_parser_events_grammatical"%string. Print Assumptions C09_parser_events_grammatical.
(* KIND C09_parser_events_in_grammar : U *)
(* the same against the DECLARATIVE grammar (inductive derivations ParserGrammar.lang: nodes, node lists, key/value pairs,
   documents): every token list on which the parser's run ends normally yields a sentence of the event grammar; in particular
   every collection start has its end, collections nest, mappings have as many values as keys, every document has exactly one
   root node between DOCUMENT-START and DOCUMENT-END *)
Theorem C09_parser_events_in_grammar : forall ts, snd (ParseL.parse_all ts) = Ok tt ->
  ParserGrammar.stream_lang (map ParseL.e_kind (fst (ParseL.parse_all ts))).
Proof. exact ParserGrammar.parser_events_in_grammar. Qed.
Eval vm_compute in "ASSUME:C09_parser_events_in_grammar"%string. Print Assumptions C09_parser_events_in_grammar.
(* KIND C09_parser_step_simulates_grammar : U *)
(* one step, ANY parser state: the event emitted is the one transition of the recogniser from the frames the state and its
   stack of continuation states stand for (ParserGrammar.G) to the frames of the next state *)
Theorem C09_parser_step_simulates_grammar : forall s, ParserGrammar.okfinal s ->
  match ParseL.step s with
  | Ok (Some e, s') => ParserGrammar.gstep (ParserGrammar.G s) (ParseL.e_kind e) = Some (ParserGrammar.G s') /\ ParserGrammar.okfinal s'
  | Ok (None, _) => ParserGrammar.G s = []
  | _ => True
  end.
Proof. exact ParserGrammar.step_sim. Qed.
Eval vm_compute in "ASSUME:C09_parser_step_simulates_grammar"%string. Print Assumptions C09_parser_step_simulates_grammar.
(* KIND C09_grammar_nonvacuous : F *)
(* not vacuous: `- a\n- {b: c}` as tokens ends normally with 11 events (the premise of the theorems above holds), the
   recogniser does reject ill-formed event lists (a mapping closed after a key without a value), and an ill-formed token list
   ends in a ParserError with its events a viable prefix *)
Example C09_grammar_nonvacuous :
  let m := {| m_index := 0; m_line := 0; m_col := 0 |} in
  let tk k := {| t_kind := k; t_start := m; t_end := m |} in
  let sc := TScalar [97%N] true SPlain in
  let good := [tk TStreamStart; tk TBlockSeqStart; tk TBlockEntry; tk sc; tk TBlockEntry; tk TFlowMapStart; tk TKey; tk sc; tk TValue; tk sc; tk TFlowMapEnd; tk TBlockEnd; tk TStreamEnd] in
  (snd (ParseL.parse_all good) = Ok tt /\ List.length (fst (ParseL.parse_all good)) = 11) /\
  ParserGrammar.grun [ParserGrammar.GInit] [ParseL.VStreamStart; ParseL.VDocStart false None []; ParseL.VMapStart None None true false;
                                            ParseL.VScalar None None true false [] SPlain; ParseL.VMapEnd] = None /\
  (exists c e p, snd (ParseL.parse_all [tk TStreamStart; tk TFlowSeqStart; tk sc; tk sc; tk TStreamEnd]) = ScanErr c e p).
Proof. vm_compute. repeat split; eauto. Qed.

(* KIND C09_delivered_tokens_start_before_they_end : U *)
(* the scanner, EVERY text, however the scan ends (tokens, ScannerError, ...): every token delivered has a start mark whose index is at most the index of
   its end mark.  Proofs/ScanTok.v: the position never moves backwards (ScanMonoGen.v, one generated lemma per function of the scanner model), the end
   mark of each of the six token scanners is taken at or after the position where it was entered - also through the loops of plain and block scalars
   that hand marks back - and the queue of tokens only ever receives such tokens (ScanTokGen.v, generated) *)
Theorem C09_delivered_tokens_start_before_they_end : forall text,
  Forall (fun t => m_index (t_start t) <= m_index (t_end t)) (fst (Scan.scan_all text)).
Proof. exact ScanTok.delivered_tokens_start_before_they_end. Qed.
Eval vm_compute in "ASSUME:C09_delivered_tokens_start_before_they_end"%string. Print Assumptions C09_delivered_tokens_start_before_they_end.
(* KIND C09_position_never_moves_backwards : U *)
Theorem C09_position_never_moves_backwards : forall s s', Scan.fetch_more_tokens s = Scan.Ok (tt, s') -> Scan.index s <= Scan.index s'.
Proof. intros s s' H. exact (ScanMonoGen.mo_fetch_more_tokens s tt s' H). Qed.
Eval vm_compute in "ASSUME:C09_position_never_moves_backwards"%string. Print Assumptions C09_position_never_moves_backwards.

(* PARTIAL: the order BETWEEN successive tokens (token_marks_monotone across tokens), block_balanced and span_is_value are
   not proved; they are decided by the scan/parse correspondence (every mark compared) and by the direct run that
   recomputes every mark from the text and recognises both grammars (see tools/props/c09.py). *)
