(* C18 - Streams are consumed incrementally and documents delivered as they complete.   ONLY statements + `exact lemma`.
   update_raw / update_loop are Reader.update_raw / Reader.update of reader.py over a stream with an arbitrary read schedule (Model/Reader.v). *)
From Coq Require Import List NArith Bool Arith String.
Import ListNotations.
Require Import Reader ReaderLemmas ReaderBound.
Require ByteBound.

(* KIND C18_refill_at_most_one_block : U *)
(* for EVERY reader state, schedule and stream content: one refill moves the stream pointer forward by at most 4096 units *)
Theorem C18_refill_at_most_one_block : forall r, stream_pointer r <= stream_pointer (update_raw r) <= stream_pointer r + 4096.
Proof. exact l_refill_at_most_one_block. Qed.
Eval vm_compute in "ASSUME:C18_refill_at_most_one_block"%string. Print Assumptions C18_refill_at_most_one_block.

(* KIND C18_no_refill_when_satisfied : U *)
(* the reader does not touch the stream while the buffer already holds the characters that are demanded *)
Theorem C18_no_refill_when_satisfied : forall f n r, n <= List.length (buffer r) -> update_loop (S f) n r = Ok r.
Proof. exact l_no_refill_when_satisfied. Qed.
Eval vm_compute in "ASSUME:C18_no_refill_when_satisfied"%string. Print Assumptions C18_no_refill_when_satisfied.

(* KIND C18_requests_are_blocks : U *)
Theorem C18_requests_are_blocks : forall r s, strm r = Some s -> exists got, reads (update_raw r) = (4096, got) :: reads r /\ got <= 4096.
Proof. exact l_requests_are_blocks. Qed.
Eval vm_compute in "ASSUME:C18_requests_are_blocks"%string. Print Assumptions C18_requests_are_blocks.

(* KIND C18_text_demand_bound : U *)
(* the whole refill loop, text streams, EVERY read schedule, content and reader state whose raw buffer is empty: a demand that
   the buffer already satisfies reads nothing; a demand for n characters with fewer buffered reads fewer than (n - buffered) + 4096
   characters from the stream (one block of read-ahead at most), unless the stream ends *)
Theorem C18_text_demand_bound : forall f n r r',
  (exists s, strm r = Some s /\ is_text s = true) -> rawb r = RawStr [] -> eof r = false -> update_loop f n r = Ok r' ->
  (n <= List.length (buffer r) -> stream_pointer r' = stream_pointer r) /\
  (List.length (buffer r) < n -> eof r' = false -> stream_pointer r' - stream_pointer r < (n - List.length (buffer r)) + 4096).
Proof. exact text_demand_reads_at_most_one_block_more. Qed.
Eval vm_compute in "ASSUME:C18_text_demand_bound"%string. Print Assumptions C18_text_demand_bound.
(* KIND C18_text_accounting : U *)
(* nothing read is lost or duplicated: stream pointer and buffer length grow together (the final NUL sentinel accounts for 1) *)
Theorem C18_text_accounting : forall f n r r',
  (exists s, strm r = Some s /\ is_text s = true) -> rawb r = RawStr [] -> eof r = false -> update_loop f n r = Ok r' ->
  stream_pointer r' + List.length (buffer r) + (if eof r' then 1 else 0) = stream_pointer r + List.length (buffer r').
Proof. intros f n r r' H1 H2 H3 H4. exact (proj1 (update_loop_text_bound f n r r' H1 H2 H3 H4)). Qed.
Eval vm_compute in "ASSUME:C18_text_accounting"%string. Print Assumptions C18_text_accounting.

(* KIND C18_byte_demand_bound : U *)
(* byte streams in any of the three encodings, the whole refill loop, any read schedule and content: a demand for n characters when
   the buffer holds fewer takes fewer than 4 * (n - buffered) + 4096 + 3 bytes from the stream (four bytes is the longest character,
   one block the unit of reading, three bytes the longest undecoded tail carried over); nothing when the buffer suffices *)
Theorem C18_byte_demand_bound : forall f n r r' carry e,
  (exists s, strm r = Some s /\ is_text s = false) -> rawb r = RawBytes carry -> List.length carry < 4 -> encd r = Some e -> eof r = false ->
  update_loop f n r = Ok r' -> eof r' = false ->
  (n <= List.length (buffer r) -> stream_pointer r' = stream_pointer r) /\
  (List.length (buffer r) < n -> stream_pointer r' - stream_pointer r < 4 * (n - List.length (buffer r)) + 4096 + 3).
Proof. exact ByteBound.byte_demand_reads_less_than_four_per_character_plus_a_block. Qed.
Eval vm_compute in "ASSUME:C18_byte_demand_bound"%string. Print Assumptions C18_byte_demand_bound.
(* KIND C18_decode_consumes_at_most_four_bytes_per_character : U *)
(* the incremental decoders (UTF-8, UTF-16 LE/BE): a successful call consumed at most four bytes per character it returned and, when it
   was not the final call, left fewer than four bytes undecoded *)
Theorem C18_decode_consumes_at_most_four_bytes_per_character : forall fuel e fin bs off acc d c, decode fuel e fin bs off acc = DecOk d c ->
  off <= c /\ List.length acc <= List.length d /\ c - off <= 4 * (List.length d - List.length acc) /\ c - off <= List.length bs /\
  (List.length bs < fuel -> fin = false -> List.length bs - (c - off) < 4).
Proof. exact ByteBound.decode_bounds. Qed.
Eval vm_compute in "ASSUME:C18_decode_consumes_at_most_four_bytes_per_character"%string. Print Assumptions C18_decode_consumes_at_most_four_bytes_per_character.

(* KIND C18_nonvacuous : F *)
(* the premises of the two demand bounds are met by ordinary readers: a text stream "abcdefgh" and a UTF-8 byte stream, both handed out in short
   reads; after determine_encoding five units are consumed; a demand beyond the buffer reads on (3 more units) without reaching the end *)
Example C18_nonvacuous :
  let s := {| sdata_b := []; sdata_s := [97;98;99;100;101;102;103;104]%N; is_text := true; sizes := [3;2;5] |} in
  let b := {| sdata_b := [97;195;169;98;99;100;101;102]%N; sdata_s := []; is_text := false; sizes := [2;3;5] |} in
  match init_stream s, init_stream b with
  | Ok r, Ok q =>
      ((exists s', strm r = Some s' /\ is_text s' = true) /\ rawb r = RawStr [] /\ eof r = false /\ List.length (buffer r) = 5 /\ stream_pointer r = 5 /\
       match update_loop 10 7 r with Ok r' => eof r' = false /\ stream_pointer r' = 8 /\ List.length (buffer r') = 8 | _ => False end) /\
      ((exists s', strm q = Some s' /\ is_text s' = false) /\ rawb q = RawBytes [] /\ encd q = Some Utf8 /\ eof q = false /\ List.length (buffer q) = 4 /\ stream_pointer q = 5 /\
       match update_loop 10 6 q with Ok q' => eof q' = false /\ stream_pointer q' = 8 /\ List.length (buffer q') = 7 | _ => False end)
  | _, _ => False end.
Proof. vm_compute. repeat split; try reflexivity; eexists; split; reflexivity. Qed.

(* PARTIAL: token_lookahead_bounded and
   lazy_prefix_determinism are not proved; decided by the reader correspondence (stream pointer and read() log after every demand) and the direct run that
   records the stream offset each time a document is delivered.  Generator finalisation (dispose on close) is CPython behaviour, observed only. *)
