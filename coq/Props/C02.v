(* C02 - Round trip: what the safe dumpers write, the safe loaders read back.   ONLY statements + `exact lemma`. *)
From Coq Require Import List NArith ZArith Bool Arith String.
Import ListNotations.
Require Import Scan Pos DQ SQ.

(* KIND C02_double_quoted_scalar_roundtrip : U *)
(* for EVERY text t over printable ASCII (spaces, apostrophes included), the 15 single-letter escapes and \xHH code points,
   and every scanner state whose buffer is  " body(t) " tail  (body = the escaping write_double_quoted performs, no fold):
   scan_flow_scalar returns a double-quoted scalar token whose value is exactly t and leaves the buffer at tail *)
Theorem C02_double_quoted_scalar_roundtrip : forall t tail s,
  forallb simple t = true -> rest s = (34%N :: body t ++ 34%N :: tail)%list -> tail <> [] ->
  exists tok s', scan_flow_scalar true s = Ok (tok, s') /\ t_kind tok = TScalar t false SDouble /\ rest s' = tail.
Proof. exact dq_roundtrip. Qed.
Eval vm_compute in "ASSUME:C02_double_quoted_scalar_roundtrip"%string. Print Assumptions C02_double_quoted_scalar_roundtrip.

(* KIND C02_single_quoted_scalar_roundtrip : U *)
(* for EVERY text t over printable ASCII (spaces, apostrophes, double quotes and backslashes included) and every scanner state whose
   buffer is  ' body1(t) ' z tail  with z not an apostrophe (body1 = every apostrophe doubled, as write_single_quoted does; no
   fold): scan_flow_scalar returns a single-quoted scalar token whose value is exactly t and leaves the buffer at z tail *)
Theorem C02_single_quoted_scalar_roundtrip : forall t z tail s,
  forallb raw1 t = true -> z <> 39%N -> rest s = (39%N :: body1 t ++ 39%N :: z :: tail)%list ->
  exists tok s', scan_flow_scalar false s = Ok (tok, s') /\ t_kind tok = TScalar t false SSingle /\ rest s' = (z :: tail)%list.
Proof. exact sq_roundtrip. Qed.
Eval vm_compute in "ASSUME:C02_single_quoted_scalar_roundtrip"%string. Print Assumptions C02_single_quoted_scalar_roundtrip.

(* PARTIAL (FULL: forall v opts, load (dump v opts) ~ v): only the double-quoted (the universal fallback style) and single-quoted scalar layers
   without folding is a theorem.  Value<->node, node<->event and the other four scalar styles are decided by the
   represent/serialize/emit/scan/parse/compose/construct correspondence and the direct round-trip run. *)
