(* C02 - Round trip: what the safe dumpers write, the safe loaders read back.   ONLY statements + `exact lemma`. *)
From Coq Require Import List NArith ZArith Bool Arith String.
Import ListNotations.
Require Import Scan Pos DQ SQ.
Require Emit EmitSQ EmitDQ Plain EmitPlain AnalysisPlain.
Require Represent ParserGrammar EmitGrammar SerializeGrammar.
Require Construct Represent IntRoundTrip.

(* KIND C02_double_quoted_scalar_roundtrip : U *)
(* for EVERY text t over printable ASCII (spaces, apostrophes included), the 15 single-letter escapes and \xHH code points,
   and every scanner state whose buffer is  " body(t) " tail  (body = the escaping write_double_quoted performs, no fold):
   scan_flow_scalar returns a double-quoted scalar token whose value is exactly t and leaves the buffer at tail *)
Theorem C02_double_quoted_scalar_roundtrip : forall t tail s,
  forallb simple t = true -> rest s = (34%N :: body t ++ 34%N :: tail)%list -> tail <> [] ->
  exists tok s', scan_flow_scalar true s = Ok (tok, s') /\ t_kind tok = TScalar t false SDouble /\ rest s' = tail.
Proof. exact dq_roundtrip. Qed.
Eval vm_compute in "ASSUME:C02_double_quoted_scalar_roundtrip"%string. Print Assumptions C02_double_quoted_scalar_roundtrip.

(* KIND C02_single_quoted_scalar_roundtrip : U *)
(* for EVERY text t over printable ASCII (spaces, apostrophes, double quotes and backslashes included) and every scanner state whose
   buffer is  ' body1(t) ' z tail  with z not an apostrophe (body1 = every apostrophe doubled, as write_single_quoted does; no
   fold): scan_flow_scalar returns a single-quoted scalar token whose value is exactly t and leaves the buffer at z tail *)
Theorem C02_single_quoted_scalar_roundtrip : forall t z tail s,
  forallb raw1 t = true -> z <> 39%N -> rest s = (39%N :: body1 t ++ 39%N :: z :: tail)%list ->
  exists tok s', scan_flow_scalar false s = Ok (tok, s') /\ t_kind tok = TScalar t false SSingle /\ rest s' = (z :: tail)%list.
Proof. exact sq_roundtrip. Qed.
Eval vm_compute in "ASSUME:C02_single_quoted_scalar_roundtrip"%string. Print Assumptions C02_single_quoted_scalar_roundtrip.

(* KIND C02_double_quoted_emit_then_scan : U *)
(* emitter model and scanner model TOGETHER: for every text over printable ASCII, the 15 single-letter escapes and \xHH code points,
   every emitter state with allow_unicode off standing after whitespace, and without folding (split = False, as for simple keys):
   write_double_quoted succeeds, and whatever scanner state holds the text it wrote followed by any non-empty tail,
   scan_flow_scalar returns a double-quoted scalar token with exactly that text and stops at the tail *)
Theorem C02_double_quoted_emit_then_scan : forall (text : Emit.str) s tail, forallb simple text = true -> tail <> [] ->
  Emit.allow_unicode s = false -> Emit.whitespace s = true ->
  exists s' w, Emit.write_double_quoted text false s = Emit.Ok (tt, s') /\ EmitSQ.otext s' = (EmitSQ.otext s ++ w)%list /\
    forall sc, rest sc = (w ++ tail)%list ->
      exists tok sc', scan_flow_scalar true sc = Ok (tok, sc') /\ t_kind tok = TScalar text false SDouble /\ rest sc' = tail.
Proof. exact EmitDQ.double_quoted_emit_then_scan. Qed.
Eval vm_compute in "ASSUME:C02_double_quoted_emit_then_scan"%string. Print Assumptions C02_double_quoted_emit_then_scan.
(* KIND C02_single_quoted_emit_then_scan : U *)
(* the same for write_single_quoted: every text over printable ASCII, any emitter state standing after whitespace, no folding; the
   character after the closing apostrophe must not be another apostrophe *)
Theorem C02_single_quoted_emit_then_scan : forall text s z tail, forallb raw1 text = true -> z <> 39%N -> Emit.whitespace s = true ->
  exists s' w, Emit.write_single_quoted text false s = Emit.Ok (tt, s') /\ EmitSQ.otext s' = (EmitSQ.otext s ++ w)%list /\
    forall sc, rest sc = (w ++ z :: tail)%list ->
      exists tok sc', scan_flow_scalar false sc = Ok (tok, sc') /\ t_kind tok = TScalar text false SSingle /\ rest sc' = (z :: tail)%list.
Proof. exact EmitSQ.single_quoted_emit_then_scan. Qed.
Eval vm_compute in "ASSUME:C02_single_quoted_emit_then_scan"%string. Print Assumptions C02_single_quoted_emit_then_scan.
(* KIND C02_quoted_writers_text : U *)
(* what the two writers of the emitter model put on the stream, for EVERY text (double quoted: any code points) and every state: an
   optional separating space, the quote, the escaped body of the round-trip theorems above, the quote *)
Theorem C02_quoted_writers_text :
  (forall (text : Emit.str) s, Emit.allow_unicode s = false -> exists s', Emit.write_double_quoted text false s = Emit.Ok (tt, s') /\
     EmitSQ.otext s' = (EmitSQ.otext s ++ (if Emit.whitespace s then [] else [Emit.SP]) ++ 34%N :: body text ++ [34%N])%list) /\
  (forall text s, forallb raw1 text = true -> exists s', Emit.write_single_quoted text false s = Emit.Ok (tt, s') /\
     EmitSQ.otext s' = (EmitSQ.otext s ++ (if Emit.whitespace s then [] else [Emit.SP]) ++ 39%N :: body1 text ++ [39%N])%list).
Proof. split; [exact EmitDQ.write_double_quoted_text|exact EmitSQ.write_single_quoted_text]. Qed.
Eval vm_compute in "ASSUME:C02_quoted_writers_text"%string. Print Assumptions C02_quoted_writers_text.
(* KIND C02_quoted_nonvacuous : F *)
(* the hypotheses are met by the initial emitter state (whitespace, allow_unicode off) and a text with apostrophes, quotes, a tab and a space *)
Example C02_quoted_nonvacuous :
  let s0 := Emit.init false false None None [10%N] in
  let t := [105; 116; 39; 115; 32; 34; 92; 9]%N in
  Emit.whitespace s0 = true /\ Emit.allow_unicode s0 = false /\ forallb simple t = true /\ forallb raw1 (firstn 7 t) = true /\
  (match Emit.write_double_quoted t false s0 with Emit.Ok (_, s') => EmitSQ.otext s' = [34; 105; 116; 39; 115; 32; 92; 34; 92; 92; 92; 116; 34]%N | _ => False end) /\
  (match Emit.write_single_quoted (firstn 7 t) false s0 with Emit.Ok (_, s') => EmitSQ.otext s' = [39; 105; 116; 39; 39; 115; 32; 34; 92; 39]%N | _ => False end).
Proof. vm_compute. repeat split; reflexivity. Qed.

(* KIND C02_plain_scalar_roundtrip : U *)
(* the plain style (the dumper's first choice): EVERY one-line text made of words (no blank character, a colon never followed by a blank, no leading '#')
   separated by runs of spaces, in block context at a column inside the current indentation, followed by the end of the input or by a line feed and the
   end of the input: scan_plain returns a plain scalar token with exactly that text (Proofs/Plain.v) *)
Theorem C02_plain_scalar_roundtrip : forall x t r s, Plain.plainok x t -> rest s = (t ++ x :: r)%list -> Plain.ender x r -> flow_level s = 0%Z ->
  (indent s + 1 <= Z.of_nat (col s))%Z ->
  exists tok s', scan_plain s = Ok (tok, s') /\ t_kind tok = TScalar t true SPlain /\ rest s' = Plain.after x r.
Proof. exact Plain.plain_roundtrip. Qed.
Eval vm_compute in "ASSUME:C02_plain_scalar_roundtrip"%string. Print Assumptions C02_plain_scalar_roundtrip.
(* KIND C02_plain_emit_then_scan : U *)
(* emitter model and scanner model TOGETHER for the plain style: for every such text and every emitter state standing after whitespace,
   write_plain (no folding) writes the text itself, and the scanner reads it back as exactly that text *)
Theorem C02_plain_emit_then_scan : forall x text r s, Plain.plainok x text -> Plain.ender x r -> Emit.whitespace s = true ->
  exists s', Emit.write_plain text false s = Emit.Ok (tt, s') /\ EmitSQ.otext s' = (EmitSQ.otext s ++ text)%list /\
    forall sc, rest sc = (text ++ x :: r)%list -> flow_level sc = 0%Z -> (indent sc + 1 <= Z.of_nat (col sc))%Z ->
      exists tok sc', scan_plain sc = Ok (tok, sc') /\ t_kind tok = TScalar text true SPlain /\ rest sc' = Plain.after x r.
Proof. exact EmitPlain.plain_emit_then_scan. Qed.
Eval vm_compute in "ASSUME:C02_plain_emit_then_scan"%string. Print Assumptions C02_plain_emit_then_scan.
(* KIND C02_analysed_plain_emit_then_scan : U *)
(* three cooperating sites: EVERY non-empty text for which the emitter's analyze_scalar allows the plain style in block context (any allow_unicode
   setting) is such a text of words and runs of spaces (Proofs/AnalysisPlain.v: an invariant of the analysis loop over every character); so what
   the style choice lets write_plain write, scan_plain reads back *)
Theorem C02_analysed_plain_emit_then_scan : forall au text x r s, text <> [] -> Emit.a_block_plain (Emit.analyze_scalar au text) = true -> Plain.ender x r ->
  Emit.whitespace s = true ->
  exists s', Emit.write_plain text false s = Emit.Ok (tt, s') /\ EmitSQ.otext s' = (EmitSQ.otext s ++ text)%list /\
    forall sc, rest sc = (text ++ x :: r)%list -> flow_level sc = 0%Z -> (indent sc + 1 <= Z.of_nat (col sc))%Z ->
      exists tok sc', scan_plain sc = Ok (tok, sc') /\ t_kind tok = TScalar text true SPlain /\ rest sc' = Plain.after x r.
Proof. exact AnalysisPlain.analysed_plain_emit_then_scan. Qed.
Eval vm_compute in "ASSUME:C02_analysed_plain_emit_then_scan"%string. Print Assumptions C02_analysed_plain_emit_then_scan.
(* KIND C02_plain_nonvacuous : F *)
(* a text with an inner colon, an inner hash and several spaces meets the hypotheses and is read back by the whole scanner model *)
Example C02_plain_nonvacuous :
  let t := [97; 58; 98; 32; 32; 99; 35; 100; 32; 45; 101]%N in
  Plain.plainok LF t /\
  (let s := {| rest := (t ++ [LF; NUL])%list; index := 0; line := 0; col := 0; sdone := false; flow_level := 0; tokens := []; taken := 0;
               indent := (-1)%Z; indents := []; allow_sk := true; psk := [] |} in
   match scan_plain s with Ok (tok, s') => t_kind tok = TScalar t true SPlain /\ rest s' = [NUL] | _ => False end).
Proof. exact Plain.plain_example. Qed.


(* KIND C02_dumped_document_grammatical : U *)
(* the dump side: for EVERY value, heap of containers (sharing and cycles included) and representer option set, the events the representer +
   serializer models write for one document are a document of the event grammar (collections closed and nested, as many values as keys, one
   root, an alias where a node was already written).  Proofs/SerializeGrammar.v: the representer only builds graphs whose node ids exist; the
   serializer's recursion is bounded by the number of nodes not yet written *)
Theorem C02_dumped_document_grammatical : forall o h root evs c, Represent.dump_doc o h root = Represent.ROk evs ->
  EmitGrammar.krun (ParserGrammar.GDocs :: c) (map SerializeGrammar.skind evs) = Some (ParserGrammar.GDocs :: c).
Proof. exact SerializeGrammar.dumped_document_grammatical. Qed.
Eval vm_compute in "ASSUME:C02_dumped_document_grammatical"%string. Print Assumptions C02_dumped_document_grammatical.
(* KIND C02_dumped_stream_accepted : U *)
(* representer, serializer and emitter models composed: a stream of such documents between STREAM-START and STREAM-END, handed to the emitter as
   events of the same kinds, never meets a structural EmitterError - under every emitter option set *)
Theorem C02_dumped_stream_accepted : forall docs evs canon allow_uni ind width lb,
  (forall d, In d docs -> exists o h root, Represent.dump_doc o h root = Represent.ROk d) ->
  map EmitGrammar.kind evs = (EmitGrammar.KStreamStart :: flat_map (map SerializeGrammar.skind) docs ++ [EmitGrammar.KStreamEnd])%list ->
  EmitGrammar.fine (snd (Emit.emit_all evs (Emit.init canon allow_uni ind width lb))).
Proof. exact SerializeGrammar.dumped_stream_accepted. Qed.
Eval vm_compute in "ASSUME:C02_dumped_stream_accepted"%string. Print Assumptions C02_dumped_stream_accepted.
(* KIND C02_dumped_cycle : F *)
(* non-vacuity: a list that contains itself and a mapping shared twice - the document has an anchor and aliases and is in the grammar *)
Example C02_dumped_cycle :
  let o := {| Represent.default_style := None; Represent.default_flow := None; Represent.sort_keys := true |} in
  let h := [Construct.CList [Construct.PInt 1; Construct.PRef 0; Construct.PRef 1; Construct.PRef 1]; Construct.CDict [(Construct.PStr [107%N], Construct.PNone)]] in
  match Represent.dump_doc o h (Construct.PRef 0) with
  | Represent.ROk evs => map SerializeGrammar.skind evs = [EmitGrammar.KDocStart; EmitGrammar.KSeqStart; EmitGrammar.KLeaf; EmitGrammar.KLeaf; EmitGrammar.KMapStart; EmitGrammar.KLeaf;
                           EmitGrammar.KLeaf; EmitGrammar.KMapEnd; EmitGrammar.KLeaf; EmitGrammar.KSeqEnd; EmitGrammar.KDocEnd] /\
               existsb (fun e => match e with Represent.SAlias (_ :: _) => true | _ => false end) evs = true
  | _ => False
  end.
Proof. exact SerializeGrammar.dumped_cycle. Qed.

(* KIND C02_int_roundtrip : U *)
(* EVERY integer the representer model writes (every z whose decimal form has at most 4300 digits - CPython's limit: beyond it str(int) refuses and
   the model's int_text returns None) is read back by the constructor model's construct_yaml_int as the same integer: sign, no leading zero, no
   octal / sexagesimal / underscore reading of a decimal text (Proofs/IntRoundTrip.v) *)
Theorem C02_int_roundtrip : forall z t, Represent.int_text z = Some t -> Construct.construct_int t = Construct.COk z.
Proof. exact IntRoundTrip.int_text_roundtrip. Qed.
Eval vm_compute in "ASSUME:C02_int_roundtrip"%string. Print Assumptions C02_int_roundtrip.

(* PARTIAL (FULL: forall v opts, load (dump v opts) ~ v): the double-quoted, single-quoted and (block-context) plain scalar layers without
   folding, the integer text round trip, the grammar of dumped documents and anchors-before-aliases are theorems.  Folding, flow-context plain
   scalars, the literal and folded block styles, the other value<->node conversions and node<->event for content are decided by the
   represent/serialize/emit/scan/parse/compose/construct correspondence and the direct round-trip run. *)
