(* C06 - The LibYAML back-end is a drop-in replacement for the pure-Python one.   ONLY statements + `exact lemma`.
   No C semantics is available in Coq (no libyaml source, no Cython, no VST/CompCert): the claim level is translation validation against the Coq model.
   The one theorem: both back-ends run the SAME Python stages after nodes (load) and before nodes (dump). *)
From Coq Require Import List String Bool.
Import ListNotations.
Require Import Registry GenHistory CallGraph GenCalls Dispatch Confinement ConfineLemmas ConfineC.
Open Scope string_scope.

(* KIND C06_c_classes_share_python_stages : F *)
Theorem C06_c_classes_share_python_stages :
  ctor_part "CSafeLoader" = ctor_part "SafeLoader" /\ ctor_part "CBaseLoader" = ctor_part "BaseLoader" /\
  ctor_part "CFullLoader" = ctor_part "FullLoader" /\ ctor_part "CUnsafeLoader" = ctor_part "UnsafeLoader" /\ ctor_part "CLoader" = ctor_part "Loader" /\
  forallb (fun x => negb (String.eqb (fst (fst x)) "Constructor")) methods = true /\
  forallb (fun k => match own_of "Constructor" k (own w0) with None => true | Some _ => false end) [KCtor; KMultiCtor] = true.
Proof. exact l_c_loaders_share_constructors. Qed.
Eval vm_compute in "ASSUME:C06_c_classes_share_python_stages". Print Assumptions C06_c_classes_share_python_stages.

(* KIND C06_c_classes_same_tables : F *)
(* every effective registry table (constructors, multi-constructors, representers, multi-representers, implicit resolvers) of a C class equals its Python counterpart's *)
Theorem C06_c_classes_same_tables : forallb (fun p => same_tables (fst p) (snd p)) c_pairs = true.
Proof. exact l_c_classes_same_tables. Qed.
Eval vm_compute in "ASSUME:C06_c_classes_same_tables". Print Assumptions C06_c_classes_same_tables.
