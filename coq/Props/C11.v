(* C11 - Every call and every document stands alone.   ONLY statements + `exact lemma`. *)
From Coq Require Import List NArith ZArith Bool Arith String.
Import ListNotations.
Require Import Scan Parse Construct GenGlobals GlobalsPolicy StandaloneLemmas.
Require ParseL ParserIsolation.

(* KIND C11_global_writes_confined : F *)
(* regenerated from lib/yaml: every write to a module- or class-level container, or to an attribute that may alias one, is either inside
   the registration API on a registry table or happens after the enclosing function rebound the attribute to a fresh literal *)
Theorem C11_global_writes_confined : forallb site_ok mutation_sites = true.
Proof. exact l_global_writes_confined. Qed.
Eval vm_compute in "ASSUME:C11_global_writes_confined"%string. Print Assumptions C11_global_writes_confined.

(* KIND C11_alias_edges_known : F *)
(* the only alias onto a class-level container is Parser.tag_handles = DEFAULT_TAGS (implicit documents); process_directives rebinds before writing *)
Theorem C11_alias_edges_known : edges_eqb alias_edges expected_alias_edges = true.
Proof. exact l_alias_edges_known. Qed.
Eval vm_compute in "ASSUME:C11_alias_edges_known"%string. Print Assumptions C11_alias_edges_known.

(* KIND C11_document_starts_fresh : U *)
(* in the load model EVERY document is composed from an empty anchor table and an empty node store, and constructed from an empty object cache:
   what a document defines is not visible in the next one *)
Theorem C11_document_starts_fresh : forall f base e rest_ acc ex v tags,
  e_kind e = VDocStart ex v tags ->
  docs_loop (S f) base (e :: rest_) acc =
  match compose_node (S (List.length (e :: rest_))) base {| evs := rest_; store := []; anchors := [] |} with
  | LOk (root, cs) =>
      match evs cs with [] => (acc, LScan OutOfFuel) | _ =>
      let k0 := {| nodes := store cs; hp := []; cache := []; recursive := []; gens := [] |} in
      let fuel2 := S (List.length (store cs)) * 4 + 8 in
      match (v <== construct_object fuel2 base root ;; _ <== drain (S (List.length (store cs)) * 2) ;; kret v) k0 with
      | LOk (v, k1) => docs_loop f base (tl (evs cs)) (acc ++ [(v, hp k1)])%list
      | r => lift_err acc r
      end end
  | r => lift_err acc r
  end.
Proof. exact l_document_starts_fresh. Qed.
Eval vm_compute in "ASSUME:C11_document_starts_fresh"%string. Print Assumptions C11_document_starts_fresh.

(* KIND C11_directives_do_not_leak : U *)
(* the parser model, EVERY token list, every point between two documents (the parser about to start a document, any stacks of states and marks),
   any fuel: whatever table of tag handles and whatever %YAML version the earlier documents left behind, the rest of the run - events, marks,
   error or normal end - is the same.  %TAG / %YAML directives of one document are never visible in a later one (Proofs/ParserIsolation.v:
   a relational reading of the parser monad over all 21 states) *)
Theorem C11_directives_do_not_leak : forall fuel acc ts p stk mks h v h' v', p = ParseL.PDocStart \/ p = ParseL.PImplicitDocStart ->
  ParseL.parse_loop fuel acc {| ParseL.toks := ts; ParseL.pstate_ := Some p; ParseL.pstates := stk; ParseL.pmarks := mks; ParseL.handles := h; ParseL.version_ := v |} =
  ParseL.parse_loop fuel acc {| ParseL.toks := ts; ParseL.pstate_ := Some p; ParseL.pstates := stk; ParseL.pmarks := mks; ParseL.handles := h'; ParseL.version_ := v' |}.
Proof. exact ParserIsolation.directives_do_not_leak. Qed.
Eval vm_compute in "ASSUME:C11_directives_do_not_leak"%string. Print Assumptions C11_directives_do_not_leak.
(* KIND C11_version_is_never_read : U *)
(* in EVERY parser state: the %YAML version kept in the state never influences anything the parser delivers *)
Theorem C11_version_is_never_read : forall fuel acc s v,
  ParseL.parse_loop fuel acc s = ParseL.parse_loop fuel acc {| ParseL.toks := ParseL.toks s; ParseL.pstate_ := ParseL.pstate_ s; ParseL.pstates := ParseL.pstates s;
                                                                ParseL.pmarks := ParseL.pmarks s; ParseL.handles := ParseL.handles s; ParseL.version_ := v |}.
Proof. exact ParserIsolation.version_is_never_read. Qed.
Eval vm_compute in "ASSUME:C11_version_is_never_read"%string. Print Assumptions C11_version_is_never_read.
(* KIND C11_handles_matter_inside_a_document : F *)
(* non-vacuity: inside a document the table does matter - the same tokens with a different table give a different run *)
Example C11_handles_matter_inside_a_document :
  let m := {| Scan.m_index := 0; Scan.m_line := 0; Scan.m_col := 0 |} in
  let tk k := {| Scan.t_kind := k; Scan.t_start := m; Scan.t_end := m |} in
  let ts := [tk (Scan.TTag (Some [33;101;33]%N) [120%N]); tk (Scan.TScalar [97%N] true Scan.SPlain); tk Scan.TStreamEnd] in
  let st h := {| ParseL.toks := ts; ParseL.pstate_ := Some ParseL.PBlockNode; ParseL.pstates := [ParseL.PDocEnd]; ParseL.pmarks := []; ParseL.handles := h; ParseL.version_ := None |} in
  ParseL.parse_loop 4 [] (st []) <> ParseL.parse_loop 4 [] (st [([33;101;33]%N, [116%N])]).
Proof. exact ParserIsolation.handles_matter_inside_a_document. Qed.

(* PARTIAL: stream_is_list_of_docs, parser_doc_independent (%YAML/%TAG of one document invisible in the next) and the dump-side resets are not
   proved; the models are pure functions of (input, class tables), so "same result whatever calls preceded" is carried by the correspondence
   of every layer plus the direct history run (random interleavings incl. failing calls and abandoned generators vs fresh interpreters, deep
   snapshots of every module/class-level container before and after). *)
