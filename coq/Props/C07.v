(* C07 - The result does not depend on how the input is delivered.   ONLY statements + `exact lemma`.
   D / decode / utf8_1 are the incremental UTF-8 decoder of Model/Reader.v (codecs.utf_8_decode(data,'strict',final) with
   CPython's exact error offsets and its lazy ED A0 quirk); feed is the carry loop of Reader.update/update_raw. *)
From Coq Require Import List NArith Bool Arith String.
Import ListNotations.
Require Import Reader Chunk.
Require Chunk16 Detect.

(* KIND C07_feed_whole : U *)
(* feeding ANY list of reads (every size, splits inside multi-byte sequences included) non-finally, carrying the undecoded
   tail, and finishing finally = one final decode of the concatenation: same characters, or same error offset/byte/reason *)
Theorem C07_feed_whole : forall chunks carry acc base,
  feed carry chunks acc base =
  match D true (carry ++ List.concat chunks)%list 0 [] with DecOk d _ => FOk (acc ++ d)%list | DecErr st b r => FErr (base + st) b r end.
Proof. exact feed_whole. Qed.
Eval vm_compute in "ASSUME:C07_feed_whole"%string. Print Assumptions C07_feed_whole.

(* KIND C07_utf8_chunking_independent : U *)
Theorem C07_utf8_chunking_independent : forall chunks1 chunks2,
  List.concat chunks1 = List.concat chunks2 -> feed [] chunks1 [] 0 = feed [] chunks2 [] 0.
Proof. exact utf8_chunking_independent. Qed.
Eval vm_compute in "ASSUME:C07_utf8_chunking_independent"%string. Print Assumptions C07_utf8_chunking_independent.

(* KIND C07_decoder_fuel_irrelevant : U *)
(* the decoder needs at most |bytes|+1 steps: the fuel of the model is never what ends a decode (termination) *)
Theorem C07_decoder_fuel_irrelevant : forall f fin bs off acc, List.length bs < f -> decode f Utf8 fin bs off acc = D fin bs off acc.
Proof. exact decode_fuel. Qed.
Eval vm_compute in "ASSUME:C07_decoder_fuel_irrelevant"%string. Print Assumptions C07_decoder_fuel_irrelevant.

(* KIND C07_nonvacuous : F *)
(* a split inside a 3-byte sequence and inside a 4-byte sequence, and an invalid byte: both cuttings agree *)
Example C07_nonvacuous :
  feed [] [[226; 130]; [172; 240; 159]; [152; 128]]%N [] 0 = FOk [8364; 128512]%N /\
  feed [] [[226; 130; 172; 240; 159; 152; 128]]%N [] 0 = FOk [8364; 128512]%N /\
  feed [] [[97; 226]; [40]]%N [] 0 = feed [] [[97]; [226; 40]]%N [] 0.
Proof. vm_compute. repeat split; reflexivity. Qed.

(* KIND C07_utf16_feed_whole : U *)
(* the same for UTF-16, little and big endian (le): reads that cut a code unit or a surrogate pair anywhere *)
Theorem C07_utf16_feed_whole : forall (le : bool) chunks carry acc base,
  Chunk16.feed le carry chunks acc base =
  match Chunk16.D le true (carry ++ List.concat chunks)%list 0 [] with
  | DecOk d _ => Chunk16.FOk (acc ++ d)%list | DecErr st b r => Chunk16.FErr (base + st) b r end.
Proof. exact Chunk16.feed_whole. Qed.
Eval vm_compute in "ASSUME:C07_utf16_feed_whole"%string. Print Assumptions C07_utf16_feed_whole.
(* KIND C07_utf16_chunking_independent : U *)
Theorem C07_utf16_chunking_independent : forall (le : bool) chunks1 chunks2,
  List.concat chunks1 = List.concat chunks2 -> Chunk16.feed le [] chunks1 [] 0 = Chunk16.feed le [] chunks2 [] 0.
Proof. exact Chunk16.utf16_chunking_independent. Qed.
Eval vm_compute in "ASSUME:C07_utf16_chunking_independent"%string. Print Assumptions C07_utf16_chunking_independent.
(* KIND C07_utf16_decoder_fuel_irrelevant : U *)
Theorem C07_utf16_decoder_fuel_irrelevant : forall (le : bool) f fin bs off acc,
  List.length bs < f -> decode f (Chunk16.E16 le) fin bs off acc = Chunk16.D le fin bs off acc.
Proof. exact Chunk16.decode_fuel. Qed.
Eval vm_compute in "ASSUME:C07_utf16_decoder_fuel_irrelevant"%string. Print Assumptions C07_utf16_decoder_fuel_irrelevant.
(* KIND C07_utf16_nonvacuous : F *)
(* U+20AC and U+1F600 in UTF-16-LE cut inside a code unit and inside the surrogate pair; a lone low surrogate is an error at the same offset *)
Example C07_utf16_nonvacuous :
  Chunk16.feed true [] [[172]; [32; 61]; [216; 0]; [222]]%N [] 0 = Chunk16.FOk [8364; 128512]%N /\
  Chunk16.feed true [] [[172; 32; 61; 216; 0; 222]]%N [] 0 = Chunk16.FOk [8364; 128512]%N /\
  Chunk16.feed false [] [[0; 97; 220]; [0]]%N [] 0 = Chunk16.feed false [] [[0]; [97; 220; 0]]%N [] 0.
Proof. vm_compute. repeat split; reflexivity. Qed.

(* KIND C07_encoding_detection_independent_of_delivery : U *)
(* encoding detection (Reader.determine_encoding: keep reading until two bytes are there or the stream ends, then look for a UTF-16
   BOM): for EVERY byte sequence and EVERY read schedule the encoding chosen for the stream is a function of the whole byte string -
   its first two bytes - and therefore the one chosen when the same bytes are passed as a bytes object *)
Theorem C07_encoding_detection_independent_of_delivery : forall data szs,
  let s := {| sdata_b := data; sdata_s := []; is_text := false; sizes := szs |} in
  Detect.chosen (detect_loop (4 + (List.length data + 0)) (upd blank (Some s) 0 false [] 0 RawNone [])) = Some (Detect.enc_of data) /\
  Detect.chosen (detect_loop 4 (upd blank None 0 true [] 0 (RawBytes data) [])) = Some (Detect.enc_of data).
Proof. intros data szs s. split; [exact (Detect.encoding_detection_independent_of_delivery data szs)|reflexivity]. Qed.
Eval vm_compute in "ASSUME:C07_encoding_detection_independent_of_delivery"%string. Print Assumptions C07_encoding_detection_independent_of_delivery.

(* PARTIAL: reader_delivery_independent (line/column equal for
   all forms) are not proved; they are decided by the reader correspondence (all four input forms, read schedules, read()
   call log) and the direct run over all split positions.  FULL "same error regardless of form" is refuted when a second,
   earlier scanner/parser error exists (eager vs block-wise validation): see known findings. *)
