(* C20 - Work grows linearly with the size of the input.   ONLY statements + `exact lemma`. *)
From Coq Require Import List NArith ZArith Bool Arith String.
Import ListNotations.
Require Import CostScan CostLemmas.
Require Scan ParseL PT ParserSafe ParserTerm.
Require Emit EmitLemmas EmitQueue.
Require ScanSafe.

(* KIND C20_catalogue_doubling : F *)
(* the property's own quantifier is a finite catalogue x sizes n, 2n, 4n: for the 15 scanner-bound load families the number of reader-primitive calls of the scanner
   cost model (one tick per modelled peek/prefix/forward/get_mark call) at most doubles (15% tolerance, constant allowance) from 30 to 60 and from 60 to 120 repetitions *)
Theorem C20_catalogue_doubling : doubling_ok 30 = true /\ doubling_ok 60 = true.
Proof. exact l_catalogue_doubling. Qed.
Eval vm_compute in "ASSUME:C20_catalogue_doubling"%string. Print Assumptions C20_catalogue_doubling.

(* KIND C20_parser_work_linear : U *)
(* beyond the catalogue, for the parser stage: for EVERY token list STREAM-START ... single STREAM-END (any family, any size) the
   complete run of the parser model - it is total - takes at most 8n+16 steps and delivers at most that many events: linear work *)
Theorem C20_parser_work_linear : forall t r, Scan.t_kind t = Scan.TStreamStart -> PT.toks_ok r ->
  ParserTerm.total (snd (ParseL.parse_all (t :: r))) /\ (List.length (fst (ParseL.parse_all (t :: r))) <= 8 * List.length (t :: r) + 16)%nat.
Proof. exact ParserTerm.parser_work_linear. Qed.
Eval vm_compute in "ASSUME:C20_parser_work_linear"%string. Print Assumptions C20_parser_work_linear.

(* KIND C20_emit_queue_bounded : U *)
(* dump side, for EVERY event list and option set: whenever emit() has returned, at most three events wait in the emitter's queue (the look-ahead
   of a mapping start), no event is in hand and the cached analysis is empty - the emitter never accumulates events, so its work per call is
   bounded by the event it handles *)
Theorem C20_emit_queue_bounded : forall evs canon allow_uni ind width lb s',
  EmitLemmas.emit_state evs (Emit.init canon allow_uni ind width lb) = inl s' ->
  (List.length (Emit.events s') <= 3)%nat /\ Emit.cur_ev s' = None /\ Emit.anal s' = None /\ Emit.sty s' = None.
Proof. exact EmitQueue.emit_queue_bounded. Qed.
Eval vm_compute in "ASSUME:C20_emit_queue_bounded"%string. Print Assumptions C20_emit_queue_bounded.

(* KIND C20_token_request_within_linear_fuel : U *)
(* load side, the scanner's main loop, EVERY scanner state that satisfies the invariant of C03_scanner_never_crashes: one token request never runs out of
   fuel when the loop is given (number of unread characters + 1) iterations - every iteration of need_more_tokens / fetch_more_tokens consumes at least one
   character or ends the stream (C03_fetch_more_tokens_makes_progress), so a request costs at most n+1 fetches, and over a whole run every fetch
   but the last consumes input: the number of fetches is linear in the size of the text *)
Theorem C20_token_request_within_linear_fuel : forall (fuel : nat) s, ScanSafe.Inv s -> (ScanSafe.mu s <= fuel)%nat ->
  ScanSafe.wp (Scan.fill fuel) (fun _ s' => ScanSafe.Inv s') s.
Proof. exact ScanSafe.wp_fill. Qed.
Eval vm_compute in "ASSUME:C20_token_request_within_linear_fuel"%string. Print Assumptions C20_token_request_within_linear_fuel.

(* PARTIAL: the cost model covers the scanner only (exact for prefix/forward, within 15% for peek, checked by the cost correspondence against sys.setprofile counts);
   composer, constructor, representer, serializer and emitter work, the parser's work per step, and the remaining families are decided by the direct measurement of interpreter-level
   calls on the implementation at n, 2n, 4n.  The general claim "no family is super-linear" is not a theorem; simple_key_window is not proved. *)
