(* C15 - Dump output honours the formatting options it was given.   ONLY statements + `exact lemma`. *)
From Coq Require Import List NArith ZArith Bool Arith String.
Import ListNotations.
Require Import Emit EmitLemmas.
Require EmitSafe EmitChars EmitBreaks EmitFrame EmitIndent EmitGrows EmitMarkers.

(* KIND C15_options_normalised : U *)
(* for EVERY requested canonical/allow_unicode/indent/width/line_break: the effective indent is the requested one iff it is between 2 and 9, else 2;
   the effective width always exceeds twice the indent; the line break is one of CR, LF, CR LF *)
Theorem C15_options_normalised : forall canon uni ind width lb,
  let s := init canon uni ind width lb in
  2 <= best_indent s <= 9 /\
  (forall i, ind = Some i -> 2 <= i <= 9 -> best_indent s = i) /\
  ((ind = None \/ exists i, ind = Some i /\ (i < 2 \/ 9 < i)) -> best_indent s = 2) /\
  2 * best_indent s < best_width s /\
  (forall w, width = Some w -> 2 * best_indent s < w -> best_width s = w) /\
  (best_lb s = [13%N] \/ best_lb s = [10%N] \/ best_lb s = [13; 10]%N) /\
  canonical s = canon /\ allow_unicode s = uni.
Proof. exact l_opts_normalised. Qed.
Eval vm_compute in "ASSUME:C15_options_normalised"%string. Print Assumptions C15_options_normalised.

(* KIND C15_indent_stack_multiples : U *)
(* the indentation stack starts with, and every increase_indent keeps, only multiples of the effective indent (block entries are written at these columns) *)
Theorem C15_indent_stack_multiples : forall flow indentless s, ind_ok s ->
  exists s', increase_indent flow indentless s = Ok (tt, s') /\ ind_ok s' /\ best_indent s' = best_indent s.
Proof. exact l_increase_indent_ok. Qed.
Eval vm_compute in "ASSUME:C15_indent_stack_multiples"%string. Print Assumptions C15_indent_stack_multiples.
(* KIND C15_indent_stack_initial : U *)
Theorem C15_indent_stack_initial : forall canon uni ind width lb, ind_ok (init canon uni ind width lb).
Proof. exact l_init_ind_ok. Qed.

(* KIND C15_indent_is_a_multiple_of_the_effective_indent : U *)
(* the whole emitter, EVERY event list and option set, after every event: the current indent and every saved indent is a multiple of the effective
   indent (the requested one when it lies between 2 and 9, otherwise 2).  Proofs/EmitFrame.v (generated from Model/Emit.v, one lemma per function,
   46 of them) is a frame theorem - indent and indents are written by increase_indent and pop_indent only, the option fields by nothing - so any
   predicate of these fields that those two functions keep is kept by every function of the model *)
Theorem C15_indent_is_a_multiple_of_the_effective_indent : forall evs canon au ind width lb s',
  emit_state evs (init canon au ind width lb) = inl s' ->
  best_indent s' = EmitIndent.effective_indent ind /\ EmitIndent.mult (EmitIndent.effective_indent ind) (indent s') /\
  Forall (EmitIndent.mult (EmitIndent.effective_indent ind)) (indents s').
Proof. exact EmitIndent.indent_is_a_multiple_of_the_effective_indent. Qed.
Eval vm_compute in "ASSUME:C15_indent_is_a_multiple_of_the_effective_indent"%string. Print Assumptions C15_indent_is_a_multiple_of_the_effective_indent.
(* KIND C15_every_step_keeps_the_indent_invariant : U *)
(* ... and not only between events: handling one event, with everything it writes, keeps the invariant from ANY state that has it *)
Theorem C15_every_step_keeps_the_indent_invariant : forall b e s, EmitIndent.QInd b (EmitFrame.fr s) ->
  match emit1 e s with Ok (_, s') => EmitIndent.QInd b (EmitFrame.fr s') | _ => True end.
Proof. exact EmitIndent.every_step_keeps_the_indent_invariant. Qed.
Eval vm_compute in "ASSUME:C15_every_step_keeps_the_indent_invariant"%string. Print Assumptions C15_every_step_keeps_the_indent_invariant.
(* KIND C15_write_indent_lands_on_the_indent : U *)
(* write_indent - the only place where the indentation of a line is written - leaves the column exactly at the current indent (0 when there is
   none) and changes neither the indent, the saved indents nor the effective indent: the lines that start a block entry start at a multiple *)
Theorem C15_write_indent_lands_on_the_indent : forall s s', write_indent s = Ok (tt, s') ->
  column s' = match indent s with Some i => i | None => 0 end /\ indent s' = indent s /\ indents s' = indents s /\ best_indent s' = best_indent s.
Proof. exact EmitIndent.write_indent_lands_on_the_indent. Qed.
Eval vm_compute in "ASSUME:C15_write_indent_lands_on_the_indent"%string. Print Assumptions C15_write_indent_lands_on_the_indent.
(* KIND C15_options_never_change : U *)
(* the formatting options an emitter was created with are not changed by any event *)
Theorem C15_options_never_change : forall evs s s', emit_state evs s = inl s' ->
  canonical s' = canonical s /\ allow_unicode s' = allow_unicode s /\ best_indent s' = best_indent s /\ best_width s' = best_width s /\ best_lb s' = best_lb s.
Proof. exact EmitIndent.options_never_change. Qed.
Eval vm_compute in "ASSUME:C15_options_never_change"%string. Print Assumptions C15_options_never_change.
(* KIND C15_indent_example : F *)
(* indent=4;  k: {a: [b, b]}  in block style is written "k:\n    a:\n    - b\n    - b": while the items are written the current indent is 4 and None, 0, 4 are saved *)
Example C15_indent_example :
  let sc v := EScalar None None true false v None in
  let evs := [EStreamStart; EDocStart false None []; EMapStart None None true false; sc [107%N]; EMapStart None None true false; sc [97%N];
              ESeqStart None None true false; sc [98%N]; sc [98%N]] in
  match emit_state evs (init false false (Some 4) None [10%N]) with
  | inl s' => indent s' = Some 4 /\ indents s' = [None; Some 0; Some 4] /\
              List.concat (rev (out s')) = [107; 58; 10; 32; 32; 32; 32; 97; 58; 10; 32; 32; 32; 32; 45; 32; 98; 10; 32; 32; 32; 32; 45; 32; 98]%N /\
              EmitIndent.effective_indent (Some 4) = 4 /\ EmitIndent.effective_indent (Some 12) = 2 /\ EmitIndent.effective_indent (Some 1) = 2 /\
              EmitIndent.effective_indent None = 2
  | inr _ => False end.
Proof. exact EmitIndent.indent_example. Qed.

(* KIND C15_ascii_only_without_allow_unicode : U *)
(* for EVERY list of events - well-formed or not, any scalar contents, tags, anchors, %TAG directives - and every option set with allow_unicode
   off (canonical, indent, width, line break arbitrary): every chunk the emitter model writes, also before an EmitterError, consists of
   printable ASCII (32..126), CR and LF only.  Proofs/EmitChars.v: the analysis allows a style other than double-quoted only for texts that are
   clean; the double-quoted writer copies only unescaped printable ASCII between two escapes; prepared anchors, handles, prefixes and tags
   are alphanumeric / URI characters / %XX escapes; the table of tag handles holds validated handles only *)
Theorem C15_ascii_only_without_allow_unicode : forall evs canon ind width lb,
  forallb EmitChars.okd (fst (emit_all evs (init canon false ind width lb))) = true.
Proof. exact EmitChars.ascii_only_without_allow_unicode. Qed.
Eval vm_compute in "ASSUME:C15_ascii_only_without_allow_unicode"%string. Print Assumptions C15_ascii_only_without_allow_unicode.
(* KIND C15_output_defined_for_every_stream : U *)
(* and the run that writes them never crashes: for every event list and option set the emitter model ends with text or an EmitterError *)
Theorem C15_output_defined_for_every_stream : forall evs canon allow_uni ind width lb,
  EmitSafe.fine (snd (emit_all evs (init canon allow_uni ind width lb))).
Proof. exact EmitSafe.emitter_never_crashes. Qed.
Eval vm_compute in "ASSUME:C15_output_defined_for_every_stream"%string. Print Assumptions C15_output_defined_for_every_stream.
(* KIND C15_unicode_only_on_request : F *)
(* non-vacuity: the same stream holds a non-ASCII character with allow_unicode on and its \xE9 escape with allow_unicode off *)
Example C15_unicode_only_on_request :
  let evs := [EStreamStart; EDocStart false None []; EScalar None None true false [233%N] None; EDocEnd false; EStreamEnd] in
  forallb EmitChars.okd (fst (emit_all evs (init false true None None [10%N]))) = false /\
  fst (emit_all evs (init false false None None [10%N])) = [[33%N]; [32; 34]%N; [92; 120; 69; 57]%N; [34%N]; [10%N]].
Proof. exact EmitChars.unicode_is_written_only_on_request. Qed.

(* KIND C15_line_breaks_are_the_requested_one : U *)
(* for EVERY list of events and EVERY option set (allow_unicode on or off, any canonical / indent / width / line_break request): each chunk the
   emitter model hands to the stream - also before an EmitterError - is either the effective line break itself (CR, LF or CR LF as requested,
   C15_options_normalised) or contains neither CR nor LF.  So every CR and LF of the output belongs to a requested line break.
   Proofs/EmitBreaks.v: a piece of text handed over outside the writers' "breaks" mode holds no break character (index invariants of the
   single-quoted, folded and literal loops), line feeds of the text are written through write_line_break, a CR makes the analysis choose
   the double-quoted style, which escapes it *)
Theorem C15_line_breaks_are_the_requested_one : forall evs canon allow_uni ind width lb,
  let s0 := init canon allow_uni ind width lb in
  Forall (fun d => d = best_lb s0 \/ EmitBreaks.okd d = true) (fst (emit_all evs s0)).
Proof. exact EmitBreaks.line_breaks_are_the_requested_one. Qed.
Eval vm_compute in "ASSUME:C15_line_breaks_are_the_requested_one"%string. Print Assumptions C15_line_breaks_are_the_requested_one.
(* KIND C15_line_break_example : F *)
(* a literal text with LF under line_break CR LF: the LF is written as CR LF; CR and NEL in a plain-looking text are escaped *)
Example C15_line_break_example :
  let evs := [EStreamStart; EDocStart false None []; EScalar None None true true [97; 10; 98]%N (Some StLiteral); EDocEnd false;
              EDocStart true None []; EScalar None None true true [97; 13; 133; 98]%N None; EDocEnd false; EStreamEnd] in
  fst (emit_all evs (init false true None None [13; 10]%N)) =
  [[124; 45]%N; [13; 10]%N; [32; 32]%N; [97%N]; [13; 10]%N; [32; 32]%N; [98%N]; [13; 10]%N; [45; 45; 45]%N; [32; 34]%N; [97%N]; [92; 114]%N; [92; 78]%N; [98%N]; [34%N]; [13; 10]%N].
Proof. exact EmitBreaks.line_break_example. Qed.

(* KIND C15_version_directive_is_written : U *)
(* version=(1, x): the document start writes the directive chunk `%YAML 1.x` (any other major version is an EmitterError) *)
Theorem C15_version_directive_is_written : forall first explicit mi tags s,
  cur_ev s = Some (EDocStart explicit (Some (1%N, mi)) tags) ->
  match expect_document_start first s with
  | Ok (_, s') => exists post pre, out s' = (post ++ ([37; 89; 65; 77; 76; 32]%N ++ dec 1 ++ [46%N] ++ dec mi) :: pre)%list /\ EmitGrows.extends (out s) pre
  | _ => True end.
Proof. exact EmitMarkers.version_directive_is_written. Qed.
Eval vm_compute in "ASSUME:C15_version_directive_is_written"%string. Print Assumptions C15_version_directive_is_written.
(* KIND C15_explicit_start_writes_the_marker : U *)
(* explicit_start (and every document after the first, and every document with directives): the `---` marker is written *)
Theorem C15_explicit_start_writes_the_marker : forall first explicit version tags s,
  cur_ev s = Some (EDocStart explicit version tags) ->
  (explicit = true \/ first = false \/ version <> None \/ tags <> []) ->
  match expect_document_start first s with
  | Ok (_, s') => exists post pre, out s' = (post ++ [45; 45; 45]%N :: pre)%list /\ EmitGrows.extends (out s) pre
  | _ => True end.
Proof. exact EmitMarkers.explicit_documents_get_their_marker. Qed.
Eval vm_compute in "ASSUME:C15_explicit_start_writes_the_marker"%string. Print Assumptions C15_explicit_start_writes_the_marker.

(* KIND C15_canonical_scalars_are_double_quoted : U *)
(* canonical=True: every scalar is written double-quoted - whatever its text, the style asked for by the event, the implicit flags and the context *)
Theorem C15_canonical_scalars_are_double_quoted : forall impl0 v style s, canonical s = true ->
  exists s', choose_scalar_style impl0 v style s = Ok (ChDouble, s') /\ canonical s' = true /\ out s' = out s.
Proof. exact EmitMarkers.canonical_scalars_are_double_quoted. Qed.
Eval vm_compute in "ASSUME:C15_canonical_scalars_are_double_quoted"%string. Print Assumptions C15_canonical_scalars_are_double_quoted.

(* PARTIAL: the %TAG directive chunks and the absence of markers in implicit documents (markers_and_directives), result_type, output_rereadable_chars and canonical_parse are not proved on the
   emitter model; decided by the exact-text emitter correspondence and the direct text-level checker over the option product (both emitters). *)
