(* C15 - Dump output honours the formatting options it was given.   ONLY statements + `exact lemma`. *)
From Coq Require Import List NArith ZArith Bool Arith String.
Import ListNotations.
Require Import Emit EmitLemmas.

(* KIND C15_options_normalised : U *)
(* for EVERY requested canonical/allow_unicode/indent/width/line_break: the effective indent is the requested one iff it is between 2 and 9, else 2;
   the effective width always exceeds twice the indent; the line break is one of CR, LF, CR LF *)
Theorem C15_options_normalised : forall canon uni ind width lb,
  let s := init canon uni ind width lb in
  2 <= best_indent s <= 9 /\
  (forall i, ind = Some i -> 2 <= i <= 9 -> best_indent s = i) /\
  ((ind = None \/ exists i, ind = Some i /\ (i < 2 \/ 9 < i)) -> best_indent s = 2) /\
  2 * best_indent s < best_width s /\
  (forall w, width = Some w -> 2 * best_indent s < w -> best_width s = w) /\
  (best_lb s = [13%N] \/ best_lb s = [10%N] \/ best_lb s = [13; 10]%N) /\
  canonical s = canon /\ allow_unicode s = uni.
Proof. exact l_opts_normalised. Qed.
Eval vm_compute in "ASSUME:C15_options_normalised"%string. Print Assumptions C15_options_normalised.

(* KIND C15_indent_stack_multiples : U *)
(* the indentation stack starts with, and every increase_indent keeps, only multiples of the effective indent (block entries are written at these columns) *)
Theorem C15_indent_stack_multiples : forall flow indentless s, ind_ok s ->
  exists s', increase_indent flow indentless s = Ok (tt, s') /\ ind_ok s' /\ best_indent s' = best_indent s.
Proof. exact l_increase_indent_ok. Qed.
Eval vm_compute in "ASSUME:C15_indent_stack_multiples"%string. Print Assumptions C15_indent_stack_multiples.
(* KIND C15_indent_stack_initial : U *)
Theorem C15_indent_stack_initial : forall canon uni ind width lb, ind_ok (init canon uni ind width lb).
Proof. exact l_init_ind_ok. Qed.

(* PARTIAL: ascii_only, line_breaks_requested, markers_and_directives, result_type, output_rereadable_chars and canonical_parse are not proved on the
   emitter model; decided by the exact-text emitter correspondence and the direct text-level checker over the option product (both emitters). *)
