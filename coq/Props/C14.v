(* C14 - Mappings, merge keys, sets and ordered maps are built by their YAML 1.1 rules.   ONLY statements + `exact lemma`.
   dict_set / set_add are the dictionary and set insertion of the constructor model (Python key equality: 1 == 1.0 == True, one shared nan). *)
From Coq Require Import List NArith ZArith Bool Arith String.
Import ListNotations.
Require Import Scan Parse Construct ConstructLemmas.

(* KIND C14_equal_keys_first_position : U *)
(* inserting a key equal to one already present keeps the existing key object and its position; a new key goes to the end *)
Theorem C14_equal_keys_first_position : forall k v d, map fst (dict_set k v d) = if has_key k d then map fst d else (map fst d ++ [k])%list.
Proof. exact l_dict_set_keys. Qed.
Eval vm_compute in "ASSUME:C14_equal_keys_first_position"%string. Print Assumptions C14_equal_keys_first_position.

(* KIND C14_equal_keys_last_value_wins : U *)
Theorem C14_equal_keys_last_value_wins : forall k v d k1 v1, dict_find k d = Some (k1, v1) -> dict_find k (dict_set k v d) = Some (k1, v).
Proof. exact l_dict_set_last_value_wins. Qed.
Eval vm_compute in "ASSUME:C14_equal_keys_last_value_wins"%string. Print Assumptions C14_equal_keys_last_value_wins.

(* KIND C14_other_keys_untouched : U *)
Theorem C14_other_keys_untouched : forall k v d k', (forall x, key_eqb k' x = true -> key_eqb k x = false) -> key_eqb k' k = false ->
  dict_find k' (dict_set k v d) = dict_find k' d.
Proof. exact l_dict_set_other_untouched. Qed.
Eval vm_compute in "ASSUME:C14_other_keys_untouched"%string. Print Assumptions C14_other_keys_untouched.

(* KIND C14_document_order : U *)
(* a mapping without equal keys is built exactly in document order, for every number of pairs *)
Theorem C14_document_order : forall ps seen, fresh_keys ps seen = true ->
  fold_left (fun d kv => dict_set (fst kv) (snd kv) d) ps seen = (seen ++ ps)%list.
Proof. exact l_document_order. Qed.
Eval vm_compute in "ASSUME:C14_document_order"%string. Print Assumptions C14_document_order.

(* KIND C14_set_element_once : U *)
Theorem C14_set_element_once : forall k d, existsb (key_eqb k) d = true -> set_add k d = d.
Proof. exact l_set_add_present. Qed.
Eval vm_compute in "ASSUME:C14_set_element_once"%string. Print Assumptions C14_set_element_once.

(* KIND C14_nonvacuous : F *)
Example C14_nonvacuous :
  fresh_keys [(PStr [97]%N, PInt 1); (PInt 1, PInt 2)] [] = true /\ has_key (PFloat (FFin false 1 0)) [(PInt 1, PNone)] = true /\
  dict_set (PBool true) (PInt 9) [(PInt 1, PInt 2); (PStr [97]%N, PInt 3)] = [(PInt 1, PInt 9); (PStr [97]%N, PInt 3)].
Proof. vm_compute. repeat split; reflexivity. Qed.

(* PARTIAL: flatten_spec / dict_of_flatten (merge precedence, recursion), flatten_idempotent (shared sources) and the shape errors are
   not proved on the in-place flatten model; they are decided by the construct correspondence and by the direct run against an independent
   evaluator of the YAML 1.1 mapping/merge rules over generated mappings. *)
