(* C14 - Mappings, merge keys, sets and ordered maps are built by their YAML 1.1 rules.   ONLY statements + `exact lemma`.
   dict_set / set_add are the dictionary and set insertion of the constructor model (Python key equality: 1 == 1.0 == True, one shared nan). *)
From Coq Require Import List NArith ZArith Bool Arith String.
Import ListNotations.
Require Import Scan Parse Construct ConstructLemmas.
Require Flatten FlattenMany FlattenRec DictBuild.

(* KIND C14_equal_keys_first_position : U *)
(* inserting a key equal to one already present keeps the existing key object and its position; a new key goes to the end *)
Theorem C14_equal_keys_first_position : forall k v d, map fst (dict_set k v d) = if has_key k d then map fst d else (map fst d ++ [k])%list.
Proof. exact l_dict_set_keys. Qed.
Eval vm_compute in "ASSUME:C14_equal_keys_first_position"%string. Print Assumptions C14_equal_keys_first_position.

(* KIND C14_equal_keys_last_value_wins : U *)
Theorem C14_equal_keys_last_value_wins : forall k v d k1 v1, dict_find k d = Some (k1, v1) -> dict_find k (dict_set k v d) = Some (k1, v).
Proof. exact l_dict_set_last_value_wins. Qed.
Eval vm_compute in "ASSUME:C14_equal_keys_last_value_wins"%string. Print Assumptions C14_equal_keys_last_value_wins.

(* KIND C14_other_keys_untouched : U *)
Theorem C14_other_keys_untouched : forall k v d k', (forall x, key_eqb k' x = true -> key_eqb k x = false) -> key_eqb k' k = false ->
  dict_find k' (dict_set k v d) = dict_find k' d.
Proof. exact l_dict_set_other_untouched. Qed.
Eval vm_compute in "ASSUME:C14_other_keys_untouched"%string. Print Assumptions C14_other_keys_untouched.

(* KIND C14_document_order : U *)
(* a mapping without equal keys is built exactly in document order, for every number of pairs *)
Theorem C14_document_order : forall ps seen, fresh_keys ps seen = true ->
  fold_left (fun d kv => dict_set (fst kv) (snd kv) d) ps seen = (seen ++ ps)%list.
Proof. exact l_document_order. Qed.
Eval vm_compute in "ASSUME:C14_document_order"%string. Print Assumptions C14_document_order.

(* KIND C14_set_element_once : U *)
Theorem C14_set_element_once : forall k d, existsb (key_eqb k) d = true -> set_add k d = d.
Proof. exact l_set_add_present. Qed.
Eval vm_compute in "ASSUME:C14_set_element_once"%string. Print Assumptions C14_set_element_once.

(* KIND C14_nonvacuous : F *)
Example C14_nonvacuous :
  fresh_keys [(PStr [97]%N, PInt 1); (PInt 1, PInt 2)] [] = true /\ has_key (PFloat (FFin false 1 0)) [(PInt 1, PNone)] = true /\
  dict_set (PBool true) (PInt 9) [(PInt 1, PInt 2); (PStr [97]%N, PInt 3)] = [(PInt 1, PInt 9); (PStr [97]%N, PInt 3)].
Proof. vm_compute. repeat split; reflexivity. Qed.

(* KIND C14_flatten_without_merge_is_identity : U *)
(* flatten_mapping (the in-place model of constructor.py:180-213), any node store, any number of pairs: a mapping whose keys are
   neither `<<` nor `=` keys is left exactly as it is *)
Theorem C14_flatten_without_merge_is_identity : forall f id s n,
  nth_error (nodes s) id = Some n -> Flatten.plain_items (nodes s) (map_items n) -> List.length (map_items n) < f + f ->
  flatten (S f) id s = LOk (tt, s).
Proof. exact Flatten.flatten_without_merge_is_identity. Qed.
Eval vm_compute in "ASSUME:C14_flatten_without_merge_is_identity"%string. Print Assumptions C14_flatten_without_merge_is_identity.
(* KIND C14_flatten_one_merge : U *)
(* one `<<` key (anywhere among any number of other pairs) whose value is a mapping without merge keys of its own: the merged pairs are
   placed IN FRONT of the mapping's own pairs, the `<<` pair is removed, no other node changes.  Inserted in that order the own keys
   override the merged ones (C14_equal_keys_last_value_wins) and keep their own position only if the key is new
   (C14_equal_keys_first_position) *)
Theorem C14_flatten_one_merge : forall f' id s n pre k v post kn vn,
  nth_error (nodes s) id = Some n -> map_items n = (pre ++ (k, v) :: post)%list ->
  Flatten.plain_items (nodes s) pre -> Flatten.plain_items (nodes s) post ->
  nth_error (nodes s) k = Some kn -> str_eqb (n_tag kn) t_merge = true ->
  v <> id -> nth_error (nodes s) v = Some vn -> (exists l, n_kind vn = NMap l) -> Flatten.plain_items (nodes s) (map_items vn) ->
  List.length (map_items vn) < f' + f' -> List.length pre + List.length post + 2 <= S f' + S f' ->
  flatten (S (S f')) id s = LOk (tt, Flatten.upd s id (with_items n (map_items vn ++ pre ++ post)%list)).
Proof. exact Flatten.flatten_one_merge. Qed.
Eval vm_compute in "ASSUME:C14_flatten_one_merge"%string. Print Assumptions C14_flatten_one_merge.
(* KIND C14_flatten_merge_list : U *)
(* one `<<` key whose value is a LIST of mappings (any number, none with merge keys of its own): the pairs of the LAST mapping of the
   list come first, then the earlier ones, then the own pairs - an earlier source overrides a later one, the own keys override all *)
Theorem C14_flatten_merge_list : forall f' id s n pre k v post kn vn subs,
  nth_error (nodes s) id = Some n -> map_items n = (pre ++ (k, v) :: post)%list ->
  Flatten.plain_items (nodes s) pre -> Flatten.plain_items (nodes s) post ->
  nth_error (nodes s) k = Some kn -> str_eqb (n_tag kn) t_merge = true ->
  v <> id -> nth_error (nodes s) v = Some vn -> n_kind vn = NSeq subs -> ~ In id subs ->
  (forall x, In x subs -> Flatten.plain_map_at (nodes s) (f' + f') x) ->
  List.length pre + List.length post + 2 <= S f' + S f' ->
  flatten (S (S f')) id s = LOk (tt, Flatten.upd s id (with_items n (List.concat (rev (map (Flatten.items_at (nodes s)) subs)) ++ pre ++ post)%list)).
Proof. exact Flatten.flatten_merge_list. Qed.
Eval vm_compute in "ASSUME:C14_flatten_merge_list"%string. Print Assumptions C14_flatten_merge_list.
(* KIND C14_flatten_nonvacuous : F *)
(* `{a: _, <<: {p: _}, b: _}` in a concrete node store: the pairs become [p; a; b]; and a `<<: [m1, m2]` list gives [m2's; m1's; own] *)
Example C14_flatten_nonvacuous :
  let m0 := {| m_index := 0; m_line := 0; m_col := 0 |} in
  let sc t := {| n_tag := t; n_kind := NScalar [97%N] SPlain; n_start := m0 |} in
  let mp l := {| n_tag := t_map; n_kind := NMap l; n_start := m0 |} in
  let sq l := {| n_tag := t_seq; n_kind := NSeq l; n_start := m0 |} in
  let st1 := [mp [(1, 2); (3, 4); (5, 6)]; sc t_str; sc t_str; sc t_merge; mp [(7, 8)]; sc t_str; sc t_int; sc t_str; sc t_str] in
  let st2 := [mp [(1, 2); (3, 4)]; sc t_str; sc t_str; sc t_merge; sq [5; 6]; mp [(7, 8)]; mp [(9, 10)]; sc t_str; sc t_str; sc t_str; sc t_str] in
  let k ns := {| nodes := ns; hp := []; cache := []; recursive := []; gens := [] |} in
  match flatten 6 0 (k st1), flatten 6 0 (k st2) with
  | LOk (_, s1), LOk (_, s2) => option_map map_items (nth_error (nodes s1) 0) = Some [(7, 8); (1, 2); (5, 6)] /\
                                option_map map_items (nth_error (nodes s2) 0) = Some [(9, 10); (7, 8); (1, 2)]
  | _, _ => False end.
Proof. vm_compute. split; reflexivity. Qed.

(* KIND C14_flatten_any_number_of_merges : U *)
(* ANY number of `<<` keys, anywhere among the pairs (adjacent ones included), each merging a mapping that has no merge key of its own, in any
   node store: afterwards the mapping holds the merged pairs in the order of the merge keys - a later merge key comes later, so, inserted in
   this order, it overrides an earlier one - followed by its own pairs in their order (they override every merged pair); every `<<` pair
   is gone; no other node has changed (Proofs/FlattenMany.v: induction over the pairs with the in-place updates of the node) *)
Theorem C14_flatten_any_number_of_merges : forall f' id s n items m o,
  nth_error (nodes s) id = Some n -> n_kind n = NMap items -> FlattenMany.shape (nodes s) id (f' + f') items m o -> List.length items < S f' + S f' ->
  exists s', flatten (S (S f')) id s = LOk (tt, s') /\ nth_error (nodes s') id = Some (with_items n (m ++ o)%list) /\
             (forall j, j <> id -> nth_error (nodes s') j = nth_error (nodes s) j).
Proof. exact FlattenMany.flatten_any_number_of_merges. Qed.
Eval vm_compute in "ASSUME:C14_flatten_any_number_of_merges"%string. Print Assumptions C14_flatten_any_number_of_merges.
(* KIND C14_two_adjacent_merges : F *)
(* non-vacuity: {<<: {a: 1}, <<: {b: 2}, c: 3} has the shape of the theorem and flattens to [a; b; c] *)
Example C14_two_adjacent_merges :
  let mk0 := {| m_index := 0; m_line := 0; m_col := 0 |} in
  let sc t v := {| n_tag := t; n_kind := NScalar v SPlain; n_start := mk0 |} in
  let mp l := {| n_tag := t_map; n_kind := NMap l; n_start := mk0 |} in
  let ns := [mp [(1, 2); (3, 4); (5, 6)]; sc t_merge [60; 60]%N; mp [(7, 8)]; sc t_merge [60; 60]%N; mp [(9, 10)]; sc t_str [99%N]; sc t_int [51%N];
             sc t_str [97%N]; sc t_int [49%N]; sc t_str [98%N]; sc t_int [50%N]] in
  let s := {| nodes := ns; hp := []; cache := []; recursive := []; gens := [] |} in
  FlattenMany.shape ns 0 4 [(1, 2); (3, 4); (5, 6)] [(7, 8); (9, 10)] [(5, 6)] /\
  match flatten 4 0 s with LOk (_, s') => option_map map_items (nth_error (nodes s') 0) = Some [(7, 8); (9, 10); (5, 6)] | _ => False end.
Proof. exact FlattenMany.two_adjacent_merges. Qed.

(* KIND C14_flatten_nested_merges : U *)
(* NESTED merges, to any depth: a merged mapping may have merge keys of its own, the value of a merge key may be a mapping or a list of
   mappings, `=` keys may occur anywhere, and sources may be SHARED (one anchored mapping merged into many others, or twice into one list).
   rk is any ranking of the node ids along which every merge source has a smaller rank than the mapping merging it (the merge graph has no
   cycle).  FlattenRec.Flat rk ns f id r reads the fully flattened pair list r of mapping id off the node store ns as it is BEFORE the call, by
   the YAML 1.1 rules: the merged pairs in the order of the merge keys (for a list value the last mapping of the list first), every source
   flattened the same way, then the own pairs; f bounds the depth and the lengths (the model's fuel).  Then flatten_mapping terminates
   without an error, node id holds exactly r, and EVERY node afterwards has its old kind and contents or - a mapping reached through merge
   keys - its own fully flattened list; the only tag that may change is a `=` key's, to str.  (Proofs/FlattenRec.v: induction on the depth;
   inside, induction over the pairs with the in-place updates; a source met again is already flat and is left as it is.) *)
Theorem C14_flatten_nested_merges : forall rk f id r s, FlattenRec.Flat rk (nodes s) f id r ->
  exists s', flatten f id s = LOk (tt, s') /\ (exists n', nth_error (nodes s') id = Some n' /\ n_kind n' = NMap r) /\
    forall j, match nth_error (nodes s) j, nth_error (nodes s') j with
              | Some n0, Some n => FlattenRec.tagrel (n_tag n0) (n_tag n) /\
                                  (n_kind n = n_kind n0 \/ exists f1 r1, FlattenRec.Flat rk (nodes s) f1 j r1 /\ n_kind n = NMap r1)
              | None, None => True | _, _ => False end.
Proof. exact FlattenRec.flatten_nested_merges. Qed.
Eval vm_compute in "ASSUME:C14_flatten_nested_merges"%string. Print Assumptions C14_flatten_nested_merges.
(* KIND C14_flattened_list_is_unique : U *)
(* the flattened list of a mapping is determined by the node store: it does not depend on the depth bound or on the ranking's values *)
Theorem C14_flattened_list_is_unique : forall rk ns f id r, FlattenRec.Flat rk ns f id r -> forall f' r', FlattenRec.Flat rk ns f' id r' -> r = r'.
Proof. exact FlattenRec.Flat_det. Qed.
Eval vm_compute in "ASSUME:C14_flattened_list_is_unique"%string. Print Assumptions C14_flattened_list_is_unique.
(* KIND C14_flattened_keys_are_not_merge_keys : U *)
Theorem C14_flattened_keys_are_not_merge_keys : forall rk ns f id r, FlattenRec.Flat rk ns f id r ->
  forall k v, In (k, v) r -> exists kn, nth_error ns k = Some kn /\ str_eqb (n_tag kn) t_merge = false.
Proof. exact FlattenRec.Flat_keys. Qed.
Eval vm_compute in "ASSUME:C14_flattened_keys_are_not_merge_keys"%string. Print Assumptions C14_flattened_keys_are_not_merge_keys.
(* KIND C14_nested_shared_merges : F *)
(* non-vacuity:  a: &a {x: 1}   b: &b {<<: *a, y: 2}   c: {<<: [*b, *a], z: 3}  - nested, shared, and a list.  Node 0 is c, 5 is b, 6 is a:
   c becomes [x; x; y; z] (inserted in this order: b's y, a's x, own z), b becomes [x; y] in place, a is untouched *)
Example C14_nested_shared_merges :
  let mk0 := {| m_index := 0; m_line := 0; m_col := 0 |} in
  let sc t v := {| n_tag := t; n_kind := NScalar v SPlain; n_start := mk0 |} in
  let mp l := {| n_tag := t_map; n_kind := NMap l; n_start := mk0 |} in
  let sq l := {| n_tag := t_seq; n_kind := NSeq l; n_start := mk0 |} in
  let ns := [mp [(1, 2); (3, 4)]; sc t_merge [60; 60]%N; sq [5; 6]; sc t_str [122%N]; sc t_int [51%N];
             mp [(7, 6); (8, 9)]; mp [(10, 11)]; sc t_merge [60; 60]%N; sc t_str [121%N]; sc t_int [50%N]; sc t_str [120%N]; sc t_int [49%N]] in
  let s := {| nodes := ns; hp := []; cache := []; recursive := []; gens := [] |} in
  let rk := fun j => match j with 0 => 2 | 5 => 1 | _ => 0 end in
  FlattenRec.Flat rk ns 4 0 [(10, 11); (10, 11); (8, 9); (3, 4)] /\
  match flatten 4 0 s with
  | LOk (_, s') => map (fun j => option_map map_items (nth_error (nodes s') j)) [0; 5; 6] =
                   [Some [(10, 11); (10, 11); (8, 9); (3, 4)]; Some [(10, 11); (8, 9)]; Some [(10, 11)]]
  | _ => False end.
Proof. exact FlattenRec.nested_shared_merges. Qed.

(* KIND C14_last_occurrence_wins : U *)
(* the dictionary construct_mapping builds (DictBuild.build = inserting the pairs in order with dict_set) from ANY list of pairs with string keys,
   on top of any dictionary d: every key has the value of its LAST occurrence in the list, or its value in d if it does not occur *)
Theorem C14_last_occurrence_wins : forall ps d s, DictBuild.str_keys ps ->
  option_map snd (dict_find (PStr s) (DictBuild.build ps d)) =
  match DictBuild.last_val (PStr s) ps with Some v => Some v | None => option_map snd (dict_find (PStr s) d) end.
Proof. exact DictBuild.last_occurrence_wins. Qed.
Eval vm_compute in "ASSUME:C14_last_occurrence_wins"%string. Print Assumptions C14_last_occurrence_wins.
(* KIND C14_own_pairs_override_merged : U *)
(* applied to what flatten_mapping leaves (C14_flatten_nested_merges: the merged pairs m, then the own pairs o), string keys: an own key has its
   own value whatever was merged; a key that is not an own key has the value of the LAST merged pair carrying it - so a later `<<` key overrides an
   earlier one and, since a list value contributes its last mapping first, an EARLIER mapping of a `<<: [a, b]` list overrides a later one *)
Theorem C14_own_pairs_override_merged : forall m o s, DictBuild.str_keys (m ++ o)%list ->
  option_map snd (dict_find (PStr s) (DictBuild.build (m ++ o)%list [])) =
  match DictBuild.last_val (PStr s) o with Some v => Some v | None => DictBuild.last_val (PStr s) m end.
Proof. exact DictBuild.own_pairs_override_merged. Qed.
Eval vm_compute in "ASSUME:C14_own_pairs_override_merged"%string. Print Assumptions C14_own_pairs_override_merged.
(* KIND C14_merge_example : F *)
(* {<<: {x: 1, y: 2}, x: 3}: flattened to [x:1; y:2; x:3]; the dictionary is {x: 3, y: 2} *)
Example C14_merge_example :
  let x := PStr [120%N] in let y := PStr [121%N] in
  DictBuild.build ([(x, PInt 1); (y, PInt 2)] ++ [(x, PInt 3)]) [] = [(x, PInt 3); (y, PInt 2)] /\
  DictBuild.str_keys ([(x, PInt 1); (y, PInt 2)] ++ [(x, PInt 3)]).
Proof. exact DictBuild.merge_example. Qed.

(* PARTIAL: the override order for keys that are not strings (numbers compare by value: 1 == 1.0 == True), cyclic merge graphs and the
   shape errors are not proved on the in-place flatten model; they are decided by the construct correspondence and by the direct run against an
   independent evaluator of the YAML 1.1 mapping/merge rules over generated mappings. *)
