From Coq Require Import List NArith Bool Lia.
Import ListNotations.
Open Scope N_scope.

(* char sets: list of inclusive ranges *)
Definition cset := list (N * N).
Definition cin (c : N) (s : cset) : bool := existsb (fun r => (fst r <=? c) && (c <=? snd r)) s.

Inductive re :=
| Emp | Eps | Chr (s : cset) | Cat (a b : re) | Alt (a b : re) | Star (a : re)
| And (a b : re) | Not (a : re).

Fixpoint re_eqb (a b : re) : bool :=
  match a, b with
  | Emp, Emp | Eps, Eps => true
  | Chr s, Chr t => (fix eq (x y : cset) := match x, y with
        | [], [] => true | (a1,b1)::x', (a2,b2)::y' => (a1 =? a2) && (b1 =? b2) && eq x' y' | _, _ => false end) s t
  | Cat a1 a2, Cat b1 b2 | Alt a1 a2, Alt b1 b2 | And a1 a2, And b1 b2 => re_eqb a1 b1 && re_eqb a2 b2
  | Star a1, Star b1 | Not a1, Not b1 => re_eqb a1 b1
  | _, _ => false
  end.

Fixpoint nullable (r : re) : bool :=
  match r with
  | Emp => false | Eps => true | Chr _ => false
  | Cat a b => nullable a && nullable b | Alt a b => nullable a || nullable b
  | Star _ => true | And a b => nullable a && nullable b | Not a => negb (nullable a)
  end.

(* smart constructors *)
Definition cat (a b : re) : re :=
  match a, b with Emp, _ => Emp | _, Emp => Emp | Eps, _ => b | _, Eps => a | _, _ => Cat a b end.
Fixpoint alt_mem (x : re) (r : re) : bool :=
  match r with Alt a b => alt_mem x a || alt_mem x b | _ => re_eqb x r end.
Definition alt (a b : re) : re :=
  match a, b with
  | Emp, _ => b | _, Emp => a
  | Not Emp, _ => Not Emp | _, Not Emp => Not Emp
  | _, _ => if alt_mem a b then b else if alt_mem b a then a else Alt a b end.
Definition and_ (a b : re) : re :=
  match a, b with
  | Emp, _ => Emp | _, Emp => Emp | Not Emp, _ => b | _, Not Emp => a
  | _, _ => if re_eqb a b then a else And a b end.
Definition not_ (a : re) : re := match a with Not b => b | _ => Not a end.

Fixpoint deriv (c : N) (r : re) : re :=
  match r with
  | Emp | Eps => Emp
  | Chr s => if cin c s then Eps else Emp
  | Cat a b => if nullable a then alt (cat (deriv c a) b) (deriv c b) else cat (deriv c a) b
  | Alt a b => alt (deriv c a) (deriv c b)
  | Star a => cat (deriv c a) (Star a)
  | And a b => and_ (deriv c a) (deriv c b)
  | Not a => not_ (deriv c a)
  end.

(* endpoints -> representatives *)
Fixpoint pts (r : re) : list N :=
  match r with
  | Emp | Eps => [] | Chr s => flat_map (fun p => [fst p; snd p + 1]) s
  | Cat a b | Alt a b | And a b => pts a ++ pts b | Star a | Not a => pts a end.
Definition reps (r : re) : list N := 0 :: pts r.   (* one rep per class start; 0 covers below *)

Fixpoint mem (x : re) (l : list re) : bool := match l with [] => false | y :: l' => re_eqb x y || mem x l' end.

(* worklist emptiness: returns Some true = empty, Some false = nonempty, None = fuel *)
Fixpoint explore (fuel : nat) (rs : list N) (todo seen : list re) : option (bool * nat) :=
  match fuel with O => None | S f =>
    match todo with
    | [] => Some (true, length seen)
    | r :: todo' =>
        if nullable r then Some (false, length seen)
        else if mem r seen then explore f rs todo' seen
        else explore f rs (map (fun c => deriv c r) rs ++ todo') (r :: seen)
    end end.
Definition is_empty (r : re) := explore 100000 (reps r) [r] [].

(* helpers *)
Definition ch (c : N) := Chr [(c,c)].
Definition rng (a b : N) := Chr [(a,b)].
Definition opt r := Alt Eps r.
Definition plus r := Cat r (Star r).
Fixpoint lit (l : list N) : re := match l with [] => Eps | c :: l' => Cat (ch c) (lit l') end.
Definition sigma := Chr [(0, 1114111)].
Definition any := Star sigma.
Definition dollar := opt (ch 10).

Definition digit := rng 48 57.
Definition sign := opt (Chr [(43,43);(45,45)]).
Definition d_ := Chr [(48,57);(95,95)].
(* int regex of resolver.py *)
Definition int_re :=
  Cat (Alt (Cat sign (Cat (lit [48;98]) (plus (Chr [(48,49);(95,95)]))))
      (Alt (Cat sign (Cat (ch 48) (plus (Chr [(48,55);(95,95)]))))
      (Alt (Cat sign (Alt (ch 48) (Cat (rng 49 57) (Star d_))))
      (Alt (Cat sign (Cat (lit [48;120]) (plus (Chr [(48,57);(65,70);(97,102);(95,95)]))))
           (Cat sign (Cat (rng 49 57) (Cat (Star d_) (plus (Cat (ch 58) (Cat (opt (rng 48 53)) digit)))))))))) dollar.
Definition expo := opt (Cat (Chr [(69,69);(101,101)]) (Cat (Chr [(43,43);(45,45)]) (plus digit))).
Definition float_re :=
  Cat (Alt (Cat sign (Cat digit (Cat (Star d_) (Cat (ch 46) (Cat (Star d_) expo)))))
      (Alt (Cat (ch 46) (Cat digit (Cat (Star d_) expo)))
      (Alt (Cat sign (Cat digit (Cat (Star d_) (Cat (plus (Cat (ch 58) (Cat (opt (rng 48 53)) digit))) (Cat (ch 46) (Star d_))))))
      (Alt (Cat sign (Cat (ch 46) (Alt (lit [105;110;102]) (Alt (lit [73;110;102]) (lit [73;78;70])))))
           (Cat (ch 46) (Alt (lit [110;97;110]) (Alt (lit [78;97;78]) (lit [78;65;78])))))))) dollar.
(* "has a digit of the base after 0x" : strings the converter accepts for hex *)
Definition first_in (s : cset) := Cat (Chr s) any.
Definition int_first := first_in [(43,43);(45,45);(48,57)].

Time Eval vm_compute in is_empty (And int_re float_re).                 (* disjoint? *)
Time Eval vm_compute in is_empty (And int_re (Not int_first)).          (* index complete *)
Time Eval vm_compute in is_empty (And float_re (Not (first_in [(43,43);(45,45);(48,57);(46,46)]))).
(* hex alt must contain a hex digit: expect NONEMPTY (0x_) *)
Definition hexd := Chr [(48,57);(65,70);(97,102)].
Definition needs_digit := Cat any (Cat hexd any).
Time Eval vm_compute in is_empty (And int_re (Not needs_digit)).
Time Eval vm_compute in is_empty (And int_re (Not int_re)).
