import sys, random, subprocess, math, datetime, struct
sys.path.insert(0,'/repo/lib')
import yaml
seed=int(sys.argv[1]) if len(sys.argv)>1 else 1; N=int(sys.argv[2]) if len(sys.argv)>2 else 3000
random.seed(seed)
def zb(z):
    if z==0: return '0'
    return ('-' if z<0 else '')+bin(abs(z))[2:]
def cps(s): return 'e' if len(s)==0 else ','.join(str(ord(c) if isinstance(c,str) else c) for c in s)
strs=['', 'a', 'yes', 'No', '1', '1.5', '1:30', '~', 'null', '<<', '=', '0x1F', '1e3', '.inf', '2001-01-01', 'a b', ' a', 'a\n', 'é', '---', 'x'*40, '- a', 'k: v', '!t', '&a', '*a', '12e03', '1_000', '0b1', '+.5', '08', '2001-12-14 21:59:43.10 -5']
def rfloat():
    r=random.random()
    if r<0.15: return random.choice([0.0,-0.0,1.0,-1.5,1e16,1e15,1e17,1e-4,1e-5,123456789012345680.0,0.1,0.2+0.1,1/3,2.5e-324,1.7976931348623157e308,float('inf'),float('-inf'),float('nan'),1e22,1e23,5e-324,9007199254740993.0,0.30000000000000004,100.0,1e21,123e-7])
    if r<0.6: return struct.unpack('<d', struct.pack('<Q', random.getrandbits(64)))[0]
    return random.choice([random.random(), random.uniform(-1e6,1e6), random.randint(-10**6,10**6)/random.choice([1,2,4,8,10,100,1000]), 10.0**random.randint(-30,30)*random.random()])
def rdate(): return datetime.date(random.randint(1,9999), random.randint(1,12), random.randint(1,28))
def rdt():
    tz=random.choice([None,None,datetime.timezone.utc, datetime.timezone(datetime.timedelta(hours=random.randint(-12,12), minutes=random.choice([0,30,45]))), datetime.timezone(datetime.timedelta(seconds=random.randint(-80000,80000)))])
    return datetime.datetime(random.randint(1,9999), random.randint(1,12), random.randint(1,28), random.randint(0,23), random.randint(0,59), random.randint(0,59), random.choice([0,0,1,500000,123456,999999]), tzinfo=tz)
def leaf():
    return random.choice([lambda: None, lambda: True, lambda: False, lambda: random.choice([0,1,-1,7,10**20,-10**30,2**64,10**300,10**40,255]), rfloat, lambda: random.choice(strs),
      lambda: bytes(random.getrandbits(8) for _ in range(random.choice([0,1,2,3,56,57,58,120]))), rdate, rdt])()
def key():
    return random.choice([lambda: random.choice(strs), lambda: random.choice([0,1,2,-5,10**20]), lambda: random.choice([1.5,2.0,-0.0, 1e300]), lambda: random.choice([True,False,None]), rdate, lambda: b'k', rdt])()
def build(d, pool):
    r=random.random()
    if pool and r<0.12: return random.choice(pool)
    if d<=0 or r<0.5: return leaf()
    if r<0.72:
        l=[]; pool.append(l)
        for _ in range(random.choice([0,1,2,3,4])): l.append(build(d-1,pool))
        return l
    if r<0.93:
        m={}; pool.append(m)
        for _ in range(random.choice([0,1,2,3,4])):
            try: m[key()]=build(d-1,pool)
            except TypeError: pass
        return m
    s=set()
    for _ in range(random.choice([0,1,2,3])):
        k=key()
        if k==k: s.add(k)
    pool.append(s); return s
def encode(root):
    addr={}; cells=[]
    def val(o):
        if o is None: return 'N'
        if o is True: return 'B1'
        if o is False: return 'B0'
        if isinstance(o,int): return 'I '+zb(o)
        if isinstance(o,float):
            if o!=o: return 'Fnan'
            if o==float('inf'): return 'Finf'
            if o==float('-inf'): return 'F-inf'
            sign='-' if math.copysign(1,o)<0 else '+'
            num,den=abs(o).as_integer_ratio(); k=den.bit_length()-1
            if num==0: return 'F %s 0 0'%sign
            while num%2==0: num//=2; k-=1
            return 'F %s %s %s'%(sign,zb(num),zb(-k))
        if isinstance(o,str): return 'S '+cps(o)
        if isinstance(o,bytes): return 'Y '+cps(o)
        if isinstance(o,datetime.datetime):
            off=o.utcoffset()
            return 'T %s %s %s %s %s %s %s %s'%(zb(o.year),zb(o.month),zb(o.day),zb(o.hour),zb(o.minute),zb(o.second),zb(o.microsecond),'None' if off is None else zb(int(off.total_seconds())))
        if isinstance(o,datetime.date): return 'D %s %s %s'%(zb(o.year),zb(o.month),zb(o.day))
        if id(o) in addr: return 'R %d'%addr[id(o)]
        a=len(cells); addr[id(o)]=a; cells.append(None)
        if isinstance(o,list): c='L %d '%len(o)+' '.join(val(x) for x in o)
        elif isinstance(o,dict): c='M %d '%len(o)+' '.join(val(k)+' '+val(v) for k,v in o.items())
        else: c='E %d '%len(o)+' '.join(val(k) for k in o)
        cells[a]=c.strip(); return 'R %d'%a
    r=val(root)
    return ' '.join(cells+['ROOT',r])
class Rec(yaml.SafeDumper):
    rec=None
    def emit(self, event): Rec.rec.append(event)
def o(s): return '-' if s is None else cps(s)
def b(x): return '1' if x else '0'
def show(e):
    n=type(e).__name__
    if n=='DocumentStartEvent': return 'DS'
    if n=='DocumentEndEvent': return 'DE'
    if n=='AliasEvent': return 'AL '+cps(e.anchor)
    if n=='ScalarEvent': return 'SC %s %s %s%s %s %s'%(o(e.anchor),cps(e.tag),b(e.implicit[0]),b(e.implicit[1]),cps(e.value),'-' if e.style is None else ord(e.style))
    if n=='SequenceStartEvent': return 'QS %s %s %s %s'%(o(e.anchor),cps(e.tag),b(e.implicit),b(e.flow_style))
    if n=='SequenceEndEvent': return 'QE'
    if n=='MappingStartEvent': return 'MS %s %s %s %s'%(o(e.anchor),cps(e.tag),b(e.implicit),b(e.flow_style))
    if n=='MappingEndEvent': return 'ME'
    return None
cases=[]
for it in range(N):
    v=build(random.choice([0,1,2,3,4]),[])
    opts=dict(default_style=random.choice([None,None,None,'"',"'",'|','>']), default_flow_style=random.choice([True,False,None]), sort_keys=random.choice([True,True,False]))
    cases.append((v,opts))
lines=[]
for v,op in cases:
    lines.append('%s %s %d %s'%('-' if op['default_style'] is None else ord(op['default_style']), '-' if op['default_flow_style'] is None else int(op['default_flow_style']), op['sort_keys'], encode(v)))
model=subprocess.run(['./dmodel'],input=('\n'.join(lines)+'\n').encode(),stdout=subprocess.PIPE).stdout.decode().split('\n')
bad=[]; kinds={}
for (v,op),m in zip(cases,model):
    Rec.rec=[]
    try:
        yaml.dump(v, Dumper=Rec, **op); exp=' ; '.join(x for x in map(show,Rec.rec) if x); k='ok'
    except yaml.YAMLError as e: exp=type(e).__name__; k=exp
    except Exception as e: exp=type(e).__name__; k=exp
    kinds[k]=kinds.get(k,0)+1
    if exp!=m: bad.append((v,op,exp,m))
print('cases',len(cases),kinds,'DISAGREE',len(bad))
bad.sort(key=lambda x: len(repr(x[0])))
for v,op,exp,m in bad[:6]:
    print('===',repr(v)[:200],op)
    ea=exp.split(' ; '); ma=m.split(' ; ')
    for i,(x,y) in enumerate(zip(ea+['-']*99,ma+['-']*99)):
        if x!=y: print('   impl :',x[:200]); print('   model:',y[:200]); break
