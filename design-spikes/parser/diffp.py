import sys, glob, random, subprocess, re, time
sys.path.insert(0,'/repo/lib')
import yaml
random.seed(int(sys.argv[1]) if len(sys.argv)>1 else 1)
N = int(sys.argv[2]) if len(sys.argv)>2 else 3000
def s(v): return 'e' if v=='' else ','.join(str(ord(c)) for c in v)
def o(v): return '-' if v is None else s(v)
def mark(m): return '%d %d %d' % (m.index, m.line, m.column)
def b(x): return '1' if x else '0'
def kind(e):
    n=type(e).__name__[:-5]
    if n=='DocumentStart':
        return 'DocumentStart %s %s %s'%(b(e.explicit), '-' if e.version is None else '%s.%s'%(s(str(e.version[0])),s(str(e.version[1]))), ';'.join('%s=%s'%(s(h),s(p)) for h,p in (e.tags or {}).items()))
    if n=='DocumentEnd': return 'DocumentEnd %s'%b(e.explicit)
    if n=='Alias': return 'Alias %s'%s(e.anchor)
    if n=='Scalar': return 'Scalar %s %s %s%s %s %s'%(o(e.anchor),o(e.tag),b(e.implicit[0]),b(e.implicit[1]), 'plain' if not e.style else e.style, s(e.value))
    if n in ('SequenceStart','MappingStart'): return '%s %s %s %s %s'%(n,o(e.anchor),o(e.tag),b(e.implicit),b(e.flow_style))
    return n
def run(text):
    out=[]
    try:
        for e in yaml.parse(text): out.append('E %s | %s | %s'%(kind(e),mark(e.start_mark),mark(e.end_mark)))
        out.append('END ok')
    except yaml.MarkedYAMLError as e:
        out.append('END %s %s | %s'%(type(e).__name__, 'none' if e.context_mark is None else mark(e.context_mark), mark(e.problem_mark)))
    except Exception as e: out.append('END Crash')
    return out
files = sorted(glob.glob('/repo/tests/legacy_tests/data/*'))
corpus=[]
for f in files:
    if f.endswith(('.code','.py')): continue
    try: corpus.append(open(f,'rb').read().decode('utf-8'))
    except Exception: pass
alphabet = list(" \n\t-:?[]{},#&*!|>'\"%@`\r\x85  ﻿a0.<=~\\xuU9f+_/")
def mutate(t):
    t=list(t)
    for _ in range(random.choice([0,1,1,2,4,8])):
        if not t: t=['a']
        i=random.randrange(len(t)); op=random.random()
        if op<0.3: del t[i]
        elif op<0.6: t.insert(i, random.choice(alphabet))
        elif op<0.8: t[i]=random.choice(alphabet)
        else:
            j=random.randrange(len(t)); t[i],t[j]=t[j],t[i]
    return ''.join(t)
cases=list(corpus)
while len(cases)<N:
    t=mutate(random.choice(corpus))
    if random.random()<0.3: t=t[:random.choice([10,40,200])]
    if random.random()<0.1: t=''.join(random.choice(alphabet) for _ in range(random.choice([1,2,3,5,8,13])))
    cases.append(t)
ok=[]
for t in cases:
    try: yaml.reader.Reader(t); ok.append(t)
    except yaml.YAMLError: pass
cases=ok
inp='\n'.join(' '.join(str(ord(c)) for c in t) for t in cases)+'\n'
p=subprocess.run(['./pmodel'],input=inp.encode(),stdout=subprocess.PIPE)
model=p.stdout.decode().split('\n'); mi=0; bad=[]; kinds={}
for t in cases:
    out=run(t); m=[]
    while True:
        line=model[mi]; mi+=1; m.append(line)
        if line.startswith('END'): break
    k=out[-1].split()[1]; kinds[k]=kinds.get(k,0)+1
    if m!=out: bad.append((t,out,m))
print('cases',len(cases),kinds,'DISAGREE',len(bad))
bad.sort(key=lambda x: len(x[0]))
for t,out,m in bad[:6]:
    print('=== input',repr(t)[:200])
    for i,(a,c) in enumerate(zip(out+['-']*50,m+['-']*50)):
        if a!=c: print('   first diff at',i); print('   impl :',a); print('   model:',c); break
