From Coq Require Import List Arith Bool Lia.
Import ListNotations.

(* classes, keys and values are abstract naturals here; one registry kind is enough for the spike *)
Definition cls := nat.
Definition key := nat.
Definition val := nat.
Definition tid := nat.                         (* identity of a dict object *)
Definition table := list (key * val).          (* insertion-ordered dict *)

Inductive cow := NoCopy | ShallowCopy.

Record world := {
  mro  : cls -> list cls;          (* linearisation, class itself first *)
  own  : cls -> option tid;        (* 'yaml_constructors' in cls.__dict__ *)
  heap : tid -> table;
  next : tid }.

Fixpoint first_own (w : world) (l : list cls) : option tid :=
  match l with [] => None | c :: l' => match own w c with Some t => Some t | None => first_own w l' end end.
Definition lookup (w : world) (c : cls) : option tid := first_own w (mro w c).
Definition effective (w : world) (c : cls) : table :=
  match lookup w c with Some t => heap w t | None => [] end.

Fixpoint upd (t : table) (k : key) (v : val) : table :=
  match t with [] => [(k, v)] | (k', v') :: t' => if Nat.eqb k k' then (k, v) :: t' else (k', v') :: upd t' k v end.

Definition set_heap (w : world) (t : tid) (tb : table) : world :=
  {| mro := mro w; own := own w; heap := fun t' => if Nat.eqb t' t then tb else heap w t'; next := next w |}.
Definition set_own (w : world) (c : cls) (t : tid) : world :=
  {| mro := mro w; own := fun c' => if Nat.eqb c' c then Some t else own w c'; heap := heap w; next := next w |}.
Definition bump (w : world) : world :=
  {| mro := mro w; own := own w; heap := heap w; next := S (next w) |}.

(* cls.add_constructor(k, v) under a given COW shape *)
Definition add (m : cow) (w : world) (c : cls) (k : key) (v : val) : world :=
  match own w c with
  | Some t => set_heap w t (upd (heap w t) k v)
  | None =>
      match m with
      | ShallowCopy =>
          let t := next w in
          let w1 := set_own (set_heap (bump w) t (effective w c)) c t in
          set_heap w1 t (upd (heap w1 t) k v)
      | NoCopy =>   (* the mutated code: writes through the inherited dict *)
          match lookup w c with
          | Some t => set_heap w t (upd (heap w t) k v)
          | None => w
          end
      end
  end.

(* well-formedness: own tids are below next, distinct classes own distinct dicts, mro c starts with c *)
Definition wf (w : world) : Prop :=
  (forall c t, own w c = Some t -> t < next w) /\
  (forall c d t, own w c = Some t -> own w d = Some t -> c = d) /\
  (forall c, exists l, mro w c = c :: l).

Lemma first_own_set_own_other w c t l :
  ~ In c l -> first_own (set_own w c t) l = first_own w l.
Proof.
  induction l as [|d l IH]; simpl; intros H; auto.
  destruct (Nat.eqb_spec d c) as [->|Hne]; [exfalso; auto|].
  destruct (own w d); auto.
Qed.

Lemma wf_add w c k v : wf w -> wf (add ShallowCopy w c k v).
Proof.
  intros (H1 & H2 & H3). unfold add. destruct (own w c) as [t|] eqn:E.
  - repeat split; simpl; auto.
  - repeat split; simpl.
    + intros c' t'. destruct (Nat.eqb_spec c' c); intros H; [injection H as <-; lia|]. apply H1 in H. lia.
    + intros c' d t'. destruct (Nat.eqb_spec c' c), (Nat.eqb_spec d c); intros A B; subst; auto.
      * injection A as <-. apply H1 in B. lia.
      * injection B as <-. apply H1 in A. lia.
      * eauto.
    + auto.
Qed.

(* which dict does d resolve to, before the first class of its MRO that owns one *)
Theorem add_effective w c k v : wf w ->
  effective (add ShallowCopy w c k v) c = upd (effective w c) k v.
Proof.
  intros (H1 & H2 & H3). destruct (H3 c) as [l Hl].
  unfold add. destruct (own w c) as [t|] eqn:E.
  - unfold effective, lookup; simpl. rewrite Hl; simpl. rewrite E. rewrite Nat.eqb_refl. reflexivity.
  - unfold effective at 1. unfold lookup; simpl. rewrite Hl; simpl. rewrite Nat.eqb_refl. simpl.
    rewrite !Nat.eqb_refl. reflexivity.
Qed.

Lemma first_own_ext w w' l : (forall c, own w' c = own w c) -> first_own w' l = first_own w l.
Proof. intros H. induction l as [|e l IH]; simpl; auto. rewrite H. destruct (own w e); auto. Qed.

Lemma first_own_owner w l t : first_own w l = Some t -> exists e, In e l /\ own w e = Some t.
Proof.
  induction l as [|e l IH]; simpl; [discriminate|]. destruct (own w e) as [te|] eqn:Ee.
  - intros H; injection H as ->. exists e; auto.
  - intros H. destruct (IH H) as (e' & A & B). exists e'; auto.
Qed.

(* The part of isolation that does not need MRO-prefix reasoning: classes that do not inherit from c. *)
Theorem add_isolated_unrelated w c k v d : wf w -> ~ In c (mro w d) ->
  effective (add ShallowCopy w c k v) d = effective w d.
Proof.
  intros (H1 & H2 & H3) Hnin. unfold add. destruct (own w c) as [t|] eqn:E.
  - unfold effective, lookup. simpl mro. rewrite (first_own_ext w) by reflexivity.
    destruct (first_own w (mro w d)) as [t'|] eqn:F; auto. simpl.
    destruct (Nat.eqb_spec t' t) as [->|]; auto.
    exfalso. destruct (first_own_owner _ _ _ F) as (e & A & B).
    assert (e = c) by (eapply H2; eauto). subst. auto.
  - unfold effective at 1. unfold lookup. simpl mro.
    set (w1 := set_own (set_heap (bump w) (next w) (effective w c)) c (next w)).
    rewrite (first_own_ext w1) by reflexivity.
    unfold w1. rewrite first_own_set_own_other by exact Hnin.
    rewrite (first_own_ext w) by reflexivity.
    unfold effective, lookup. destruct (first_own w (mro w d)) as [t'|] eqn:F; auto.
    destruct (first_own_owner _ _ _ F) as (e & A & B). apply H1 in B.
    simpl. rewrite Nat.eqb_refl.
    destruct (Nat.eqb_spec t' (next w)); [lia|]. simpl.
    destruct (Nat.eqb_spec t' (next w)); [lia|]. reflexivity.
Qed.

(* and the mutation is visible: with NoCopy a sibling sees the registration *)
Example nocopy_leaks :
  let w0 := {| mro := fun c => match c with 1 => [1;0] | 2 => [2;0] | _ => [c] end;
               own := fun c => match c with 0 => Some 0 | _ => None end;
               heap := fun _ => []; next := 1 |} in
  effective (add NoCopy w0 1 7 7) 2 = [(7,7)] /\ effective (add ShallowCopy w0 1 7 7) 2 = [].
Proof. vm_compute. split; reflexivity. Qed.
Print Assumptions add_isolated_unrelated.
