import sys, random, subprocess, glob, io
sys.path.insert(0,'/repo/lib')
import yaml
from yaml import *
seed=int(sys.argv[1]) if len(sys.argv)>1 else 1
N=int(sys.argv[2]) if len(sys.argv)>2 else 3000
random.seed(seed)
alphabet = ['a','b',' ',' ','\n','\n','\x85',' ','\t','-',':','#',"'",'"','\\','é','😀','﻿','0','~','!','&','*','[',']','{','}',',','?','|','>','%','@','`','\r','\x07','.','---','...','\xa0', 'word ', 'x'*30]
def rs():
    n=random.choice([0,0,1,2,3,5,8,13,30,90])
    return ''.join(random.choice(alphabet) for _ in range(n))
tags=[None,None,None,'!','!local','tag:yaml.org,2002:str','tag:yaml.org,2002:int','tag:example.com,2000:é x!y','!e!x','tag:yaml.org,2002:','x','!']
anchors=[None]*40+['a1','b-2','a1','c','bad anchor','']
def scalar():
    tag=random.choice(tags)
    impl=random.choice([(True,False),(False,True),(True,True),(False,False)])
    return [ScalarEvent(random.choice(anchors), tag, impl, rs(), style=random.choice([None,None,'','"',"'",'|','>']))]
def node(d):
    r=random.random()
    if d<=0 or r<0.45: return scalar()
    if r<0.5: return [AliasEvent(random.choice(['a1','x','a1','x','a1','x','a1','x','a1',None]))]
    if r<0.75:
        ev=[SequenceStartEvent(random.choice(anchors), random.choice(tags), random.random()<0.7, flow_style=random.choice([True,False,None]))]
        for _ in range(random.choice([0,1,2,3])): ev+=node(d-1)
        return ev+[SequenceEndEvent()]
    ev=[MappingStartEvent(random.choice(anchors), random.choice(tags), random.random()<0.7, flow_style=random.choice([True,False,None]))]
    for _ in range(random.choice([0,1,2,3])): ev+=node(d-1); ev+=node(d-1)
    return ev+[MappingEndEvent()]
def doc():
    return [DocumentStartEvent(explicit=random.choice([True,False]), version=random.choice([None]*12+[(1,1),(1,2),(1,1),(2,0)]), tags=random.choice([None,None,None,{'!e!':'tag:example.com,2000:'},{'!e!':'tag:example.com,2000:','!':'!my-'},{'bad':'x'},{'!é!':'x'},{'!e!':'tag:é'}]+[None]*60))]+node(random.choice([0,1,2,3,4]))+[DocumentEndEvent(explicit=random.choice([True,False]))]
def stream():
    evs=[StreamStartEvent()]
    for _ in range(random.choice([0,1,1,2,3])): evs+=doc()
    evs.append(StreamEndEvent())
    if random.random()<0.05 and len(evs)>2:   # ill-formed mutations
        i=random.randrange(len(evs)); op=random.random()
        if op<0.4: del evs[i]
        elif op<0.7: evs.insert(i, random.choice(evs))
        else:
            j=random.randrange(len(evs)); evs[i],evs[j]=evs[j],evs[i]
    return evs
def enc(s):
    if s is None: return '-'
    if s=='': return 'e'
    return ','.join(str(ord(c)) for c in s)
def enc_ev(e):
    n=type(e).__name__
    if n=='StreamStartEvent': return 'SS'
    if n=='StreamEndEvent': return 'SE'
    if n=='DocumentStartEvent':
        t=e.tags or {}
        return 'DS %d %s %d%s'%(bool(e.explicit), '-' if not e.version else '%d.%d'%e.version, len(t), ''.join(' %s %s'%(enc(h),enc(p)) for h,p in t.items()))
    if n=='DocumentEndEvent': return 'DE %d'%bool(e.explicit)
    if n=='AliasEvent': return 'AL %s'%enc(e.anchor)
    if n=='ScalarEvent': return 'SC %s %s %d %d %s %s'%(enc(e.anchor),enc(e.tag),e.implicit[0],e.implicit[1],enc(e.value), e.style if e.style else '-')
    if n=='SequenceStartEvent': return 'QS %s %s %d %d'%(enc(e.anchor),enc(e.tag),bool(e.implicit),bool(e.flow_style))
    if n=='SequenceEndEvent': return 'QE'
    if n=='MappingStartEvent': return 'MS %s %s %d %d'%(enc(e.anchor),enc(e.tag),bool(e.implicit),bool(e.flow_style))
    return 'ME'
cases=[]
for it in range(N):
    evs=stream()
    opts=dict(canonical=random.choice([None,None,True]), indent=random.choice([None,None,0,1,2,4,9,10,30]), width=random.choice([None,None,0,3,5,10,20,40,200]), allow_unicode=random.choice([None,True]), line_break=random.choice([None,None,'\n','\r\n','\r','x']))
    cases.append((evs,opts))
lines=[]
for evs,o in cases:
    lines.append('C %d %d %d %d %s %s'%(bool(o['canonical']),bool(o['allow_unicode']), -1 if o['indent'] is None else o['indent'], -1 if o['width'] is None else o['width'], enc(o['line_break']) if o['line_break'] else 'e', ' '.join(enc_ev(e) for e in evs)))
p=subprocess.run(['./emodel'],input=('\n'.join(lines)+'\n').encode(),stdout=subprocess.PIPE)
model=p.stdout.decode().split('\n')
bad=[]; kinds={}
class W:
    def __init__(s): s.c=[]
    def write(s,d): s.c.append(d)
for (evs,o),m in zip(cases,model):
    w=W()
    try:
        yaml.emit(evs, w, **o); st='OK'
    except yaml.emitter.EmitterError: st='ERR'
    except Exception as e: st='CRASH '+type(e).__name__
    out=','.join(str(ord(c)) for c in ''.join(w.c))+'|'+st
    kinds[st]=kinds.get(st,0)+1
    if out!=m: bad.append((evs,o,out,m))
print('cases',len(cases),kinds,'DISAGREE',len(bad))
bad.sort(key=lambda b: len(repr(b[0])))
def dec(s):
    t,st=s.rsplit('|',1)
    return ''.join(chr(int(x)) for x in t.split(',') if x), st
for evs,o,out,m in bad[:6]:
    print('=== ', evs, {k:v for k,v in o.items() if v is not None})
    print('   impl :', dec(out)); print('   model:', dec(m))
