import sys, glob, random, subprocess, math, datetime
sys.path.insert(0,'/repo/lib')
import yaml
seed=int(sys.argv[1]) if len(sys.argv)>1 else 1; N=int(sys.argv[2]) if len(sys.argv)>2 else 3000
random.seed(seed)
def zs(z):
    if z==0: return '0'
    return ('-' if z<0 else '')+'b'+bin(abs(z))[2:]
def fl(x):
    if x!=x: return 'Fnan'
    if x in (float('inf'),float('-inf')): return 'Finf' if x>0 else 'F-inf'
    sign='-' if math.copysign(1,x)<0 else '+'
    num,den=abs(x).as_integer_ratio(); k=den.bit_length()-1
    if num==0: return 'F%s0_0'%sign
    while num%2==0: num//=2; k-=1
    return 'F%s%s_%s'%(sign,zs(num),zs(-k))
def cps(s): return ','.join(str(ord(c)) for c in s)
def show(root):
    seen={}
    def v(o):
        if o is None: return 'N'
        if o is True: return 'B1'
        if o is False: return 'B0'
        if isinstance(o,int): return 'I'+zs(o)
        if isinstance(o,float): return fl(o)
        if isinstance(o,str): return 'S'+cps(o)
        if isinstance(o,bytes): return 'Y'+','.join(str(b) for b in o)
        if isinstance(o,datetime.datetime):
            off=o.utcoffset()
            return 'T%s/%s/%s/%s/%s/%s/%s/%s'%(zs(o.year),zs(o.month),zs(o.day),zs(o.hour),zs(o.minute),zs(o.second),zs(o.microsecond),'None' if off is None else zs(int(off.total_seconds())))
        if isinstance(o,datetime.date): return 'D%s/%s/%s'%(zs(o.year),zs(o.month),zs(o.day))
        if id(o) in seen: return 'R%d'%seen[id(o)]
        k=len(seen); seen[id(o)]=k
        if isinstance(o,list): body='L['+';'.join(v(x) for x in o)+']'
        elif isinstance(o,dict):
            parts=[]
            for a,b in o.items():
                ka=v(a); parts.append(ka+'=>'+v(b))
            body='M{'+';'.join(parts)+'}'
        elif isinstance(o,set): body='E{'+';'.join(sorted(v(x) for x in o))+'}'
        elif isinstance(o,tuple): x=v(o[0]); body='U('+x+';'+v(o[1])+')'
        else: body='?'+type(o).__name__
        return 'R%d=%s'%(k,body)
    return v(root)
def run(text, L):
    out=[]
    try:
        for d in yaml.load_all(text, Loader=L): out.append('DOC '+show(d))
        out.append('END ok')
    except yaml.YAMLError as e: out.append('END '+type(e).__name__)
    except Exception as e: out.append('END '+type(e).__name__)
    return out
files = sorted(glob.glob('/repo/tests/legacy_tests/data/*'))
corpus=[]
for f in files:
    if f.endswith(('.code','.py')): continue
    try: corpus.append(open(f,'rb').read().decode('utf-8'))
    except Exception: pass
scal=['1','-1_0','0x1F','0b1_0','017','0','+12','1:30','190:20:30','1.5','-.5','1e3','1.0e+3','6.8523015e+5','685.230_15e+03','685_230.15','190:20:30.15','.inf','-.INF','.NaN','0.1','1e-400','1.7976931348623157e+308','1e400','4.9e-324','2.5e-324','0x_','0b_','09','1__','1._','yes','No','TRUE','off','~','null','','<<','=','2001-12-14','2001-12-14t21:59:43.10-05:00','2001-12-14 21:59:43.10 -5','2001-12-15 2:59:43.10','2002-12-14','2001-13-01','2001-1-1','2001-02-29','2004-02-29 00:00:00Z','2001-01-01 25:00:00','2001-01-01T1:00:00+25','2001-01-01 1:00:00.123456789+01:30','abc','a b','!!int abc','!!int ""','!!int " 12 "','!!int 0x0x1','!!int "-0b-1"','!!float x','!!float 1e5','!!float nan','!!float " 1.5 "','!!bool maybe','!!bool YES','!!timestamp x','!!timestamp 2001-1-1','!!binary "YQ=="','!!binary "YQ"','!!binary "YW Jj\\nZA=="','!!binary "YQ==YQ=="','!!binary "=YQ=="','!!binary "Y=Q=="','!!binary é','!!str 12','!!null x','!!seq [a]','!!map {a: b}','!!set {a, b, a}','!!omap [a: 1, b: 2]','!!pairs [a: 1, a: 2]','!!omap [a]','!!set [a]','!!foo x','!!python/object:os.system x','! "yes\\n"','!!str {=: v}','!!int {=: 7}','!!timestamp {=: 2001-01-01}','&a [*a]','&a {k: *a}','[&x [1], *x, *x]','{1: a, 1.0: b, true: c}','{.nan: 1, .NaN: 2}','{a: 1, <<: {a: 2, b: 3}}','{<<: [{a: 1}, {a: 2, c: 3}], <<: {c: 4}}','? [a]\n: b','&a {*a : b}','&m {<<: *m, x: 1}']
alphabet=list(" \n-:[]{},#&*!|>'\"a0.1_+e<=~x")
def mutate(t):
    t=list(t)
    for _ in range(random.choice([0,1,1,2,4])):
        if not t: t=['a']
        i=random.randrange(len(t)); op=random.random()
        if op<0.3: del t[i]
        elif op<0.6: t.insert(i, random.choice(alphabet))
        elif op<0.8: t[i]=random.choice(alphabet)
        else:
            j=random.randrange(len(t)); t[i],t[j]=t[j],t[i]
    return ''.join(t)
cases=[]
for s0 in scal: cases.append(s0); cases.append('- '+s0+'\n- [x, '+s0.split('\n')[0]+' ]' if '\n' not in s0 else s0)
cases+=corpus
while len(cases)<N:
    r=random.random()
    if r<0.45: t=mutate(random.choice(corpus))
    elif r<0.8: t=mutate(random.choice(scal))
    else: t='\n'.join('k%d: %s'%(i,random.choice(scal).split('\n')[0]) for i in range(random.choice([1,2,4])))
    cases.append(t)
ok=[]
for t in cases:
    try: yaml.reader.Reader(t); ok.append(t)
    except yaml.YAMLError: pass
cases=ok
tot_bad=0
for base,L in ((0,yaml.SafeLoader),(1,yaml.BaseLoader)):
    inp='\n'.join('%d '%base+' '.join(str(ord(c)) for c in t) for t in cases)+'\n'
    model=subprocess.run(['./lmodel'],input=inp.encode(),stdout=subprocess.PIPE).stdout.decode().split('\n')
    mi=0; bad=[]; kinds={}
    for t in cases:
        out=run(t,L); m=[]
        while True:
            line=model[mi]; mi+=1; m.append(line)
            if line.startswith('END'): break
        kinds[out[-1]]=kinds.get(out[-1],0)+1
        if m!=out and m[-1]!='END UNMODELLED': bad.append((t,out,m))
        elif m[-1]=='END UNMODELLED': kinds['(unmodelled)']=kinds.get('(unmodelled)',0)+1
    print(L.__name__,'cases',len(cases),kinds,'DISAGREE',len(bad)); tot_bad+=len(bad)
    bad.sort(key=lambda x: len(x[0]))
    for t,out,m in bad[:8]:
        print('=== input',repr(t)[:160])
        for i,(a,c) in enumerate(zip(out+['-']*50,m+['-']*50)):
            if a!=c: print('   impl :',a[:300]); print('   model:',c[:300]); break
