import sys, random, subprocess, codecs, glob
sys.path.insert(0,'/repo/lib')
import yaml
from yaml.reader import Reader, ReaderError
seed=int(sys.argv[1]) if len(sys.argv)>1 else 1; N=int(sys.argv[2]) if len(sys.argv)>2 else 2000
random.seed(seed)
REASON={'invalid start byte':101,'invalid continuation byte':102,'unexpected end of data':103,'illegal encoding':104,'illegal UTF-16 surrogate':105,'truncated data':106}
class S:
    def __init__(s, data, sizes): s.d=data; s.sizes=list(sizes); s.n=0
    def read(s, n):
        k=s.sizes.pop(0) if s.sizes else 4096
        k=max(1,min(k,4096)); k=min(k,n); r=s.d[:k]; s.d=s.d[k:]; s.n+=1; return r
corpus=[]
for f in glob.glob('/repo/tests/legacy_tests/data/*.data')[:80]:
    try: corpus.append(open(f,'rb').read().decode('utf-8'))
    except Exception: pass
chars=list("ab \n\r\x85  é😀﻿\t:-")+['\x01','\x7f','\ud800','￾']
def text():
    r=random.random()
    if r<0.3: t=random.choice(corpus)
    elif r<0.5: t=random.choice(corpus)*random.choice([3,10,30])
    else: t=''.join(random.choice(chars[:-4] if random.random()<0.8 else chars) for _ in range(random.choice([0,1,2,3,7,50,5000,9000])))
    return t
def mutate_bytes(b):
    b=bytearray(b)
    for _ in range(random.choice([0,0,0,1,2])):
        if not b: break
        i=random.randrange(len(b)); op=random.random()
        if op<0.5: b[i]=random.choice([0xff,0x80,0xc0,0xe2,0xed,0xf0,0xd8,0xdc,0x00,0xa0])
        elif op<0.8: del b[i]
        else: b.insert(i, random.choice([0xff,0x80,0xe2,0xf0,0xd8,0x20]))
    return bytes(b)
cases=[]
for it in range(N):
    t=text()
    form=random.choice(['str','bytes','tstream','bstream'])
    sizes=random.choice([[],[1]*40,[2]*40,[3,1,4096],[4095],[4096,1],[random.randint(1,9) for _ in range(30)],[1]*3+[4096]])
    if form in ('str','tstream'):
        data=t; payload=[ord(c) for c in t]
    else:
        try:
            enc=random.choice(['utf-8','utf-8','utf-8-sig','utf-16-le','utf-16-be'])
            if enc=='utf-16-le': data=codecs.BOM_UTF16_LE+t.encode('utf-16-le','surrogatepass')
            elif enc=='utf-16-be': data=codecs.BOM_UTF16_BE+t.encode('utf-16-be','surrogatepass')
            elif enc=='utf-8-sig': data=codecs.BOM_UTF8+t.encode('utf-8','surrogatepass')
            else: data=t.encode('utf-8','surrogatepass')
        except Exception: continue
        data=mutate_bytes(data); payload=list(data)
    ops=[]; budget=len(t)+1 if random.random()<0.85 else 10**9; used=0
    for _ in range(random.choice([3,10,40,200])):
        op=random.choice([0,0,1,2,2,2]); k=random.choice([0,1,1,2,3,5,20,100,3000,5000])
        if op==2:
            if used+k>=budget: k=max(0,min(k,budget-used-1))
            used+=k
        elif op==0 and used+k>=budget: k=max(0,budget-used-1)
        ops.append((op,k))
    cases.append((form,data,payload,sizes,ops))
lines=[]
for form,data,payload,sizes,ops in cases:
    lines.append('%s %s %s %s'%(form, ','.join(map(str,payload)) or '-', ','.join(map(str,sizes)) or '-', ','.join('%d,%d'%o for o in ops)))
out=subprocess.run(['./rmodel'],input=('\n'.join(lines)+'\n').encode(),stdout=subprocess.PIPE).stdout.decode().split('\n')
bad=[]; kinds={}
for (form,data,payload,sizes,ops),m in zip(cases,out):
    obs=[]; st=None
    try:
        if form in ('str','bytes'): r=Reader(data); src=None
        else: src=S(data,sizes); r=Reader(src)
        for op,k in ops:
            if op==0: obs.append('c%d'%ord(r.peek(k)))
            elif op==1: obs.append('s'+','.join(str(ord(c)) for c in r.prefix(k)))
            else:
                r.forward(k); obs.append('p%d/%d/%d/%d/%d'%(r.index,r.line,r.column,r.stream_pointer, src.n if src else 0))
        st='ok'
    except ReaderError as e:
        ch=e.character if isinstance(e.character,int) else ord(e.character)
        st='ReaderError %d %d %d'%(e.position, ch, REASON.get(e.reason,0))
    except IndexError: st='Crash'
    exp=' '.join(obs)+' | '+st
    kinds[st.split()[0]]=kinds.get(st.split()[0],0)+1
    if exp!=m: bad.append((form,data[:60],sizes[:5],ops[:8],exp[-200:],m[-200:]))
print('cases',len(cases),kinds,'DISAGREE',len(bad))
for b in bad[:5]: print('===',b[0],repr(b[1]),b[2],b[3]); print('   impl :',b[4]); print('   model:',b[5])
