import sys, glob, subprocess, random
sys.path.insert(0,'/repo/lib')
import yaml
names=('peek','prefix','forward','get_mark')
def counts(text):
    c=dict.fromkeys(names,0); total=[0]
    def prof(frame, ev, arg):
        if ev=='call':
            total[0]+=1
            n=frame.f_code.co_name
            if n in c and frame.f_code.co_filename.endswith('reader.py'): c[n]+=1
    toks=0
    sys.setprofile(prof)
    try:
        for t in yaml.scan(text): toks+=1
        st='ok'
    except yaml.YAMLError: st='err'
    finally: sys.setprofile(None)
    return st,toks,c,total[0]
corpus=[]
for f in sorted(glob.glob('/repo/tests/legacy_tests/data/*.data'))+sorted(glob.glob('/repo/tests/legacy_tests/data/*.canonical')):
    try: t=open(f,'rb').read().decode('utf-8'); yaml.reader.Reader(t); corpus.append(t)
    except Exception: pass
fam=[]
for n in (50,100,200,400):
    fam+= [('plain','a: '+'x'*n), ('entries','- item\n'*n), ('map','k%d: v\n'*1*n % tuple(range(n)) if False else ''.join('k%d: v\n'%i for i in range(n))), ('flow','['+', '.join('a' for _ in range(n))+']'),
           ('dq','"'+'word '*n+'"'), ('lit','|\n'+'  line\n'*n), ('comment','# c\n'*n+'a'), ('blank','\n'*n+'a'), ('nest','['*min(n,150)+']'*min(n,150)), ('docs','--- a\n'*n), ('anchors',''.join('- &a%d x\n'%i for i in range(n))), ('longkey','? '+'k'*n+'\n: v\n')]
cases=corpus+[t for _,t in fam]
inp='\n'.join(' '.join(str(ord(ch)) for ch in t) for t in cases)+'\n'
out=subprocess.run(['./cmodel'],input=inp.encode(),stdout=subprocess.PIPE).stdout.decode().split('\n')
bad=0; ok_n=0
for t,m in zip(cases,out):
    st,toks,c,total=counts(t)
    ms=m.split()
    if ms[0]!=st: continue
    if st!='ok': continue
    ok_n+=1
    mc=tuple(int(x) for x in ms[2:6]); pc=tuple(c[n] for n in names)
    if mc!=pc:
        bad+=1
        if bad<6: print('DIFF',repr(t)[:60],'model',mc,'impl',pc)
print('ok cases',ok_n,'count mismatches',bad)
print('family  n  model-ticks(peek+prefix+forward+get_mark)  impl-reader-calls  impl-total-python-calls  ratio')
for (name,t),m in zip(fam,out[len(corpus):]):
    st,toks,c,total=counts(t); ms=m.split(); mt=sum(int(x) for x in ms[2:6])
    print('%-8s %5d %8d %8d %8d  %.3f'%(name,len(t),mt,sum(c.values()),total, total/max(1,mt)))
