(* Spike: registry world with string keys, several kinds, dict identities; executes the regenerated import history *)
From Coq Require Import List String Bool Arith.
Import ListNotations.
Open Scope string_scope.

Definition cls := string.
Inductive kind := KCtor | KMultiCtor | KRepr | KMultiRepr | KImplicit.
Definition kind_eqb (a b : kind) : bool := match a, b with KCtor, KCtor | KMultiCtor, KMultiCtor | KRepr, KRepr | KMultiRepr, KMultiRepr | KImplicit, KImplicit => true | _, _ => false end.
Definition key := option string.                 (* None = the Python None key *)
Definition key_eqb (a b : key) : bool := match a, b with None, None => true | Some x, Some y => String.eqb x y | _, _ => false end.
Definition table := list (key * list string).    (* value = list of names (singleton except for implicit resolvers) *)
Inductive cow := NoCopy | ShallowCopy | PerKeyListCopy.

Record world := { mros : list (cls * list cls); own : list (cls * kind * nat); heap : list (nat * table); next : nat }.

Fixpoint assoc_s {A} (k : string) (l : list (string * A)) : option A :=
  match l with [] => None | (k1, v) :: l1 => if String.eqb k k1 then Some v else assoc_s k l1 end.
Fixpoint own_of (c : cls) (k : kind) (l : list (cls * kind * nat)) : option nat :=
  match l with [] => None | (c1, k1, t) :: l1 => if String.eqb c c1 && kind_eqb k k1 then Some t else own_of c k l1 end.
Fixpoint heap_get (t : nat) (h : list (nat * table)) : table :=
  match h with [] => [] | (t1, tb) :: h1 => if Nat.eqb t t1 then tb else heap_get t h1 end.
Fixpoint heap_set (t : nat) (tb : table) (h : list (nat * table)) : list (nat * table) :=
  match h with [] => [(t, tb)] | (t1, tb1) :: h1 => if Nat.eqb t t1 then (t, tb) :: h1 else (t1, tb1) :: heap_set t tb h1 end.
Definition mro_of (w : world) (c : cls) : list cls := match assoc_s c (mros w) with Some l => l | None => [c] end.
Fixpoint first_own (w : world) (k : kind) (l : list cls) : option nat :=
  match l with [] => None | c :: l1 => match own_of c k (own w) with Some t => Some t | None => first_own w k l1 end end.
Definition effective (w : world) (c : cls) (k : kind) : table :=
  match first_own w k (mro_of w c) with Some t => heap_get t (heap w) | None => [] end.

Fixpoint tset (tb : table) (k : key) (v : string) : table :=           (* d[k] = v *)
  match tb with [] => [(k, [v])] | (k1, v1) :: r => if key_eqb k k1 then (k1, [v]) :: r else (k1, v1) :: tset r k v end.
Fixpoint tappend (tb : table) (k : key) (v : string) : table :=        (* d.setdefault(k, []).append(v) *)
  match tb with [] => [(k, [v])] | (k1, v1) :: r => if key_eqb k k1 then (k1, (v1 ++ [v])%list) :: r else (k1, v1) :: tappend r k v end.

Inductive op :=
| DefClass (c : cls) (mro : list cls) (fresh : list kind)       (* class body defines these tables as new empty dicts *)
| Add (k : kind) (c : cls) (keys : list key) (v : string).

Definition step (cw : kind -> cow) (w : world) (o : op) : world :=
  match o with
  | DefClass c m fresh =>
      fold_left (fun w k => {| mros := mros w; own := (c, k, next w) :: own w; heap := (next w, []) :: heap w; next := S (next w) |})
                fresh {| mros := (c, m) :: mros w; own := own w; heap := heap w; next := next w |}
  | Add k c keys v =>
      let put := fun tb => fold_left (fun tb key => match k with KImplicit => tappend tb key v | _ => tset tb key v end) keys tb in
      match own_of c k (own w) with
      | Some t => {| mros := mros w; own := own w; heap := heap_set t (put (heap_get t (heap w))) (heap w); next := next w |}
      | None =>
          match cw k with
          | NoCopy => match first_own w k (mro_of w c) with
                      | Some t => {| mros := mros w; own := own w; heap := heap_set t (put (heap_get t (heap w))) (heap w); next := next w |}
                      | None => w end
          | _ => let t := next w in
                 {| mros := mros w; own := (c, k, t) :: own w; heap := (t, put (effective w c k)) :: heap w; next := S t |}
          end
      end
  end.
Definition run (cw : kind -> cow) (h : list op) : world := fold_left (step cw) h {| mros := []; own := []; heap := []; next := 0 |}.
Definition keys_of (tb : table) : list key := map fst tb.
