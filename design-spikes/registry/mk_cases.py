"""writes Cases.v: for every shipped class and table kind, the key list the real class has; coqc = agreement."""
import sys; sys.path.insert(0,'/repo/lib')
import yaml, yaml.constructor, yaml.representer, yaml.resolver, datetime, types, collections
def coq_str(s): return '"'+s.replace('"','""')+'"'
names={type(None):'type(None)', str:'str', bytes:'bytes', bool:'bool', int:'int', float:'float', list:'list', tuple:'tuple', dict:'dict', set:'set',
 datetime.date:'datetime.date', datetime.datetime:'datetime.datetime', complex:'complex', type:'type', collections.OrderedDict:'collections.OrderedDict',
 types.FunctionType:'types.FunctionType', types.BuiltinFunctionType:'types.BuiltinFunctionType', types.ModuleType:'types.ModuleType', object:'object'}
def key(k):
    if k is None: return 'None'
    if isinstance(k,str): return 'Some '+coq_str(k)
    return 'Some '+coq_str(names[k])
classes=['BaseLoader','SafeLoader','FullLoader','Loader','UnsafeLoader','CBaseLoader','CSafeLoader','CFullLoader','CLoader','CUnsafeLoader','BaseDumper','SafeDumper','Dumper','CBaseDumper','CSafeDumper','CDumper','SafeConstructor','FullConstructor','UnsafeConstructor','Resolver','BaseResolver','SafeRepresenter','Representer']
out=['From Coq Require Import List String.','Import ListNotations.','Require Import Registry2 GenHistory.','Open Scope string_scope.']
n=0
for c in classes:
    cls=getattr(yaml,c,None) or getattr(yaml.constructor,c,None) or getattr(yaml.representer,c,None) or getattr(yaml.resolver,c)
    for attr,k in (('yaml_constructors','KCtor'),('yaml_multi_constructors','KMultiCtor'),('yaml_representers','KRepr'),('yaml_multi_representers','KMultiRepr'),('yaml_implicit_resolvers','KImplicit')):
        if not hasattr(cls,attr): continue
        tb=getattr(cls,attr)
        if k=='KImplicit':
            exp='['+'; '.join('(%s, [%s])'%(key(ch), '; '.join(coq_str(t) for t,_ in lst)) for ch,lst in tb.items())+']'
            out.append('Example c%d : effective w0 %s %s = %s. Proof. vm_compute. reflexivity. Qed.'%(n,coq_str(c),k,exp))
        else:
            exp='['+'; '.join(key(x) for x in tb)+']'
            out.append('Example c%d : keys_of (effective w0 %s %s) = %s. Proof. vm_compute. reflexivity. Qed.'%(n,coq_str(c),k,exp))
        n+=1
    # MRO agreement (C3 of the translator vs Python)
    mro=[x.__name__ for x in cls.__mro__ if x.__name__!='object']
    out.append('Example m%d : mro_of w0 %s = [%s]. Proof. vm_compute. reflexivity. Qed.'%(n,coq_str(c),'; '.join(coq_str(x) for x in mro))); n+=1
open('Cases.v','w').write('\n'.join(out)+'\n'); print(n,'cases')
