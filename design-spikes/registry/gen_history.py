"""Spike of the GenHistory/GenCow translator: import-time registration program of lib/yaml as a Coq op list."""
import ast, sys
ROOT='/repo/lib/yaml/'
FILES=['reader','scanner','parser','composer','constructor','resolver','emitter','serializer','representer','loader','dumper','cyaml']
KIND={'add_constructor':'KCtor','add_multi_constructor':'KMultiCtor','add_representer':'KRepr','add_multi_representer':'KMultiRepr','add_implicit_resolver':'KImplicit'}
TABLE={'yaml_constructors':'KCtor','yaml_multi_constructors':'KMultiCtor','yaml_representers':'KRepr','yaml_multi_representers':'KMultiRepr','yaml_implicit_resolvers':'KImplicit'}
class TranslateError(Exception): pass
bases={}; ops=[]
def c3(name):
    def merge(seqs):
        res=[]
        seqs=[list(s) for s in seqs if s]
        while seqs:
            for s in seqs:
                h=s[0]
                if not any(h in t[1:] for t in seqs): break
            else: raise TranslateError('C3 failure for '+name)
            res.append(h)
            seqs=[[x for x in s if x!=h] for s in seqs]; seqs=[s for s in seqs if s]
        return res
    bs=bases[name]
    return [name]+merge([c3(b) for b in bs]+[list(bs)])
def coq_str(s): return '"'+s.replace('"','""')+'"'
def key_of(node):
    if isinstance(node, ast.Constant):
        if node.value is None: return 'None'
        if isinstance(node.value,str): return 'Some '+coq_str(node.value)
    return 'Some '+coq_str(ast.unparse(node))          # types: str, type(None), datetime.date ...
for f in FILES:
    tree=ast.parse(open(ROOT+f+'.py').read())
    for node in tree.body:
        if isinstance(node, ast.ClassDef):
            bs=[]
            for b in node.bases:
                n=ast.unparse(b)
                if n=='object': continue
                if n in ('YAMLError','MarkedYAMLError','Exception'): bs=None; break
                if n in ('CParser','CEmitter'): bases.setdefault(n,[])
                bs.append(n)
            if bs is None: continue
            if any(b not in bases for b in bs): raise TranslateError('%s: unknown base in %s'%(node.name,bs))
            bases[node.name]=bs
            fresh=[]
            for st in node.body:
                if isinstance(st, ast.Assign) and len(st.targets)==1 and isinstance(st.targets[0], ast.Name) and st.targets[0].id in TABLE:
                    if not (isinstance(st.value, ast.Dict) and not st.value.keys): raise TranslateError('%s.%s is not {}'%(node.name,st.targets[0].id))
                    fresh.append(TABLE[st.targets[0].id])
            ops.append('DefClass %s [%s] [%s]'%(coq_str(node.name), '; '.join(coq_str(c) for c in c3(node.name)), '; '.join(fresh)))
        elif isinstance(node, ast.Expr) and isinstance(node.value, ast.Call) and isinstance(node.value.func, ast.Attribute) and node.value.func.attr in KIND:
            c=node.value; k=KIND[c.func.attr]
            if not isinstance(c.func.value, ast.Name): raise TranslateError('target of %s at %s:%d'%(c.func.attr,f,node.lineno))
            cls=c.func.value.id
            if k=='KImplicit':
                tag=ast.literal_eval(c.args[0]); first=c.args[2]
                if isinstance(first, ast.Call) and ast.unparse(first.func)=='list': firsts=list(ast.literal_eval(first.args[0]))
                else: firsts=ast.literal_eval(first)
                keys=['None' if ch is None else 'Some '+coq_str(ch) for ch in (firsts if firsts is not None else [None])]
                ops.append('Add KImplicit %s [%s] %s'%(coq_str(cls), '; '.join(keys), coq_str(tag)))
            else:
                ops.append('Add %s %s [%s] %s'%(k, coq_str(cls), key_of(c.args[0]), coq_str(ast.unparse(c.args[1]))))
# COW shapes of the add_* classmethods
cow={}
for f,clsname in (('constructor','BaseConstructor'),('representer','BaseRepresenter'),('resolver','BaseResolver')):
    tree=ast.parse(open(ROOT+f+'.py').read())
    for node in ast.walk(tree):
        if isinstance(node, ast.FunctionDef) and node.name in KIND:
            src=ast.unparse(node)
            tbl=[t for t in TABLE if TABLE[t]==KIND[node.name]][0]
            guard="if not '%s' in cls.__dict__"%tbl
            if guard not in src: cow[KIND[node.name]]='NoCopy'
            elif "cls.%s = cls.%s.copy()"%(tbl,tbl) in src: cow[KIND[node.name]]='ShallowCopy'
            elif "[:]" in src and "cls.%s = implicit_resolvers"%tbl in src: cow[KIND[node.name]]='PerKeyListCopy'
            else: raise TranslateError('COW shape of %s.%s not recognised'%(clsname,node.name))
out=['From Coq Require Import List String.','Import ListNotations.','Require Import Registry2.','Open Scope string_scope.',
     'Definition cow_of (k : kind) : cow := match k with %s end.'%' | '.join('%s => %s'%(k,cow[k]) for k in ['KCtor','KMultiCtor','KRepr','KMultiRepr','KImplicit']),
     'Definition history : list op := [\n  '+';\n  '.join(ops)+'].','Definition w0 := run cow_of history.']
open('GenHistory.v','w').write('\n'.join(out)+'\n')
print(len(ops),'ops; cow:',cow)
