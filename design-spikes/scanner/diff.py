import sys, glob, random, subprocess, re, time
sys.path.insert(0,'/repo/lib'); sys.path.insert(0,'.')
import yaml, impl
random.seed(int(sys.argv[1]) if len(sys.argv)>1 else 1)
N = int(sys.argv[2]) if len(sys.argv)>2 else 3000
files = sorted(glob.glob('/repo/tests/legacy_tests/data/*'))
corpus=[]
for f in files:
    if f.endswith(('.code','.py')): continue
    try: t=open(f,'rb').read().decode('utf-8')
    except Exception: continue
    corpus.append(t)
alphabet = list(" \n\t-:?[]{},#&*!|>'\"%@`\r\x85  ﻿a0.<=~\\xuU9f+_/") 
def mutate(s):
    s=list(s)
    for _ in range(random.choice([0,1,1,2,4,8])):
        if not s: s=['a']
        i=random.randrange(len(s)); op=random.random()
        if op<0.3: del s[i]
        elif op<0.6: s.insert(i, random.choice(alphabet))
        elif op<0.8: s[i]=random.choice(alphabet)
        else:
            j=random.randrange(len(s)); s[i],s[j]=s[j],s[i]
    return ''.join(s)
cases=list(corpus)
while len(cases)<N:
    t=mutate(random.choice(corpus))
    if random.random()<0.3: t=t[:random.choice([10,40,200])]
    if random.random()<0.1: t=''.join(random.choice(alphabet) for _ in range(random.choice([1,2,3,5,8,13])))
    cases.append(t)
ok=[]
for t in cases:
    try: yaml.reader.Reader(t); ok.append(t)
    except yaml.YAMLError: pass
cases=ok
t0=time.time()
inp='\n'.join(' '.join(str(ord(c)) for c in t) for t in cases)+'\n'
p=subprocess.run(['./ymodel'],input=inp.encode(),stdout=subprocess.PIPE)
model=p.stdout.decode().split('\n')
t1=time.time()
# split model output per case
mi=0; bad=[]; kinds={}
for ci,t in enumerate(cases):
    out=[]; impl.run(t,out)
    m=[]
    while True:
        line=model[mi]; mi+=1; m.append(line)
        if line.startswith('END'): break
    m2=[re.sub(r' \| code \d+$','',x) for x in m]
    kinds[out[-1].split('|')[0].split()[1]]=kinds.get(out[-1].split('|')[0].split()[1],0)+1
    if m2!=out:
        bad.append((t,out,m))
t2=time.time()
print('cases',len(cases),'model %.1fs impl %.1fs'%(t1-t0,t2-t1),'outcomes',kinds,'DISAGREE',len(bad))
bad.sort(key=lambda b: len(b[0]))
for t,out,m in bad[:6]:
    print('=== input',repr(t)[:200])
    for i,(a,b) in enumerate(zip(out+['-']*50,m+['-']*50)):
        if a!=re.sub(r' \| code \d+$','',b):
            print('   first diff at',i); print('   impl :',a); print('   model:',b); break
