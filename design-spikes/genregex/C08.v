From Coq Require Import List NArith Bool.
Import ListNotations.
Require Import Regex RegexDec GenRegex.
Open Scope N_scope.

Definition sigma := Chr [(0, 1114111)].
Definition any := Star sigma.
(* texts a plain scalar can have: not ending in a line feed *)
Definition no_trailing_lf := Alt Eps (Cat any (Chr [(0, 9); (11, 1114111)])).
Definition starts_in (s : cset) (eps : bool) := let r := Cat (Chr s) any in if eps then Alt Eps r else r.

(* D-obligation: the first-character index never hides a match (on plain-scalar texts) *)
Definition index_complete_chk :=
  forallb (fun x => let '(r, f, e) := x in
     match empty_dec 5000 (And (And r no_trailing_lf) (Not (starts_in f e))) with Some true => true | _ => false end) resolvers.
Lemma index_complete_ok : index_complete_chk = true.
Proof. vm_compute. reflexivity. Qed.

Theorem index_complete : forall r f e, In (r, f, e) resolvers ->
  forall w, matches r w = true -> matches no_trailing_lf w = true -> matches (starts_in f e) w = true.
Proof.
  intros r f e Hin w Hr Hn.
  pose proof index_complete_ok as H. unfold index_complete_chk in H.
  rewrite forallb_forall in H. specialize (H _ Hin). simpl in H.
  destruct (empty_dec 5000 (And (And r no_trailing_lf) (Not (starts_in f e)))) as [[|]|] eqn:E; try discriminate.
  apply (incl_dec_sound 5000 (And r no_trailing_lf) (starts_in f e)); auto.
  apply matches_ok. change (lang r w /\ lang no_trailing_lf w). split; apply matches_ok; auto.
Qed.
Print Assumptions index_complete.

(* without the plain-scalar restriction the statement is refuted, with the witness "\n" for null *)
Example index_complete_all_strings_refuted :
  matches re_null [10] = true /\ matches (starts_in first_null first_eps_null) [10] = false.
Proof. vm_compute. split; reflexivity. Qed.

(* pairwise disjointness of bool/float/int/merge/null/timestamp/value *)
Definition seven := [re_bool; re_float; re_int; re_merge; re_null; re_timestamp; re_value].
Fixpoint pairs {A} (l : list A) : list (A * A) := match l with [] => [] | x :: l' => map (pair x) l' ++ pairs l' end.
Lemma types_disjoint_ok :
  forallb (fun p => match empty_dec 5000 (And (fst p) (snd p)) with Some true => true | _ => false end) (pairs seven) = true.
Proof. vm_compute. reflexivity. Qed.

(* int: every matched text must contain a digit of its base after the prefix.  Refuted today. *)
Definition hexd := Chr [(48,57);(65,70);(97,102)].
Definition sign := Alt Eps (Chr [(43,43);(45,45)]).
Definition us := Star (Chr [(95,95)]).
Definition int_convertible :=     (* strings construct_yaml_int accepts without ValueError (hand-proved separately) *)
  Cat sign (Alt (Cat (Chr [(48,48)]) (Cat (Chr [(120,120)]) (Cat us (Cat hexd (Star (Chr [(48,57);(65,70);(97,102);(95,95)]))))))
           (Alt (Cat (Chr [(48,48)]) (Cat (Chr [(98,98)]) (Cat us (Cat (Chr [(48,49)]) (Star (Chr [(48,49);(95,95)]))))))
                (Cat (Chr [(48,57)]) (Star (Chr [(48,57);(95,95);(58,58)]))))).
Eval vm_compute in empty_dec 5000 (And (And re_int no_trailing_lf) (Not (Cat int_convertible (Alt Eps (Chr [(10,10)]))))).
Example int_converter_total_refuted : matches re_int [48;120;95] = true /\ matches int_convertible [48;120;95] = false.
Proof. vm_compute. split; reflexivity. Qed.
