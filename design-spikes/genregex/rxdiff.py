import sys, itertools, subprocess, json, re, time
sys.path.insert(0,'/repo/lib')
import yaml.resolver
table=json.load(open('gen_table.json'))
regs=[re.compile(p,f) for _,_,p,f in table]
alpha=list("0123456789+-_.:eExbonyYNtTfFlLuUsSaAiI~<= \tZ\n!&*")
strings=['']
for n in range(1,4):
    strings+=[''.join(t) for t in itertools.product(alpha,repeat=n)]
import random; random.seed(1)
for _ in range(200000):
    strings.append(''.join(random.choice(alpha) for _ in range(random.choice([4,5,6,8,10,19,25]))))
# members of each regex by mutation of known examples
seeds=['yes','No','TRUE','off','1.5','-1_0.5e+10','.5','1:30:00.5','+.inf','.NaN','0b1_01','0o7','017','0','-12_3','0xFf_','190:20:30','<<','~','null','','2001-12-14','2001-12-14t21:59:43.10-05:00','2001-12-14 21:59:43.10 -5','2001-1-1 1:00:00Z','=','!','&','*']
for s0 in seeds:
    strings.append(s0)
    for _ in range(3000):
        t=list(s0)
        for _ in range(random.choice([1,1,2,3])):
            if t and random.random()<0.4: del t[random.randrange(len(t))]
            else: t.insert(random.randrange(len(t)+1), random.choice(alpha))
        strings.append(''.join(t))
t0=time.time()
inp='\n'.join(' '.join(str(ord(c)) for c in s) for s in strings)+'\n'
out=subprocess.run(['./rxmodel'],input=inp.encode(),stdout=subprocess.PIPE).stdout.decode().split('\n')
t1=time.time()
bad=0; pos=[0]*8
for s,o in zip(strings,out):
    exp=''.join('1' if r.match(s) else '0' for r in regs)
    for i,c in enumerate(exp): pos[i]+= c=='1'
    if exp!=o:
        bad+=1
        if bad<5: print('DIFF',repr(s),exp,o)
print('strings',len(strings),'model %.1fs'%(t1-t0),'matches per regex',pos,'DISAGREE',bad)
