Require Import Regex GenRegex.
From Coq Require Import List NArith.
Definition match_nth (i : nat) (w : list N) : bool :=
  match nth_error resolvers i with Some (r, _, _) => matches r w | None => false end.
Require Extraction. Require Import ExtrOcamlBasic.
Extraction "rx_ext.ml" match_nth.
