"""Spike of tools/translate for GenRegex: resolver.py -> Coq regex terms (fail-closed)."""
import ast, re, sys
import re._parser as sp
from re._constants import *
class TranslateError(Exception): pass
MAXCP = 0x10FFFF
def cset_of_in(items):
    neg=False; ranges=[]
    for op,av in items:
        if op is NEGATE: neg=True
        elif op is LITERAL: ranges.append((av,av))
        elif op is RANGE: ranges.append(av)
        else: raise TranslateError('unsupported IN item %s'%op)
    ranges.sort()
    if neg:
        out=[]; lo=0
        for a,b in ranges:
            if a>lo: out.append((lo,a-1))
            lo=max(lo,b+1)
        if lo<=MAXCP: out.append((lo,MAXCP))
        ranges=out
    return ranges
def coq_cset(r): return '['+'; '.join('(%d, %d)'%ab for ab in r)+']'
def seq(items):
    if not items: return 'Eps'
    out=items[-1]
    for x in reversed(items[:-1]): out='(Cat %s %s)'%(x,out)
    return out
def tr(sub, at_end_ok):
    """sub: SubPattern; returns list of coq terms to be concatenated"""
    out=[]
    data=list(sub)
    for i,(op,av) in enumerate(data):
        if op is LITERAL: out.append('(Chr [(%d, %d)])'%(av,av))
        elif op is IN: out.append('(Chr %s)'%coq_cset(cset_of_in(av)))
        elif op is ANY: raise TranslateError('ANY not supported')
        elif op is BRANCH:
            alts=[seq(tr(b, at_end_ok and i==len(data)-1)) for b in av[1]]
            t=alts[-1]
            for a in reversed(alts[:-1]): t='(Alt %s %s)'%(a,t)
            out.append(t)
        elif op is SUBPATTERN:
            group,add,dele,p=av
            if add or dele: raise TranslateError('inline flags')
            out.append(seq(tr(p, at_end_ok and i==len(data)-1)))
        elif op in (MAX_REPEAT,):
            lo,hi,p=av
            body=seq(tr(p, False))
            parts=[body]*lo
            if hi is MAXREPEAT: parts.append('(Star %s)'%body)
            else:
                opt='Eps'
                for _ in range(hi-lo): opt='(Alt Eps (Cat %s %s))'%(body,opt)
                if hi>lo: parts.append(opt)
            out.append(seq(parts))
        elif op is AT:
            if av is AT_BEGINNING:
                if i!=0: raise TranslateError('^ not at start')
            elif av is AT_END:
                if not (at_end_ok and i==len(data)-1): raise TranslateError('$ not at end')
                out.append('(Alt Eps (Chr [(10, 10)]))')      # Python: $ matches before a final newline
            else: raise TranslateError('AT %s'%av)
        else: raise TranslateError('unsupported op %s'%op)
    return out
def translate(pattern, flags):
    p=sp.parse(pattern, flags)
    return seq(tr(p, True))
def main(path):
    tree=ast.parse(open(path).read())
    defs=[]; table=[]
    for node in tree.body:
        if isinstance(node, ast.Expr) and isinstance(node.value, ast.Call):
            c=node.value
            if isinstance(c.func, ast.Attribute) and c.func.attr=='add_implicit_resolver':
                if not (isinstance(c.func.value, ast.Name) and len(c.args)==3): raise TranslateError('shape of add_implicit_resolver call at line %d'%node.lineno)
                cls=c.func.value.id
                tag=ast.literal_eval(c.args[0])
                rc=c.args[1]
                if not (isinstance(rc, ast.Call) and ast.unparse(rc.func)=='re.compile'): raise TranslateError('regexp arg at line %d'%node.lineno)
                pat=ast.literal_eval(rc.args[0]); flags=0
                if len(rc.args)>1:
                    if ast.unparse(rc.args[1])!='re.X': raise TranslateError('flags at line %d'%node.lineno)
                    flags=re.X
                f=c.args[2]
                if isinstance(f, ast.Call) and ast.unparse(f.func)=='list': first=list(ast.literal_eval(f.args[0]))
                else: first=ast.literal_eval(f)
                name='re_'+tag.rsplit(':',1)[1]
                defs.append('Definition %s : re := %s.'%(name, translate(pat, flags)))
                firsts=[ord(ch) for ch in first if ch!='']
                table.append((cls,tag,name,firsts,'' in first,pat,flags))
    return defs,table
if __name__=='__main__':
    defs,table=main('/repo/lib/yaml/resolver.py')
    out=['From Coq Require Import List NArith.','Import ListNotations.','Require Import Regex.','Open Scope N_scope.']+defs
    for cls,tag,name,firsts,eps,pat,flags in table:
        out.append('Definition first_%s : cset := %s.'%(name[3:], coq_cset([(c,c) for c in sorted(firsts)])))
        out.append('Definition first_eps_%s : bool := %s.'%(name[3:], 'true' if eps else 'false'))
    out.append('Definition resolvers : list (re * cset * bool) := [%s].'%'; '.join('(%s, first_%s, first_eps_%s)'%(n,n[3:],n[3:]) for _,_,n,_,_,_,_ in table))
    open('GenRegex.v','w').write('\n'.join(out)+'\n')
    import json; json.dump([(t[1],t[2],t[5],t[6]) for t in table], open('gen_table.json','w'))
    print('generated', len(defs), 'regexes')
