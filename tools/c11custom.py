"""Customised loader / dumper classes for the C11 history run and the C20 catalogue: *using* a customised class (not only
registering on it) must leave every class-level table as it was and must not change what another class does."""
import re, yaml

class Base:
    def __init__(self, v): self.v = v
class Sub(Base): pass
class Point:
    def __init__(self, x, y): self.x = x; self.y = y

ENV = re.compile(r'^\$\{[^}]*\}$')
def _base_repr(dumper, o): return dumper.represent_scalar('!base', str(o.v))
def _env_ctor(loader, node): return 'ENV:' + loader.construct_scalar(node)
def _multi_ctor(loader, suffix, node): return ['M', suffix, loader.construct_sequence(node) if isinstance(node, yaml.SequenceNode) else loader.construct_scalar(node) if isinstance(node, yaml.ScalarNode) else None]

CLASSES = {}
def classes(be):
    """created once per interpreter and back-end (the worker imports this module before it forks)"""
    if be in CLASSES: return CLASSES[be]
    c = be == 'c'
    FD = yaml.CDumper if c else yaml.Dumper; SD = yaml.CSafeDumper if c else yaml.SafeDumper; SL = yaml.CSafeLoader if c else yaml.SafeLoader
    class MultiDumper(FD): pass
    MultiDumper.add_multi_representer(Base, _base_repr)
    class SiblingDumper(FD): pass
    class EnvLoader(SL): pass
    EnvLoader.add_implicit_resolver('!env', ENV, None)              # first=None: the wildcard resolver list
    EnvLoader.add_constructor('!env', _env_ctor)
    class EnvDumper(SD): pass
    EnvDumper.add_implicit_resolver('!env', ENV, None)
    class MultiLoader(SL): pass
    MultiLoader.add_multi_constructor('!m:', _multi_ctor)
    class PathLoader(SL): pass
    PathLoader.add_path_resolver('!top', [], dict)
    PathLoader.add_constructor('!top', lambda l, n: ('TOP', sorted(map(str, l.construct_mapping(n)))))
    CLASSES[be] = dict(MultiDumper=MultiDumper, SiblingDumper=SiblingDumper, EnvLoader=EnvLoader, EnvDumper=EnvDumper, MultiLoader=MultiLoader, PathLoader=PathLoader, FD=FD, SD=SD, SL=SL)
    return CLASSES[be]

def all_custom_classes():
    out = []
    for be in sorted(CLASSES):
        for n, c in sorted(CLASSES[be].items()):
            if n not in ('FD', 'SD', 'SL'): out.append((be + '.' + n, c))
    return out
