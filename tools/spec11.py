"""Frozen reference of the YAML 1.1 type repository as implemented at the pinned commit (patterns copied once from
lib/yaml/resolver.py; the Coq counterpart is coq/Spec/Yaml11Types.v).  Used as the *oracle* when a check has to decide
whether the implementation still types a plain scalar by the rules, and by the witness search."""
import re
SPEC = [
    ('tag:yaml.org,2002:bool', '^(?:yes|Yes|YES|no|No|NO\n                    |true|True|TRUE|false|False|FALSE\n                    |on|On|ON|off|Off|OFF)$', 64, ['y', 'Y', 'n', 'N', 't', 'T', 'f', 'F', 'o', 'O']),
    ('tag:yaml.org,2002:float', '^(?:[-+]?(?:[0-9][0-9_]*)\\.[0-9_]*(?:[eE][-+][0-9]+)?\n                    |\\.[0-9][0-9_]*(?:[eE][-+][0-9]+)?\n                    |[-+]?[0-9][0-9_]*(?::[0-5]?[0-9])+\\.[0-9_]*\n                    |[-+]?\\.(?:inf|Inf|INF)\n                    |\\.(?:nan|NaN|NAN))$', 64, ['-', '+', '0', '1', '2', '3', '4', '5', '6', '7', '8', '9', '.']),
    ('tag:yaml.org,2002:int', '^(?:[-+]?0b[0-1_]+\n                    |[-+]?0[0-7_]+\n                    |[-+]?(?:0|[1-9][0-9_]*)\n                    |[-+]?0x[0-9a-fA-F_]+\n                    |[-+]?[1-9][0-9_]*(?::[0-5]?[0-9])+)$', 64, ['-', '+', '0', '1', '2', '3', '4', '5', '6', '7', '8', '9']),
    ('tag:yaml.org,2002:merge', '^(?:<<)$', 0, ['<']),
    ('tag:yaml.org,2002:null', '^(?: ~\n                    |null|Null|NULL\n                    | )$', 64, ['~', 'n', 'N', '']),
    ('tag:yaml.org,2002:timestamp', '^(?:[0-9][0-9][0-9][0-9]-[0-9][0-9]-[0-9][0-9]\n                    |[0-9][0-9][0-9][0-9] -[0-9][0-9]? -[0-9][0-9]?\n                     (?:[Tt]|[ \\t]+)[0-9][0-9]?\n                     :[0-9][0-9] :[0-9][0-9] (?:\\.[0-9]*)?\n                     (?:[ \\t]*(?:Z|[-+][0-9][0-9]?(?::[0-9][0-9])?))?)$', 64, ['0', '1', '2', '3', '4', '5', '6', '7', '8', '9']),
    ('tag:yaml.org,2002:value', '^(?:=)$', 0, ['=']),
    ('tag:yaml.org,2002:yaml', '^(?:!|&|\\*)$', 0, ['!', '&', '*']),
]

_compiled = [(t, re.compile(p, f), first) for t, p, f, first in SPEC]
STR = 'tag:yaml.org,2002:str'
def spec_tag(text):
    """tag of a plain scalar with this text by the frozen rules (languages are pairwise disjoint, so order is immaterial)"""
    for t, rx, first in _compiled:
        if rx.match(text): return t
    return STR

def yaml11_int(s):
    """value of a text of the int type: sign, '_' ignored, 0b / 0x / leading-0 octal / sexagesimal / decimal"""
    s = s.replace('_', ''); sign = 1
    if s[0] == '-': sign = -1
    if s[0] in '+-': s = s[1:]
    if s == '0': return 0
    if s.startswith('0b'): return sign * int(s[2:], 2)
    if s.startswith('0x'): return sign * int(s[2:], 16)
    if s[0] == '0': return sign * int(s, 8)
    if ':' in s:
        v = 0
        for d in s.split(':'): v = v * 60 + int(d)
        return sign * v
    return sign * int(s)

def yaml11_float(s):
    """value of a text of the float type as an exact rational (None for inf/nan): sign, '_' ignored, decimal with exponent, or sexagesimal"""
    from fractions import Fraction
    s = s.replace('_', '').lower(); sign = 1
    if s[0] == '-': sign = -1
    if s[0] in '+-': s = s[1:]
    if s in ('.inf', '.nan'): return None
    if ':' in s:
        v = Fraction(0)
        for d in s.split(':'): v = v * 60 + Fraction(d if d not in ('', '.') else '0') if not d.endswith('.') else v * 60 + Fraction(d[:-1] or '0')
        return sign * v
    if s.endswith('.'): s = s[:-1]
    if s.startswith('.'): s = '0' + s
    s = s.replace('.e', 'e')
    return sign * Fraction(s)

_TS = None
def yaml11_timestamp(s):
    """value of a text of the timestamp type: a date, or a datetime whose microsecond field is the fraction TRUNCATED to six digits
    (exact decimal arithmetic) and whose offset is Z / [+-]hh(:mm)?; None when a field is out of range (the converter's crash on
    those is a known finding) or the offset is not a whole number of minutes below 24h"""
    global _TS
    import re, datetime
    if _TS is None:
        _TS = re.compile(r'^(\d{4})-(\d\d?)-(\d\d?)(?:(?:[Tt]|[ \t]+)(\d\d?):(\d\d):(\d\d)(?:\.(\d*))?(?:[ \t]*(Z|([-+])(\d\d?)(?::(\d\d))?))?)?$')
    m = _TS.match(s)
    if not m: return None
    y, mo, d, h, mi, sec, frac, tz, sg, th, tm = m.groups()
    try:
        if h is None: return datetime.date(int(y), int(mo), int(d))
        us = int(((frac or '') + '000000')[:6])
        tzinfo = None
        if tz == 'Z': tzinfo = datetime.timezone.utc
        elif tz:
            delta = datetime.timedelta(hours=int(th), minutes=int(tm or 0))
            tzinfo = datetime.timezone(-delta if sg == '-' else delta)
        return datetime.datetime(int(y), int(mo), int(d), int(h), int(mi), int(sec), us, tzinfo=tzinfo)
    except (ValueError, OverflowError):
        return None

# ---- members of each reference language (random descent over the parsed pattern): used by generators and witness search
import re._parser as _sp
from re._constants import LITERAL, IN, BRANCH, SUBPATTERN, MAX_REPEAT, AT, RANGE, NEGATE, MAXREPEAT
def _gen(sub, rng, out):
    for op, av in sub:
        if op is LITERAL: out.append(chr(av))
        elif op is IN:
            items = [x for x in av if x[0] is not NEGATE]
            o, a = rng.choice(items)
            out.append(chr(a) if o is LITERAL else chr(rng.randint(a[0], a[1])))
        elif op is BRANCH: _gen(rng.choice(av[1]), rng, out)
        elif op is SUBPATTERN: _gen(av[3], rng, out)
        elif op is MAX_REPEAT:
            lo, hi, p = av
            n = lo + rng.choice([0, 0, 1, 1, 2, 3]) if hi is MAXREPEAT else rng.randint(lo, hi)
            for _ in range(n): _gen(p, rng, out)
        elif op is AT: pass
def members(rng, n_each):
    res = []
    for tag, pat, flags, first in SPEC:
        p = _sp.parse(pat, flags)
        for _ in range(n_each):
            out = []; _gen(p, rng, out); res.append(''.join(out))
    return res
def all_keywords():
    """every alternative that is a pure literal word in the reference patterns (yes, Yes, ..., null, ~, <<, =)"""
    res = []
    for tag, pat, flags, first in SPEC:
        p = _sp.parse(pat, flags)
        def walk(sub):
            for op, av in sub:
                if op is BRANCH:
                    for b in av[1]:
                        if all(o is LITERAL for o, _ in b): res.append(''.join(chr(a) for _, a in b))
                        else: walk(b)
                elif op is SUBPATTERN: walk(av[3])
                elif op is MAX_REPEAT: walk(av[2])
        walk(p)
        if all(o in (LITERAL, AT) or o is SUBPATTERN for o, _ in p):
            pass
    return res
