"""Event-stream cases: generator (well-formed by grammar + a separate ill-formed mutation stream), the line encoding
shared with ocaml/emitter_driver.ml, and its decoder (tuples, no yaml import needed to generate)."""
ALPHA = ['a', 'b', ' ', ' ', '\n', '\n', '\x85', ' ', '\t', '-', ':', '#', "'", '"', '\\', 'é', '😀', '﻿', '0', '~', '!', '&', '*', '[', ']', '{', '}', ',', '?', '|', '>', '%', '@', '`', '\r', '\x07', '.', '---', '...', '\xa0', 'word ', 'x' * 30]
def rs(rng):
    n = rng.choice([0, 0, 1, 2, 3, 5, 8, 13, 30, 90])
    return ''.join(rng.choice(ALPHA) for _ in range(n))
TAGS = [None, None, None, '!', '!local', 'tag:yaml.org,2002:str', 'tag:yaml.org,2002:int', 'tag:example.com,2000:é x!y', '!e!x', 'tag:yaml.org,2002:', 'x', '!']
TAGS_OK = [None, None, None, None, '!', '!local', 'tag:yaml.org,2002:str', 'tag:yaml.org,2002:int', 'tag:yaml.org,2002:float', 'tag:example.com,2000:é x!y', 'tag:example.com,2000:app/x', '!e!x', 'x:y', '!a!b']
ANCH = [None] * 40 + ['a1', 'b-2', 'a1', 'c', 'bad anchor', '']

# events are tuples: ('SS',) ('SE',) ('DS', explicit, version|None, [(handle, prefix)]) ('DE', explicit) ('AL', anchor)
# ('SC', anchor, tag, i0, i1, value, style) ('QS', anchor, tag, implicit, flow) ('QE',) ('MS', anchor, tag, implicit, flow) ('ME',)
def scalar(rng, wf, anchors):
    if wf:
        tag = rng.choice(TAGS_OK)
        impl = rng.choice([(True, False), (False, True), (True, True), (False, False)]) if tag is not None else rng.choice([(True, False), (False, True), (True, True)])
        a = None
        if rng.random() < 0.1: a = 'a%d' % len(anchors); anchors.append(a)
        return [('SC', a, tag, impl[0], impl[1], rs(rng), rng.choice([None, None, '"', "'", '|', '>']))]
    tag = rng.choice(TAGS)
    impl = rng.choice([(True, False), (False, True), (True, True), (False, False)])
    return [('SC', rng.choice(ANCH), tag, impl[0], impl[1], rs(rng), rng.choice([None, None, '"', "'", '|', '>']))]
def node(rng, d, wf, anchors):
    r = rng.random()
    if wf and anchors and r < 0.06: return [('AL', rng.choice(anchors))]
    if d <= 0 or r < 0.45: return scalar(rng, wf, anchors)
    if not wf and r < 0.5: return [('AL', rng.choice(['a1', 'x', 'a1', 'x', None]))]
    def props():
        if wf:
            a = None
            if rng.random() < 0.1: a = 'a%d' % len(anchors); anchors.append(a)
            t = rng.choice(TAGS_OK)
            return a, t, (True if t is None else rng.random() < 0.5)
        return rng.choice(ANCH), rng.choice(TAGS), rng.random() < 0.7
    if r < 0.75:
        a, t, i = props()
        ev = [('QS', a, t, i, rng.choice([True, False, False]))]
        for _ in range(rng.choice([0, 1, 2, 3])): ev += node(rng, d - 1, wf, anchors)
        return ev + [('QE',)]
    a, t, i = props()
    ev = [('MS', a, t, i, rng.choice([True, False, False]))]
    for _ in range(rng.choice([0, 1, 2, 3])): ev += node(rng, d - 1, wf, anchors); ev += node(rng, d - 1, wf, anchors)
    return ev + [('ME',)]
def doc(rng, wf):
    if wf:
        tags = rng.choice([[]] * 8 + [[('!e!', 'tag:example.com,2000:')], [('!e!', 'tag:example.com,2000:'), ('!', '!my-')], [('!a!', 'x:')]])
        ver = rng.choice([None] * 8 + [(1, 1), (1, 2)])
    else:
        tags = rng.choice([[]] * 60 + [[('!e!', 'tag:example.com,2000:')], [('!e!', 'tag:example.com,2000:'), ('!', '!my-')], [('bad', 'x')], [('!é!', 'x')], [('!e!', 'tag:é')]])
        ver = rng.choice([None] * 12 + [(1, 1), (1, 2), (1, 1), (2, 0)])
    return [('DS', rng.choice([True, False]), ver, tags)] + node(rng, rng.choice([0, 1, 2, 3, 4]), wf, []) + [('DE', rng.choice([True, False]))]
def stream(rng, wf=True, ndocs=None):
    evs = [('SS',)]
    for _ in range(ndocs if ndocs is not None else rng.choice([0, 1, 1, 2, 3])): evs += doc(rng, wf)
    evs.append(('SE',))
    if not wf and rng.random() < 0.3 and len(evs) > 2:
        i = rng.randrange(len(evs)); op = rng.random()
        if op < 0.4: del evs[i]
        elif op < 0.7: evs.insert(i, rng.choice(evs))
        else:
            j = rng.randrange(len(evs)); evs[i], evs[j] = evs[j], evs[i]
    return evs
def options(rng):
    return dict(canonical=rng.choice([None, None, True]), indent=rng.choice([None, None, 0, 1, 2, 4, 9, 10, 30]), width=rng.choice([None, None, 0, 3, 5, 10, 20, 40, 200]),
                allow_unicode=rng.choice([None, True]), line_break=rng.choice([None, None, '\n', '\r\n', '\r', 'x']))

def enc(s):
    if s is None: return '-'
    if s == '': return 'e'
    return ','.join(str(ord(c)) for c in s)
def dec(s):
    if s == '-': return None
    if s == 'e': return ''
    return ''.join(chr(int(x)) for x in s.split(','))
def enc_ev(e):
    k = e[0]
    if k in ('SS', 'SE', 'QE', 'ME'): return k
    if k == 'DS':
        _, ex, ver, tags = e
        return 'DS %d %s %d%s' % (bool(ex), '-' if not ver else '%d.%d' % tuple(ver), len(tags), ''.join(' %s %s' % (enc(h), enc(p)) for h, p in tags))
    if k == 'DE': return 'DE %d' % bool(e[1])
    if k == 'AL': return 'AL %s' % enc(e[1])
    if k == 'SC': return 'SC %s %s %d %d %s %s' % (enc(e[1]), enc(e[2]), e[3], e[4], enc(e[5]), e[6] if e[6] else '-')
    return '%s %s %s %d %d' % (k, enc(e[1]), enc(e[2]), bool(e[3]), bool(e[4]))
def enc_case(evs, o):
    return 'C %d %d %d %d %s %s' % (bool(o.get('canonical')), bool(o.get('allow_unicode')), -1 if o.get('indent') is None else o['indent'], -1 if o.get('width') is None else o['width'],
                                     enc(o['line_break']) if o.get('line_break') else 'e', ' '.join(enc_ev(e) for e in evs))
def dec_case(line):
    t = line.split(' ')
    o = dict(canonical=(t[1] == '1') or None, allow_unicode=(t[2] == '1') or None, indent=None if t[3] == '-1' else int(t[3]), width=None if t[4] == '-1' else int(t[4]),
             line_break=None if t[5] == 'e' else dec(t[5]))
    evs = []; i = 6
    while i < len(t):
        k = t[i]
        if k in ('SS', 'SE', 'QE', 'ME'): evs.append((k,)); i += 1
        elif k == 'DS':
            ex = t[i + 1] == '1'; ver = None if t[i + 2] == '-' else tuple(int(x) for x in t[i + 2].split('.')); n = int(t[i + 3]); tags = []
            for j in range(n): tags.append((dec(t[i + 4 + 2 * j]), dec(t[i + 5 + 2 * j])))
            evs.append(('DS', ex, ver, tags)); i += 4 + 2 * n
        elif k == 'DE': evs.append(('DE', t[i + 1] == '1')); i += 2
        elif k == 'AL': evs.append(('AL', dec(t[i + 1]))); i += 2
        elif k == 'SC': evs.append(('SC', dec(t[i + 1]), dec(t[i + 2]), t[i + 3] == '1', t[i + 4] == '1', dec(t[i + 5]), None if t[i + 6] == '-' else t[i + 6])); i += 7
        else: evs.append((k, dec(t[i + 1]), dec(t[i + 2]), t[i + 3] == '1', t[i + 4] == '1')); i += 5
    return evs, o
def to_yaml_events(evs):
    import yaml
    out = []
    for e in evs:
        k = e[0]
        if k == 'SS': out.append(yaml.StreamStartEvent())
        elif k == 'SE': out.append(yaml.StreamEndEvent())
        elif k == 'DS': out.append(yaml.DocumentStartEvent(explicit=e[1], version=e[2], tags=dict(e[3]) if e[3] else None))
        elif k == 'DE': out.append(yaml.DocumentEndEvent(explicit=e[1]))
        elif k == 'AL': out.append(yaml.AliasEvent(e[1]))
        elif k == 'SC': out.append(yaml.ScalarEvent(e[1], e[2], (e[3], e[4]), e[5], style=e[6]))
        elif k == 'QS': out.append(yaml.SequenceStartEvent(e[1], e[2], e[3], flow_style=e[4]))
        elif k == 'QE': out.append(yaml.SequenceEndEvent())
        elif k == 'MS': out.append(yaml.MappingStartEvent(e[1], e[2], e[3], flow_style=e[4]))
        elif k == 'ME': out.append(yaml.MappingEndEvent())
    return out
