"""tools.translate: regenerate coq/Gen from the current /repo sources.  Each generator returns ({file: text}, meta)."""
import importlib, json, os, traceback
from .common import TranslateError
GENERATORS = ['gen_regex', 'gen_history', 'gen_calls', 'gen_globals']

def regenerate(outdir):
    """Writes changed files only (so make stays incremental).  Returns (errors, meta): errors = [(generator, message)]."""
    os.makedirs(outdir, exist_ok=True)
    errors = []; meta = {}
    for g in GENERATORS:
        try:
            mod = importlib.import_module('tools.translate.' + g)
            files, m = mod.generate()
            meta.update(m)
        except TranslateError as e:
            errors.append((g, str(e))); continue
        except SyntaxError as e:
            errors.append((g, 'source does not parse: %s' % e)); continue
        except Exception as e:
            errors.append((g, 'translator crashed (fail-closed): %s: %s' % (type(e).__name__, e))); continue
        for name, text in files.items():
            p = os.path.join(outdir, name)
            old = open(p).read() if os.path.exists(p) else None
            if old != text:
                with open(p, 'w') as f: f.write(text)
    with open(os.path.join(outdir, 'gen_meta.json'), 'w') as f: json.dump(meta, f, indent=1, sort_keys=True)
    return errors, meta
