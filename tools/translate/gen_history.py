"""GenHistory / GenCow / the registration part of GenApi.
The import-time *registration program* of lib/yaml (class statements with their C3 linearisation and every
top-level X.add_*(...) call in import order), the copy-on-write shape of the six add_* classmethods, the
fan-out of the module-level yaml.add_* helpers and of YAMLObjectMetaclass.  Fail-closed."""
import ast
from .common import *

# import order of lib/yaml/__init__.py: loader (reader scanner parser composer constructor resolver), dumper (emitter serializer representer), cyaml
FILES = ['reader', 'scanner', 'parser', 'composer', 'constructor', 'resolver', 'loader', 'emitter', 'serializer', 'representer', 'dumper', 'cyaml']
KIND = {'add_constructor': 'KCtor', 'add_multi_constructor': 'KMultiCtor', 'add_representer': 'KRepr',
        'add_multi_representer': 'KMultiRepr', 'add_implicit_resolver': 'KImplicit', 'add_path_resolver': 'KPath'}
TABLE = {'yaml_constructors': 'KCtor', 'yaml_multi_constructors': 'KMultiCtor', 'yaml_representers': 'KRepr',
         'yaml_multi_representers': 'KMultiRepr', 'yaml_implicit_resolvers': 'KImplicit', 'yaml_path_resolvers': 'KPath'}
KINDS = ['KCtor', 'KMultiCtor', 'KRepr', 'KMultiRepr', 'KImplicit', 'KPath']
EXTERNAL_BASES = ('CParser', 'CEmitter')

def c3(name, bases, file):
    def merge(seqs):
        res = []; seqs = [list(s) for s in seqs if s]
        while seqs:
            for s in seqs:
                h = s[0]
                if not any(h in t[1:] for t in seqs): break
            else: raise TranslateError(file, 0, 'a C3-linearisable hierarchy', name)
            res.append(h)
            seqs = [[x for x in s if x != h] for s in seqs]; seqs = [s for s in seqs if s]
        return res
    bs = bases[name]
    return [name] + merge([c3(b, bases, file) for b in bs] + [list(bs)])

def key_of(node):
    if isinstance(node, ast.Constant):
        if node.value is None: return 'None'
        if isinstance(node.value, str): return 'Some ' + coq_str(node.value)
    return 'Some ' + coq_str(ast.unparse(node))

def import_order():
    """check that __init__/loader/dumper import the modules in the order FILES assumes (first-import order)."""
    seen = []
    def visit(mod):
        tree, _ = parse(mod)
        for n in tree.body:
            if isinstance(n, ast.ImportFrom) and n.level == 1 and n.module:
                m = n.module
                if m in ('error', 'tokens', 'events', 'nodes', '_yaml'): continue
                if m not in seen:
                    visit(m)
            elif isinstance(n, ast.Try):
                for x in n.body:
                    if isinstance(x, ast.ImportFrom) and x.level == 1 and x.module and x.module not in seen and x.module not in ('_yaml',):
                        visit(x.module)
        if mod != '__init__' and mod not in seen: seen.append(mod)
    visit('__init__')
    return seen

def comprehension_copy(stmts, tbl):
    """other spellings of the copy inside the guard: [alias = cls.T;] cls.T = {k: COPY(SRC[k]) for k in SRC} /
    {k: COPY(v) for k, v in SRC.items()} (per-key list copy) and dict(SRC) / {**SRC} / SRC.copy() / {k: v for k, v in SRC.items()}
    (shallow copy).  Anything else: None (the caller fails closed)."""
    src = ['cls.' + tbl]
    stmts = list(stmts)
    if len(stmts) == 2 and isinstance(stmts[0], ast.Assign) and len(stmts[0].targets) == 1 and isinstance(stmts[0].targets[0], ast.Name) \
            and ast.unparse(stmts[0].value) == 'cls.' + tbl:
        src.append(stmts[0].targets[0].id); stmts = stmts[1:]
    if len(stmts) != 1 or not isinstance(stmts[0], ast.Assign) or [ast.unparse(t) for t in stmts[0].targets] != ['cls.' + tbl]: return None
    v = stmts[0].value
    def is_src(e): return ast.unparse(e) in src
    def copy_of(e):
        if isinstance(e, ast.Subscript) and isinstance(e.slice, ast.Slice) and e.slice.lower is None and e.slice.upper is None and e.slice.step is None: return e.value
        if isinstance(e, ast.Call) and isinstance(e.func, ast.Name) and e.func.id == 'list' and len(e.args) == 1 and not e.keywords: return e.args[0]
        if isinstance(e, ast.Call) and isinstance(e.func, ast.Attribute) and e.func.attr == 'copy' and not e.args and not e.keywords: return e.func.value
        return None
    if isinstance(v, ast.Call) and ((isinstance(v.func, ast.Name) and v.func.id == 'dict' and len(v.args) == 1 and not v.keywords and is_src(v.args[0]))
                                    or (isinstance(v.func, ast.Attribute) and v.func.attr == 'copy' and not v.args and is_src(v.func.value))): return 'ShallowCopy'
    if isinstance(v, ast.Dict) and v.keys == [None] and is_src(v.values[0]): return 'ShallowCopy'
    if isinstance(v, ast.DictComp) and len(v.generators) == 1 and not v.generators[0].ifs and not v.generators[0].is_async and isinstance(v.key, ast.Name):
        g = v.generators[0]
        if isinstance(g.target, ast.Name) and is_src(g.iter) and v.key.id == g.target.id:
            inner = copy_of(v.value)
            if inner is not None and isinstance(inner, ast.Subscript) and is_src(inner.value) and ast.unparse(inner.slice) == g.target.id: return 'PerKeyListCopy'
            if isinstance(v.value, ast.Subscript) and is_src(v.value.value) and ast.unparse(v.value.slice) == g.target.id: return 'ShallowCopy'
        if isinstance(g.target, ast.Tuple) and len(g.target.elts) == 2 and all(isinstance(x, ast.Name) for x in g.target.elts) \
                and isinstance(g.iter, ast.Call) and isinstance(g.iter.func, ast.Attribute) and g.iter.func.attr == 'items' and is_src(g.iter.func.value) and not g.iter.args \
                and v.key.id == g.target.elts[0].id:
            inner = copy_of(v.value)
            if inner is not None and isinstance(inner, ast.Name) and inner.id == g.target.elts[1].id: return 'PerKeyListCopy'
            if isinstance(v.value, ast.Name) and v.value.id == g.target.elts[1].id: return 'ShallowCopy'
    return None

def cow_shapes():
    cow = {}
    for f, clsname in (('constructor', 'BaseConstructor'), ('representer', 'BaseRepresenter'), ('resolver', 'BaseResolver')):
        tree, _ = parse(f); cls = find_class(tree, clsname, f + '.py')
        for node in cls.body:
            if isinstance(node, ast.FunctionDef) and node.name in KIND:
                k = KIND[node.name]; tbl = [t for t in TABLE if TABLE[t] == k][0]
                if not any(ast.unparse(d) == 'classmethod' for d in node.decorator_list):
                    raise TranslateError(f + '.py', node.lineno, '@classmethod on ' + node.name)
                # expected first statement: if not '<tbl>' in cls.__dict__: <copy>
                body = [s for s in node.body if not (isinstance(s, ast.Expr) and isinstance(s.value, ast.Constant))]
                first = body[0]
                guard_ok = (isinstance(first, ast.If) and ast.unparse(first.test) in
                            ("not '%s' in cls.__dict__" % tbl, "'%s' not in cls.__dict__" % tbl) and not first.orelse)
                if not guard_ok:
                    cow[k] = 'NoCopy'; continue
                inner = [ast.unparse(s) for s in first.body]
                if inner == ['cls.%s = cls.%s.copy()' % (tbl, tbl)]:
                    cow[k] = 'ShallowCopy'
                elif (k == 'KImplicit' and len(first.body) == 3 and inner[0] == 'implicit_resolvers = {}'
                      and inner[2] == 'cls.%s = implicit_resolvers' % tbl and isinstance(first.body[1], ast.For)
                      and ast.unparse(first.body[1].iter) == 'cls.%s' % tbl
                      and [ast.unparse(s) for s in first.body[1].body] == ['implicit_resolvers[key] = cls.%s[key][:]' % tbl]):
                    cow[k] = 'PerKeyListCopy'
                elif (k == 'KImplicit' and inner == ['cls.%s = cls.%s.copy()' % (tbl, tbl)]):
                    cow[k] = 'ShallowCopy'
                elif comprehension_copy(first.body, tbl) is not None:
                    cow[k] = comprehension_copy(first.body, tbl)
                else:
                    raise TranslateError(f + '.py', first.lineno, 'a recognised copy-on-write block in ' + node.name, '; '.join(inner)[:80])
                # the rest must write only through cls.<tbl>
                rest = ' ; '.join(ast.unparse(s) for s in body[1:])
                if ('cls.%s' % tbl) not in rest:
                    raise TranslateError(f + '.py', node.lineno, 'the registration to go through cls.' + tbl, rest[:80])
    for k in KINDS:
        if k not in cow: raise TranslateError('lib/yaml', 0, 'classmethod for ' + k)
    return cow

def normalise_helper_body(body):
    """equivalent spellings of the yaml.add_* helpers brought to the shape the extractor reads:
    (a) `if Loader is not None: B...; return` followed by A...   ==   `if Loader is None: A... else: B...`
    (b) `name = <attribute expression>` immediately followed by a call `name(...)`   ==   the call on the expression itself"""
    body = list(body)
    # (b) inline a local alias of a bound method used once, right after its definition
    out = []; i = 0
    while i < len(body):
        st = body[i]
        if (i + 1 < len(body) and isinstance(st, ast.Assign) and len(st.targets) == 1 and isinstance(st.targets[0], ast.Name) and isinstance(st.value, ast.Attribute)
                and isinstance(body[i + 1], ast.Expr) and isinstance(body[i + 1].value, ast.Call) and isinstance(body[i + 1].value.func, ast.Name)
                and body[i + 1].value.func.id == st.targets[0].id
                and sum(1 for n in ast.walk(ast.Module(body=body[i + 1:], type_ignores=[])) if isinstance(n, ast.Name) and n.id == st.targets[0].id) == 1):
            call = body[i + 1].value
            out.append(ast.Expr(value=ast.Call(func=st.value, args=call.args, keywords=call.keywords))); ast.copy_location(out[-1], body[i + 1]); i += 2; continue
        out.append(st); i += 1
    body = out
    # (a) early return for the explicit-Loader case
    if body and isinstance(body[0], ast.If) and ast.unparse(body[0].test) == 'Loader is not None' and not body[0].orelse \
            and body[0].body and isinstance(body[0].body[-1], ast.Return) and body[0].body[-1].value is None:
        rest = body[1:]
        k = 0
        while k < len(rest) and isinstance(rest[k], ast.Expr) and isinstance(rest[k].value, ast.Call) and ast.unparse(rest[k].value.func).startswith('loader.'): k += 1
        new_if = ast.If(test=ast.parse('Loader is None', mode='eval').body, body=rest[:k], orelse=body[0].body[:-1]); ast.copy_location(new_if, body[0])
        if k > 0: body = [new_if] + rest[k:]
    return body

def helpers():
    """fan-out of yaml.add_* (Loader=None) and of YAMLObjectMetaclass."""
    tree, _ = parse('__init__'); file = '__init__.py'
    out = {}
    for node in tree.body:
        if isinstance(node, ast.FunctionDef) and node.name in KIND:
            args = [a.arg for a in node.args.args]
            defaults = dict(zip(args[len(args) - len(node.args.defaults):], [ast.unparse(d) for d in node.args.defaults]))
            body = normalise_helper_body([s for s in node.body if not (isinstance(s, ast.Expr) and isinstance(s.value, ast.Constant))])
            loaders = None; dumper = None
            for s in body:
                if isinstance(s, ast.If) and ast.unparse(s.test) == 'Loader is None':
                    loaders = []
                    for x in s.body:
                        if not (isinstance(x, ast.Expr) and isinstance(x.value, ast.Call) and isinstance(x.value.func, ast.Attribute)
                                and x.value.func.attr == node.name):
                            raise TranslateError(file, x.lineno, 'loader.X.%s(...)' % node.name, ast.unparse(x)[:60])
                        tgt = ast.unparse(x.value.func.value)
                        if not tgt.startswith('loader.'): raise TranslateError(file, x.lineno, 'loader.<Class>', tgt)
                        loaders.append(tgt.split('.', 1)[1])
                    if [ast.unparse(x) for x in s.orelse] != ['Loader.%s(%s)' % (node.name, ', '.join(a for a in args if a not in ('Loader', 'Dumper')))]:
                        raise TranslateError(file, s.lineno, 'else: Loader.%s(...)' % node.name, '; '.join(ast.unparse(x) for x in s.orelse)[:80])
                elif isinstance(s, ast.Expr) and isinstance(s.value, ast.Call) and ast.unparse(s.value.func) == 'Dumper.' + node.name:
                    dumper = defaults.get('Dumper')
                    if dumper is None: raise TranslateError(file, s.lineno, 'a default for Dumper')
                else:
                    raise TranslateError(file, s.lineno, 'a known statement shape in yaml.' + node.name, ast.unparse(s)[:60])
            if node.name in ('add_constructor', 'add_multi_constructor', 'add_implicit_resolver', 'add_path_resolver'):
                if loaders is None or defaults.get('Loader') != 'None':
                    raise TranslateError(file, node.lineno, 'Loader=None fan-out in yaml.' + node.name)
            out[node.name] = (loaders or [], dumper)
    for n in KIND:
        if n not in out: raise TranslateError(file, 0, 'def ' + n)
    # YAMLObject
    yo = find_class(tree, 'YAMLObject', file)
    yl = yd = None
    for s in yo.body:
        if isinstance(s, ast.Assign) and ast.unparse(s.targets[0]) == 'yaml_loader':
            if not isinstance(s.value, ast.List): raise TranslateError(file, s.lineno, 'a list of loaders')
            yl = [ast.unparse(e) for e in s.value.elts]
        if isinstance(s, ast.Assign) and ast.unparse(s.targets[0]) == 'yaml_dumper':
            yd = ast.unparse(s.value)
    if yl is None or yd is None: raise TranslateError(file, yo.lineno, 'YAMLObject.yaml_loader / yaml_dumper')
    mc = find_class(tree, 'YAMLObjectMetaclass', file); init = find_method(mc, '__init__', file)
    # YAMLObjectMetaclass.__init__ registers from_yaml on every class of yaml_loader (a list, or a single class) and to_yaml on yaml_dumper,
    # for classes whose own yaml_tag is not None - recognised by what is called, not by how the branches are laid out
    src = ast.unparse(init)
    calls = [c for c in ast.walk(init) if isinstance(c, ast.Call) and isinstance(c.func, ast.Attribute)]
    ctor = [c for c in calls if c.func.attr == 'add_constructor' and [ast.unparse(a) for a in c.args] == ['cls.yaml_tag', 'cls.from_yaml'] and not c.keywords]
    repr_ = [c for c in calls if ast.unparse(c.func) == 'cls.yaml_dumper.add_representer' and [ast.unparse(a) for a in c.args] == ['cls', 'cls.to_yaml'] and not c.keywords]
    others = [c for c in calls if c.func.attr in KIND and c not in ctor and c not in repr_]
    if not ctor or len(repr_) != 1 or others or 'cls.yaml_loader' not in src or "'yaml_tag'" not in src or 'kwds' not in src or ' None' not in src:
        raise TranslateError(file, init.lineno, "registration of cls.from_yaml on cls.yaml_loader and of cls.to_yaml on cls.yaml_dumper, guarded by kwds['yaml_tag']", 'YAMLObjectMetaclass.__init__ changed')
    return out, yl, yd

def generate():
    order = import_order()
    if order != FILES: raise TranslateError('__init__.py', 0, 'import order ' + ' '.join(FILES), ' '.join(order))
    bases = {}; ops = []; classes = []; methods = {}
    for f in FILES:
        tree, _ = parse(f); file = f + '.py'
        for node in tree.body:
            if isinstance(node, ast.ClassDef):
                bs = []
                for b in node.bases:
                    n = ast.unparse(b)
                    if n == 'object': continue
                    if n in ('YAMLError', 'MarkedYAMLError', 'Exception'): bs = None; break
                    if n in EXTERNAL_BASES: bases.setdefault(n, [])
                    bs.append(n)
                if bs is None: continue
                if node.keywords: raise TranslateError(file, node.lineno, 'no metaclass/keywords on ' + node.name)
                for b in bs:
                    if b not in bases: raise TranslateError(file, node.lineno, 'a known base class', b)
                bases[node.name] = bs
                methods[node.name] = set(st.name for st in node.body if isinstance(st, ast.FunctionDef))
                fresh = []
                for st in node.body:
                    if isinstance(st, ast.Assign) and len(st.targets) == 1 and isinstance(st.targets[0], ast.Name) and st.targets[0].id in TABLE:
                        if not (isinstance(st.value, ast.Dict) and not st.value.keys):
                            raise TranslateError(file, st.lineno, '%s.%s = {}' % (node.name, st.targets[0].id), ast.unparse(st.value)[:40])
                        fresh.append(TABLE[st.targets[0].id])
                    elif isinstance(st, (ast.Assign, ast.AugAssign, ast.AnnAssign)):
                        for t in ast.walk(st):
                            if isinstance(t, ast.Name) and t.id in TABLE and not (isinstance(st, ast.Assign) and t is st.targets[0]):
                                raise TranslateError(file, st.lineno, 'no aliasing of registry tables in a class body', ast.unparse(st)[:60])
                classes.append(node.name)
                ops.append('DefClass %s [%s] [%s]' % (coq_str(node.name), '; '.join(coq_str(c) for c in c3(node.name, bases, file)), '; '.join(fresh)))
            elif isinstance(node, ast.Expr) and isinstance(node.value, ast.Call) and isinstance(node.value.func, ast.Attribute) and node.value.func.attr in KIND:
                c = node.value; k = KIND[c.func.attr]
                if not isinstance(c.func.value, ast.Name): raise TranslateError(file, node.lineno, 'Class.%s(...)' % c.func.attr, ast.unparse(c.func.value))
                cls = c.func.value.id
                if cls not in bases: raise TranslateError(file, node.lineno, 'registration on a class defined earlier', cls)
                if c.keywords: raise TranslateError(file, node.lineno, 'positional arguments only')
                if k == 'KImplicit':
                    tag = ast.literal_eval(c.args[0]); first = c.args[2]
                    if isinstance(first, ast.Call) and ast.unparse(first.func) == 'list': firsts = list(ast.literal_eval(first.args[0]))
                    else: firsts = ast.literal_eval(first)
                    keys = ['None' if ch is None else 'Some ' + coq_str(ch) for ch in (firsts if firsts is not None else [None])]
                    ops.append('Add KImplicit %s [%s] %s' % (coq_str(cls), '; '.join(keys), coq_str(tag)))
                elif k == 'KPath':
                    raise TranslateError(file, node.lineno, 'no import-time path resolvers')
                else:
                    if len(c.args) != 2: raise TranslateError(file, node.lineno, 'two arguments')
                    v = c.args[1]
                    if not (isinstance(v, ast.Attribute) and isinstance(v.value, ast.Name) and v.value.id in bases):
                        raise TranslateError(file, node.lineno, 'Class.method as the registered callable', ast.unparse(v)[:40])
                    owner = [x for x in c3(v.value.id, bases, file) if v.attr in methods.get(x, ())]
                    if not owner: raise TranslateError(file, node.lineno, 'a method defined along the MRO of ' + v.value.id, v.attr)
                    ops.append('Add %s %s [%s] %s' % (k, coq_str(cls), key_of(c.args[0]), coq_str(owner[0] + '.' + v.attr)))
            else:
                # any other top-level statement that mentions a registry table is an alias edge / foreign mutation we do not model
                for t in ast.walk(node) if not isinstance(node, (ast.ClassDef, ast.FunctionDef)) else []:
                    if isinstance(t, ast.Attribute) and t.attr in TABLE:
                        raise TranslateError(file, node.lineno, 'no top-level access to registry tables', ast.unparse(node)[:60])
    cow = cow_shapes()
    hl, yl, yd = helpers()
    out = ['(* GENERATED by tools/translate/gen_history.py from lib/yaml/*.py -- do not edit *)',
           'From Coq Require Import List String.', 'Import ListNotations.', 'Require Import Registry.', 'Open Scope string_scope.',
           'Definition cow_of (k : kind) : cow := match k with %s end.' % ' | '.join('%s => %s' % (k, cow[k]) for k in KINDS),
           'Definition history : list op := [\n  ' + ';\n  '.join(ops) + '].',
           'Definition w0 := run cow_of history.',
           'Definition shipped_classes : list cls := [%s].' % '; '.join(coq_str(c) for c in classes)]
    for n, k in KIND.items():
        out.append('Definition helper_loaders_%s : list cls := [%s].' % (k, '; '.join(coq_str(x) for x in hl[n][0])))
        out.append('Definition helper_dumper_%s : option cls := %s.' % (k, 'Some ' + coq_str(hl[n][1]) if hl[n][1] else 'None'))
    out.append('Definition yamlobject_loaders : list cls := [%s].' % '; '.join(coq_str(x) for x in yl))
    out.append('Definition yamlobject_dumper : cls := %s.' % coq_str(yd))
    meta = dict(classes=classes, cow=cow, helpers={n: dict(loaders=hl[n][0], dumper=hl[n][1]) for n in hl}, yamlobject=dict(loaders=yl, dumper=yd), n_ops=len(ops))
    return {'GenHistory.v': '\n'.join(out) + '\n'}, {'history': meta}
