"""Shared helpers of the fail-closed translators (Python ast -> Coq text)."""
import ast, os
REPO = os.environ.get('VERIF_REPO', '/repo')
LIB = os.path.join(REPO, 'lib', 'yaml')

class TranslateError(Exception):
    def __init__(self, file, line, expected, found=''):
        self.file, self.line, self.expected, self.found = file, line, expected, found
        Exception.__init__(self, '%s:%s: expected %s; found %s' % (file, line, expected, found))

def parse(name):
    path = os.path.join(LIB, name + '.py')
    with open(path, encoding='utf-8') as f:
        src = f.read()
    return ast.parse(src, filename=path), src

def coq_str(s):
    """Coq string literal; only used for ASCII identifiers / tags."""
    for ch in s:
        if ord(ch) > 126 or ord(ch) < 32:
            raise TranslateError('?', 0, 'printable ASCII in a name', repr(s))
    return '"' + s.replace('"', '""') + '"'

def coq_nlist(cps):
    return '[' + '; '.join(str(c) for c in cps) + ']'

def coq_cps(s):
    return coq_nlist([ord(c) for c in s])

def find_class(tree, name, file):
    for n in tree.body:
        if isinstance(n, ast.ClassDef) and n.name == name:
            return n
    raise TranslateError(file, 0, 'class ' + name)

def find_method(cls, name, file):
    for n in cls.body:
        if isinstance(n, ast.FunctionDef) and n.name == name:
            return n
    raise TranslateError(file, cls.lineno, 'method %s.%s' % (cls.name, name))
