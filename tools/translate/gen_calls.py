"""GenCalls / GenDispatch: the call graph of constructor.py (and representer.py) per class and method, with the facts the
C01/C04 closure theorems need: callee shape (self.m / super(X, self).m / bare name / module.attr / method on some other
object / dynamic), whether the call sits under `if unsafe:` and whether it passes an `unsafe=` keyword.  The dispatch block of
construct_object is checked against its frozen normal form (fail-closed) and appears in the graph as one `CDispatch` edge."""
import ast
from .common import *

DISPATCH_NORMAL_FORM = '''constructor = None
tag_suffix = None
if node.tag in self.yaml_constructors:
    constructor = self.yaml_constructors[node.tag]
else:
    for tag_prefix in self.yaml_multi_constructors:
        if tag_prefix is not None and node.tag.startswith(tag_prefix):
            tag_suffix = node.tag[len(tag_prefix):]
            constructor = self.yaml_multi_constructors[tag_prefix]
            break
    else:
        if None in self.yaml_multi_constructors:
            tag_suffix = node.tag
            constructor = self.yaml_multi_constructors[None]
        elif None in self.yaml_constructors:
            constructor = self.yaml_constructors[None]
        elif isinstance(node, ScalarNode):
            constructor = self.__class__.construct_scalar
        elif isinstance(node, SequenceNode):
            constructor = self.__class__.construct_sequence
        elif isinstance(node, MappingNode):
            constructor = self.__class__.construct_mapping
if tag_suffix is None:
    data = constructor(self, node)
else:
    data = constructor(self, tag_suffix, node)'''

def calls_of(fn, file, clsname=''):
    out = []
    def visit(node, guarded):
        if isinstance(node, ast.If) and ast.unparse(node.test) == 'unsafe':
            for s in node.body: visit(s, True)
            for s in node.orelse: visit(s, guarded)
            return
        if isinstance(node, (ast.FunctionDef, ast.Lambda, ast.ClassDef)) and node is not fn:
            out.append(('CDyn', '', '', guarded, False)); return      # nested code objects are not followed: fail closed
        if isinstance(node, ast.Call):
            f = node.func
            kw = any(k.arg == 'unsafe' or k.arg is None for k in node.keywords)
            if isinstance(f, ast.Attribute) and isinstance(f.value, ast.Name) and f.value.id == 'self':
                out.append(('CSelf', f.attr, '', guarded, kw))
            elif isinstance(f, ast.Attribute) and ast.unparse(f.value) == 'self.__class__':
                out.append(('CSelf', f.attr, '', guarded, kw))
            elif (isinstance(f, ast.Attribute) and isinstance(f.value, ast.Call) and ast.unparse(f.value.func) == 'super'
                  and len(f.value.args) == 2 and isinstance(f.value.args[0], ast.Name) and ast.unparse(f.value.args[1]) == 'self'):
                out.append(('CSuper', f.attr, f.value.args[0].id, guarded, kw))
            elif (isinstance(f, ast.Attribute) and isinstance(f.value, ast.Call) and ast.unparse(f.value.func) == 'super' and not f.value.args and not f.value.keywords):
                out.append(('CSuper', f.attr, clsname, guarded, kw))
            elif isinstance(f, ast.Name) and f.id == 'super':
                pass                                                       # the super(...) object itself; the method call on it is the edge
            elif isinstance(f, ast.Name):
                if f.id == 'constructor' and fn.name == 'construct_object': out.append(('CDispatch', '', '', guarded, kw))
                elif f.id == 'representer' and fn.name == 'represent_data': out.append(('CDispatch', '', '', guarded, kw))
                else: out.append(('CGlob', f.id, '', guarded, kw))
            elif isinstance(f, ast.Attribute) and isinstance(f.value, ast.Name):
                out.append(('CAttr', f.attr, f.value.id, guarded, kw))      # module.function(...) or local_object.method(...)
            elif isinstance(f, ast.Attribute):
                out.append(('CMeth', f.attr, '', guarded, kw))              # method of an expression value
            else:
                out.append(('CDyn', '', '', guarded, kw))
        for c in ast.iter_child_nodes(node): visit(c, guarded)
    for s in fn.body: visit(s, False)
    # de-duplicate, keep order
    seen = []; 
    for c in out:
        if c not in seen: seen.append(c)
    return seen

def generate():
    rows = []; dispatch_tie = ['']
    for modname in ('constructor', 'representer'):
        tree, _ = parse(modname); file = modname + '.py'
        imported = set()
        for n in tree.body:
            if isinstance(n, ast.Import): imported |= {a.asname or a.name for a in n.names}
        for cls in tree.body:
            if not isinstance(cls, ast.ClassDef): continue
            for st in cls.body:
                if isinstance(st, ast.FunctionDef):
                    cs = calls_of(st, file, cls.name)
                    # `x.m(...)` where x is an imported module is CAttr; where x is a local object it is a method call
                    cs = [c if (c[0] != 'CAttr' or c[2] in imported) else ('CMeth', c[1], '', c[3], c[4]) for c in cs]
                    cs2 = []
                    for c in cs:
                        if c not in cs2: cs2.append(c)
                    rows.append((cls.name, st.name, cs2))
            if modname == 'constructor' and cls.name == 'BaseConstructor':
                co = find_method(cls, 'construct_object', file)
                body = [s for s in co.body]
                # locate the dispatch block: from `constructor = None` to the if/else that calls it.  The frozen normal form is the
                # fast syntactic tie; when the block was rewritten the tie is the behavioural dispatch correspondence alone
                # (tools/layers/dispatchcorr.py, run by C01 and C04 on every run either way).
                start = [i for i, s in enumerate(body) if ast.unparse(s) == 'constructor = None']
                if len(start) == 1 and '\n'.join(ast.unparse(s) for s in body[start[0]:start[0] + 4]) == DISPATCH_NORMAL_FORM:
                    dispatch_tie[0] = 'normal form + behavioural'
                elif not any(c[0] == 'CDispatch' for c in rows[[i for i, r in enumerate(rows) if r[:2] == (cls.name, 'construct_object')][0]][2]):
                    raise TranslateError(file, co.lineno, 'construct_object to call the selected `constructor(...)` by that name', 'no such call')
                else:
                    dispatch_tie[0] = 'behavioural only (dispatch block not in its frozen normal form)'
    def cq(c):
        return '{| c_kind := %s; c_name := %s; c_obj := %s; c_guarded := %s; c_unsafe_kw := %s |}' % (c[0], coq_str(c[1]), coq_str(c[2]), 'true' if c[3] else 'false', 'true' if c[4] else 'false')
    out = ['(* GENERATED by tools/translate/gen_calls.py from lib/yaml/constructor.py, representer.py -- do not edit *)',
           'From Coq Require Import List String.', 'Import ListNotations.', 'Require Import CallGraph.', 'Open Scope string_scope.',
           'Definition methods : list (string * string * list call) := [\n  ' + ';\n  '.join('(%s, %s, [%s])' % (coq_str(c), coq_str(m), '; '.join(cq(x) for x in cs)) for c, m, cs in rows) + '].']
    return {'GenCalls.v': '\n'.join(out) + '\n'}, {'calls': dict(n_methods=len(rows), dispatch_tie=dispatch_tie[0])}
