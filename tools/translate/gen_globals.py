"""GenGlobals / GenHandlers: (1) every module- and class-level mutable container of lib/yaml, every alias edge onto one
(`x = <such container>`) and every mutation site of such a container or of an attribute that may alias one, with the fact
whether the enclosing function rebinds that attribute to a fresh literal before its first write; (2) every try/except/finally:
enclosing function, caught classes, whether the handler re-raises / translates, and the calls the try body guards. Fail-closed."""
import ast, os
from .common import *

MODULES = ['__init__', 'composer', 'constructor', 'cyaml', 'dumper', 'emitter', 'error', 'events', 'loader', 'nodes', 'parser', 'reader', 'representer', 'resolver', 'scanner', 'serializer', 'tokens']
MUTATORS = {'append', 'extend', 'insert', 'pop', 'remove', 'clear', 'update', 'setdefault', 'add', 'discard', 'sort', 'reverse', 'popitem', '__setitem__', '__delitem__'}
def is_container_expr(v):
    if isinstance(v, (ast.Dict, ast.List, ast.Set, ast.ListComp, ast.DictComp, ast.SetComp)): return True
    if isinstance(v, ast.Call) and isinstance(v.func, ast.Name) and v.func.id in ('dict', 'list', 'set') : return True
    return False

def generate():
    containers = []        # (module, owner, name)
    trees = {}
    for m in MODULES:
        tree, _ = parse(m); trees[m] = tree
        for n in tree.body:
            if isinstance(n, ast.Assign) and len(n.targets) == 1 and isinstance(n.targets[0], ast.Name) and is_container_expr(n.value):
                if n.targets[0].id != '__all__': containers.append((m, '', n.targets[0].id))
            if isinstance(n, ast.ClassDef):
                for st in n.body:
                    if isinstance(st, ast.Assign) and len(st.targets) == 1 and isinstance(st.targets[0], ast.Name) and is_container_expr(st.value):
                        containers.append((m, n.name, st.targets[0].id))
    cnames = set(c[2] for c in containers)
    aliases = []; sites = []
    def root_attr(e):
        """name of the attribute / global a (possibly subscripted) expression is rooted at"""
        while isinstance(e, ast.Subscript): e = e.value
        if isinstance(e, ast.Attribute): return e.attr
        if isinstance(e, ast.Name): return e.id
        return None
    READERS = {'items', 'keys', 'values', 'get', 'copy'}
    PURE_CALLS = {'len', 'dict', 'list', 'sorted', 'iter', 'tuple', 'set', 'frozenset', 'enumerate', 'reversed', 'bool', 'any', 'all', 'isinstance', 'type', 'id', 'repr', 'str', 'min', 'max'}
    def read_only_local(f, name):
        """every occurrence of the local `name` in f is its definition or a read that cannot leak or change the object:
        x[k] (load), iteration, `k in x`, x.items()/keys()/values()/get()/copy(), len(x)/dict(x)/list(x)/sorted(x)..."""
        parent = {}
        for n in ast.walk(f):
            for c in ast.iter_child_nodes(n): parent[c] = n
        for n in ast.walk(f):
            if isinstance(n, ast.Name) and n.id == name:
                p = parent.get(n)
                if isinstance(n.ctx, ast.Store):
                    if isinstance(p, ast.Assign) and n in p.targets: continue
                    return False
                if isinstance(p, ast.Subscript) and p.value is n and isinstance(p.ctx, ast.Load): continue
                if isinstance(p, (ast.For, ast.comprehension)) and p.iter is n: continue
                if isinstance(p, ast.Compare): continue
                if isinstance(p, ast.Attribute) and p.value is n and p.attr in READERS and isinstance(parent.get(p), ast.Call) and parent[p].func is p: continue
                if isinstance(p, ast.Call) and n in p.args and isinstance(p.func, ast.Name) and p.func.id in PURE_CALLS: continue
                if isinstance(p, ast.List) and isinstance(parent.get(p), ast.Assign) and len(p.elts) == 1: continue      # x = [x]: wrapped in a fresh list
                return False
        return True
    for m, tree in trees.items():
        funcs = []
        for n in ast.walk(tree):
            if isinstance(n, ast.FunctionDef): funcs.append(n)
        # alias edges
        for f in funcs:
            for st in ast.walk(f):
                if isinstance(st, ast.Assign) and not is_container_expr(st.value):
                    src = st.value
                    if isinstance(src, (ast.Attribute, ast.Name)) and root_attr(src) in cnames and not (isinstance(src, ast.Name) and src.id not in [c[2] for c in containers if c[1] == '']):
                        for t in st.targets:
                            ta = root_attr(t)
                            if ta and not isinstance(t, ast.Subscript):
                                if isinstance(t, ast.Name) and read_only_local(f, t.id): continue      # a local name that is only read never exposes the container
                                aliases.append((m, f.name, ta, root_attr(src)))
        alias_targets = set(a[2] for a in aliases)
        watch = cnames | alias_targets
        for f in funcs:
            fresh = set()      # attributes rebound to a fresh literal so far (straight-line prefix of the function body)
            def scan(stmts, top):
                for st in stmts:
                    if top and isinstance(st, ast.Assign) and is_container_expr(st.value):
                        for t in st.targets:
                            if isinstance(t, ast.Attribute): fresh.add(t.attr)
                    for n in ast.walk(st):
                        tgt = None; op = None
                        if isinstance(n, (ast.Assign, ast.AugAssign, ast.Delete)):
                            ts = n.targets if not isinstance(n, ast.AugAssign) else [n.target]
                            for t in ts:
                                if isinstance(t, ast.Subscript) and root_attr(t) in watch: tgt, op = root_attr(t), 'setitem'
                        elif isinstance(n, ast.Call) and isinstance(n.func, ast.Attribute) and n.func.attr in MUTATORS and root_attr(n.func.value) in watch:
                            tgt, op = root_attr(n.func.value), n.func.attr
                        if tgt: sites.append((m, f.name, tgt, op, tgt in fresh))
            scan(f.body, True)
    # ---- handlers
    handlers = []
    for m, tree in trees.items():
        for f in [n for n in ast.walk(tree) if isinstance(n, ast.FunctionDef)]:
            for t in [n for n in ast.walk(f) if isinstance(n, ast.Try)]:
                guarded = sorted(set(ast.unparse(c.func) for s in t.body for c in ast.walk(s) if isinstance(c, ast.Call)))
                for h in t.handlers:
                    caught = ast.unparse(h.type) if h.type is not None else 'BARE'
                    raises = [ast.unparse(r.exc.func) if isinstance(r.exc, ast.Call) else (ast.unparse(r.exc) if r.exc else 'RERAISE') for r in ast.walk(h) if isinstance(r, ast.Raise)]
                    handlers.append((m, f.name, caught, ','.join(raises) if raises else 'SWALLOW', ';'.join(guarded)[:200]))
                if t.finalbody:
                    handlers.append((m, f.name, 'FINALLY', ';'.join(sorted(set(ast.unparse(c.func) for s in t.finalbody for c in ast.walk(s) if isinstance(c, ast.Call)))), ';'.join(guarded)[:200]))
    def tup(xs): return '(' + ', '.join(xs) + ')'
    out = ['(* GENERATED by tools/translate/gen_globals.py from lib/yaml/*.py -- do not edit *)',
           'From Coq Require Import List String.', 'Import ListNotations.', 'Open Scope string_scope.',
           'Definition containers : list (string * string * string) := [%s].' % '; '.join(tup([coq_str(a), coq_str(b), coq_str(c)]) for a, b, c in containers),
           'Definition alias_edges : list (string * string * string * string) := [%s].' % '; '.join(tup([coq_str(a), coq_str(b), coq_str(c), coq_str(d)]) for a, b, c, d in sorted(set(aliases))),
           'Definition mutation_sites : list (string * string * string * string * bool) := [%s].' % '; '.join(tup([coq_str(a), coq_str(b), coq_str(c), coq_str(d), 'true' if e else 'false']) for a, b, c, d, e in sorted(set(sites))),
           'Definition handlers : list (string * string * string * string * string) := [%s].' % ';\n  '.join(tup([coq_str(a), coq_str(b), coq_str(c), coq_str(d), coq_str(e)]) for a, b, c, d, e in handlers)]
    return {'GenGlobals.v': '\n'.join(out) + '\n'}, {'globals': dict(containers=len(containers), aliases=sorted(set(aliases)), sites=sorted(set(sites)), handlers=handlers)}
