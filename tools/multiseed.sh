#!/bin/bash
cd /verif
for S in 1 2 3 ""; do
  for P in C01 C02 C03 C04 C05 C06 C07 C08 C09 C10 C11 C12 C13 C14 C15 C16 C17 C18 C19 C20; do
    if [ -n "$S" ]; then export VERIF_SEED=$S; else unset VERIF_SEED; fi
    echo "== seed=$S $P"; VERIF_TIER=quick ./check $P 2>&1 | grep -E "VIOLATION|done:|Traceback|Error" | cut -c1-250
  done
done
echo ALLDONE
