"""Correspondence runs per layer: generate cases, run implementation workers and the extracted Coq model, compare.
Each function takes the Ctx, a case budget and an optional projection (what the calling property observes)."""
import re, os, json
from tools import vlib, gen
from tools.layers import base, scan as L_scan, parse as L_parse

def _texts(ctx, n, with_corpus=True):
    cases = gen.mutated_corpus(ctx.rng, n, with_corpus=with_corpus)
    return cases

def filter_reader_ok(texts):
    """keep texts the eager Reader accepts (printable)"""
    import re
    np = re.compile('[^\x09\x0A\x0D\x20-\x7E\x85\xA0-퟿-�\U00010000-\U0010ffff]')
    return [t for t in texts if not np.search(t) ]

def scan(ctx, n, project=None, texts=None, label='scan'):
    if not ctx.models(['scan']): return None
    texts = filter_reader_ok(texts if texts is not None else _texts(ctx, n))
    impl = vlib.run_impl('scan', texts)
    model = [L_scan.model_obs(b) for b in vlib.run_model_cases('scan', L_scan.model_lines(texts), end_marker='END')]
    for t, i in zip(texts, impl):
        ctx.count('scan_outcome_' + (i[-1].split()[1] if i and i[-1].startswith('END') else 'harness'))
        ctx.case(('scan', t), nontrivial=len(t) > 0, sample=dict(layer='scan', text=t[:120], outcome=i[-1] if i else None, tokens=len(i) - 1))
    base.compare(ctx, label, texts, impl, model, project=project, describe=lambda t: dict(text=t))
    return texts, impl, model

def parse(ctx, n, project=None, texts=None, label='parse'):
    if not ctx.models(['parse']): return None
    texts = filter_reader_ok(texts if texts is not None else _texts(ctx, n))
    impl = [L_parse.impl_obs(x) for x in vlib.run_impl('parse', texts)]
    model = [L_parse.model_obs(b) for b in vlib.run_model_cases('parse', L_parse.model_lines(texts), end_marker='END')]
    for t, i in zip(texts, impl):
        ctx.count('parse_outcome_' + (i[-1].split()[1] if i and i[-1].startswith('END') else 'harness'))
        ctx.case(('parse', t), nontrivial=len(t) > 0, sample=dict(layer='parse', text=t[:120], outcome=i[-1] if i else None, events=len(i) - 1))
    base.compare(ctx, label, texts, impl, model, project=project, describe=lambda t: dict(text=t))
    return texts, impl, model

# ---------------------------------------------------------------------------------------------------------------
from tools.layers import load as L_load, dump as L_dump, emit as L_emit, reader as L_reader
from tools import values, events

LOAD_SCALARS = ['-1:30.5','-190:20:30.15','-0:30.5','-1:30','-0x1F','-017','1','-1_0','0x1F','0b1_0','017','0','+12','1:30','190:20:30','1.5','-.5','1e3','1.0e+3','6.8523015e+5','685.230_15e+03','685_230.15','190:20:30.15','.inf','-.INF','.NaN','0.1','1e-400','1.7976931348623157e+308','1e400','4.9e-324','2.5e-324','0x_','0b_','09','1__','1._','yes','No','TRUE','off','~','null','','<<','=','2001-12-14','2001-12-14t21:59:43.10-05:00','2001-12-14 21:59:43.10 -5','2001-12-15 2:59:43.10','2002-12-14','2001-13-01','2001-1-1','2001-02-29','2004-02-29 00:00:00Z','2001-01-01 25:00:00','2001-01-01T1:00:00+25','2001-01-01 1:00:00.123456789+01:30','abc','a b','!!int abc','!!int ""','!!int " 12 "','!!int 0x0x1','!!int "-0b-1"','!!float x','!!float 1e5','!!float nan','!!float " 1.5 "','!!bool maybe','!!bool YES','!!timestamp x','!!timestamp 2001-1-1','!!binary "YQ=="','!!binary "YQ"','!!binary "YW Jj\\nZA=="','!!binary "YQ==YQ=="','!!binary "=YQ=="','!!binary "Y=Q=="','!!binary é','!!str 12','!!null x','!!seq [a]','!!map {a: b}','!!set {a, b, a}','!!omap [a: 1, b: 2]','!!pairs [a: 1, a: 2]','!!omap [a]','!!set [a]','!!foo x','!!python/object:os.system x','! "yes\\n"','!!str {=: v}','!!int {=: 7}','!!timestamp {=: 2001-01-01}','&a [*a]','&a {k: *a}','[&x [1], *x, *x]','{1: a, 1.0: b, true: c}','{.nan: 1, .NaN: 2}','{a: 1, <<: {a: 2, b: 3}}','{<<: [{a: 1}, {a: 2, c: 3}], <<: {c: 4}}','? [a]\n: b','&a {*a : b}','&m {<<: *m, x: 1}']
LOAD_ALPHA = list(" \n-:[]{},#&*!|>'\"a0.1_+e<=~x")

def load_texts(ctx, n):
    rng = ctx.rng; c = gen.corpus()
    cases = []
    for s0 in LOAD_SCALARS:
        cases.append(s0); cases.append('- ' + s0 + '\n- [x, ' + s0.split('\n')[0] + ' ]' if '\n' not in s0 else s0)
    cases += c
    while len(cases) < n:
        r = rng.random()
        if r < 0.3: t = gen.mutate(rng, rng.choice(c), LOAD_ALPHA)
        elif r < 0.55: t = gen.gen_doc(rng)
        elif r < 0.85: t = gen.mutate(rng, rng.choice(LOAD_SCALARS), LOAD_ALPHA)
        else: t = '\n'.join('k%d: %s' % (i, rng.choice(LOAD_SCALARS).split('\n')[0]) for i in range(rng.choice([1, 2, 4])))
        cases.append(t)
    return filter_reader_ok(cases)

def load(ctx, n, project=None, texts=None, loaders=('safe', 'base'), label='construct'):
    if not ctx.models(['load']): return None
    texts = filter_reader_ok(texts) if texts is not None else load_texts(ctx, n)
    cases = [(w, t) for w in loaders for t in texts]
    impl = vlib.run_impl('load', cases)
    model = vlib.run_model_cases('load', L_load.model_lines(cases), end_marker='END')
    keep = []
    for c, i, m in zip(cases, impl, model):
        if m and m[-1] == 'END UNMODELLED': ctx.count('construct_unmodelled'); continue
        if i and i[-1] == 'END RecursionError': ctx.count('construct_recursion_limit'); continue
        if c[0].startswith('c'):
            # LibYAML scans further ahead than the Python scanner: on a document with both a scanner-level and a parser-level defect
            # the two back-ends may report a different one of the two.  Both reject; the class is compared on the targeted
            # malformed classes only (C06 direct run).
            fam = lambda x: [re.sub(r'^END (ScannerError|ParserError)$', 'END Scanner/ParserError', l) for l in x]
            i, m = fam(i), fam(m)
        keep.append((c, i, m))
        ctx.count('construct_' + c[0] + '_' + (i[-1].split()[1] if i and i[-1].startswith('END') else 'harness'))
        ctx.case(('load',) + tuple(c), nontrivial=len(c[1]) > 0, sample=dict(layer='construct', loader=c[0], text=c[1][:120], outcome=i[-1] if i else None))
    base.compare(ctx, label, [k[0] for k in keep], [k[1] for k in keep], [k[2] for k in keep], project=project, describe=lambda c: dict(loader=c[0], text=c[1]))
    return keep

def dump_cases(ctx, n, odd_tz=True):
    rng = ctx.rng; cases = []
    for _ in range(n):
        v = values.build(rng, rng.choice([0, 1, 2, 3, 4]), [], odd_tz)
        cases.append([rng.choice([None, None, None, '"', "'", '|', '>']), rng.choice([True, False, None]), rng.choice([True, True, False]), values.encode(v)])
    return cases

def dump(ctx, n, project=None, cases=None, label='represent'):
    if not ctx.models(['dump']): return None
    cases = cases if cases is not None else dump_cases(ctx, n)
    impl2 = vlib.run_impl('dump', cases)
    # the worker re-encodes the value it rebuilt: set iteration order is the worker's, and that is what the model must see
    cases = [[c[0], c[1], c[2], i[1]] if len(i) > 1 else c for c, i in zip(cases, impl2)]
    impl = [i[:1] for i in impl2]
    model = vlib.run_model_cases('dump', L_dump.model_lines(cases))
    for c, i in zip(cases, impl):
        ctx.count('represent_' + ('ok' if i and ' ' in i[0] or i == ['DS ; DE'] else (i[0] if i else 'harness')))
        ctx.case(('dump',) + tuple(c), nontrivial=True, sample=dict(layer='represent', options=c[:3], value=c[3][:120]))
    base.compare(ctx, label, cases, impl, model, project=project, describe=lambda c: dict(default_style=c[0], default_flow_style=c[1], sort_keys=c[2], value=c[3]))
    return cases, impl, model

def emit_cases(ctx, n, wf_share=0.6):
    rng = ctx.rng
    return [events.enc_case(events.stream(rng, wf=rng.random() < wf_share), events.options(rng)) for _ in range(n)]

def emit(ctx, n, project=None, cases=None, label='emit'):
    if not ctx.models(['emit']): return None
    cases = cases if cases is not None else emit_cases(ctx, n)
    impl = vlib.run_impl('emit', cases)
    model = vlib.run_model_cases('emit', cases)
    for c, i in zip(cases, impl):
        ctx.count('emit_' + (i[0].rsplit('|', 1)[1] if i and '|' in i[0] else 'harness'))
        ctx.case(('emit', c), nontrivial=True, sample=dict(layer='emit', case=c[:160], outcome=i[0].rsplit('|', 1)[-1] if i else None))
    base.compare(ctx, label, cases, impl, model, project=project, describe=lambda c: dict(case=c))
    return cases, impl, model

def reader(ctx, n, project=None, cases=None, label='reader'):
    if not ctx.models(['reader']): return None
    if cases is None:
        cases = []
        c = gen.corpus()[:80]
        while len(cases) < n:
            x = L_reader.gen_case(ctx.rng, c)
            if x is not None: cases.append(x)
    impl = vlib.run_impl('reader', cases)
    model = vlib.run_model_cases('reader', L_reader.model_lines(cases))
    for c, i in zip(cases, impl):
        ctx.count('reader_' + c[0] + '_' + (i[0].rsplit('| ', 1)[1].split()[0] if i and '|' in i[0] else 'harness'))
        ctx.case(('reader', c[0], tuple(c[1][:200]), tuple(c[2]), len(c[3])), nontrivial=len(c[1]) > 0, sample=dict(layer='reader', form=c[0], n_units=len(c[1]), schedule=c[2][:6], ops=c[3][:6], outcome=i[0].rsplit('| ', 1)[-1] if i else None))
    base.compare(ctx, label, cases, impl, model, project=project, describe=lambda c: dict(form=c[0], data=c[1][:400], sizes=c[2], ops=c[3][:50]))
    return cases, impl, model

# ---------------------------------------------------------------------------------------------------------------
import itertools
from tools import spec11
RES_ALPHA = list("0123456789+-_.:eExbonyYNtTfFlLuUsSaAiI~<= \tZ\n!&*OrR")
RES_SEEDS = ['-1:30.5','-190:20:30.15','+1:30.5','-0:30.5','-2:3:4.5','-1:05.','-1:30','-0x1F','-0b101','-017','-1e3','-1.5e+10','-.5','yes','No','TRUE','off','1.5','-1_0.5e+10','.5','1:30:00.5','+.inf','.NaN','0b1_01','0o7','017','0','-12_3','0xFf_','190:20:30','<<','~','null','','2001-12-14',
             '2001-12-14t21:59:43.10-05:00','2001-12-14 21:59:43.10 -5','2001-1-1 1:00:00Z','=','!','&','*','0x_','0b_','-0x_','1e5','1.e+5','1_0:5_9','-.inf','2001-12-14T21:59:43Z','2001-12-14 21:59:43 +5:30','2001-13-01','2001-02-30','2001-01-01 25:00:00','2001-01-01 1:00:00+25','2001-01-01 00:61:00','2001-00-01']
def resolve_strings(ctx, maxlen, n_random, n_mut):
    rng = ctx.rng
    strings = ['']
    small = list("01+-_.:ex~n<=yT ")
    for n in range(1, maxlen + 1):
        alpha = RES_ALPHA if n <= 2 else small if n <= 4 else list("01-_.:e")
        strings += [''.join(t) for t in itertools.product(alpha, repeat=n)]
    for _ in range(n_random):
        strings.append(''.join(rng.choice(RES_ALPHA) for _ in range(rng.choice([4, 5, 6, 8, 10, 19, 25]))))
    strings += spec11.all_keywords() + spec11.members(rng, max(50, n_mut))
    for s0 in RES_SEEDS + spec11.all_keywords():
        strings.append(s0)
        for _ in range(n_mut):
            t = list(s0)
            for _ in range(rng.choice([1, 1, 2, 3])):
                if t and rng.random() < 0.4: del t[rng.randrange(len(t))]
                else: t.insert(rng.randrange(len(t) + 1), rng.choice(RES_ALPHA))
            strings.append(''.join(t))
    # long members of the type productions (no length limit in the YAML 1.1 rules): around 64, 128, 256 and 1000 characters
    for n in (63, 64, 65, 66, 127, 129, 257, 1000):
        strings += ['1' * n, '-' + '9' * n, '0b' + '10' * (n // 2), '0x' + 'fE' * (n // 2), '0' + '7' * n, '1_0' * (n // 3), '1' * (n - 3) + ':30', '0.' + '3' * n, '1' + '0' * n + '.e+3',
                    '.' + '5' * n, '2001-12-14 21:59:43.' + '1' * n, '1' * n + 'x', 'y' * n, '~' * n]
    return strings

def resolve(ctx, strings, label='resolve'):
    """Coq matcher (regenerated regexes) vs live re objects; returns per-string (impl_obs, model_bits)."""
    if not ctx.models(['rx']): return None
    names = [r['tag'] for r in ctx.gen_meta.get('resolvers', [])]
    impl = vlib.run_impl('resolve', strings)
    model = vlib.run_model_cases('rx', [' '.join(str(ord(c)) for c in s) for s in strings])
    n_bad = 0
    for s, i, m in zip(strings, impl, model):
        ctx.corr_count(label)
        if not isinstance(i, list) or len(i) < 5 or not m or m[0].startswith('MODEL-DIED'):
            ctx.disagreement(label, dict(text=s), dict(impl=str(i)[:200], model=str(m)[:200])); continue
        bits, ts, np, tag, qtag = i
        mb, mts, mnp = (m[0].split(' ') + ['', ''])[:3]
        mbits = {t: mb[k] for k, t in enumerate(names)}
        matched = [t for t in names if mbits[t] == '1']
        ctx.count('resolve_' + (matched[0].rsplit(':', 1)[1] if matched else 'str'))
        ctx.case(('resolve', s), nontrivial=bool(matched) or len(s) > 0, sample=dict(layer='resolve', text=s, model_tag=(matched[0] if matched else spec11.STR), impl_tag=tag))
        ok = (set(bits) == set(names) and all(bits[t] == mbits[t] for t in names) and ts == mts and np == mnp and mb[len(names):].strip('0') == '')
        if not ok:
            ctx.disagreement(label, dict(text=s), dict(impl=dict(bits=bits, ts=ts, np=np), model=dict(bits=mbits, ts=mts, np=mnp)))
    return impl, model

# ---------------------------------------------------------------------------------------------------------------
def direct(ctx, kind, payloads, describe=None, label=None):
    """run the property's own predicate on the implementation (tools/layers/direct.py) for every payload"""
    cases = [[kind] + (p if isinstance(p, list) else [p]) for p in payloads]
    res = vlib.run_impl('direct', cases)
    out = []
    for p, r in zip(payloads, res):
        ctx.count((label or kind) + '_' + (r.get('outcome', 'done') if isinstance(r, dict) else 'harness'))
        d = describe(p) if describe else dict(case=p)
        if not isinstance(r, dict):
            ctx.violation('the direct run could not evaluate this case: ' + str(r)[:300], d, dict(kind='harness', **d)); continue
        ctx.case((kind, repr(p)[:2000]), nontrivial=True, sample=dict(direct=kind, **{k: (v[:120] if isinstance(v, str) else v) for k, v in d.items()}))
        for b in r.get('bad', []):
            sig = dict(d); sig.update(b)
            ctx.violation(b['what'], sig, sig)
        out.append(r)
    return res

# ---------------------------------------------------------------------------------------------------------------
# the parser alone on token lists (Model/ParseL.v, the model of the parser-safety theorems)
# ---------------------------------------------------------------------------------------------------------------
from tools.layers import parsel as L_parsel
def token_lists(rng, n, maxlen_exhaustive=2):
    """bounded-exhaustive short lists over all token kinds between STREAM-START and STREAM-END, random longer ones biased towards
    grammatical shapes, and raw lists that are not delimited at all"""
    import itertools
    inner = [k for k in L_parsel.NAMES if k not in ('StreamStart', 'StreamEnd')]
    out = [['StreamStart', 'StreamEnd'], ['StreamStart'], [], ['StreamEnd'], ['StreamStart', 'StreamEnd', 'StreamEnd'], ['StreamStart', 'Scalar'], ['Scalar', 'StreamEnd'], ['StreamStart', 'BlockSequenceStart', 'BlockEntry']]
    for L in range(1, maxlen_exhaustive + 1):
        for t in itertools.product(inner, repeat=L): out.append(['StreamStart'] + list(t) + ['StreamEnd'])
    def node(d, flow):
        r = rng.random(); props = rng.choice([[], [], [], ['Anchor'], ['Tag'], ['Anchor', 'Tag'], ['TagSecondary', 'Anchor'], ['TagVerbatim'], ['TagBang'], ['TagUndef']])
        if d <= 0 or r < 0.4: return props + rng.choice([['Scalar'], ['ScalarQuoted'], ['Alias'], []])
        if r < 0.55: return props + ['FlowSequenceStart'] + sum(([x for x in (rng.choice([node(d - 1, True), ['Key'] + node(d - 1, True) + ['Value'] + node(d - 1, True)]))] + ['FlowEntry'] for _ in range(rng.choice([0, 1, 2]))), []) + rng.choice([node(d - 1, True), []]) + ['FlowSequenceEnd']
        if r < 0.7: return props + ['FlowMappingStart'] + sum((rng.choice([['Key'] + node(d - 1, True) + ['Value'] + node(d - 1, True), node(d - 1, True), ['Key'] + node(d - 1, True)]) + ['FlowEntry'] for _ in range(rng.choice([0, 1, 2]))), []) + ['FlowMappingEnd']
        if flow: return props + ['Scalar']
        if r < 0.85: return props + ['BlockSequenceStart'] + sum((['BlockEntry'] + rng.choice([node(d - 1, False), []]) for _ in range(rng.choice([1, 2, 3]))), []) + ['BlockEnd']
        return props + ['BlockMappingStart'] + sum((rng.choice([['Key'] + node(d - 1, False), ['Key'], []]) + rng.choice([['Value'] + node(d - 1, False), ['Value'] + sum((['BlockEntry'] + node(d - 2, False) for _ in range(2)), []), ['Value'], []]) for _ in range(rng.choice([1, 2, 3]))), []) + ['BlockEnd']
    while len(out) < n + 8 + sum(len(inner) ** L for L in range(1, maxlen_exhaustive + 1)):
        docs = []
        for i in range(rng.choice([1, 1, 2, 3])):
            head = rng.choice([[], [], ['DocumentStart'], ['Directive', 'DocumentStart'], ['DirectiveTag', 'DocumentStart'], ['Directive', 'Directive', 'DocumentStart'], ['DirectiveV2', 'DocumentStart'], ['DirectiveFoo', 'DocumentStart'], ['DirectiveTag', 'DirectiveTag', 'DocumentStart']])
            if i > 0 and not head: head = ['DocumentStart']
            docs += head + node(rng.choice([0, 1, 2, 3]), False) + rng.choice([[], [], ['DocumentEnd'], ['DocumentEnd', 'DocumentEnd']])
        toks = ['StreamStart'] + docs + ['StreamEnd']
        r = rng.random()
        if r < 0.35:                                              # token-level mutation: delete / duplicate / replace / swap
            for _ in range(rng.choice([1, 1, 2])):
                if not toks: break
                i = rng.randrange(len(toks)); m = rng.random()
                if m < 0.3: del toks[i]
                elif m < 0.5: toks.insert(i, toks[i])
                elif m < 0.8: toks[i] = rng.choice(L_parsel.NAMES)
                elif i + 1 < len(toks): toks[i], toks[i + 1] = toks[i + 1], toks[i]
        out.append(toks)
    return out

def parsel(ctx, lists, label='parsel'):
    if not ctx.models(['parsel']): return None
    impl = [L_parsel.impl_obs(x) for x in vlib.run_impl('parsel', lists)]
    model = [L_parsel.model_obs(b) for b in vlib.run_model_cases('parsel', L_parsel.model_lines(lists), end_marker='END')]
    for t, i in zip(lists, impl):
        ctx.count('parsel_outcome_' + (i[-1].split()[1] if i and i[-1].startswith('END') else 'harness'))
        ctx.case(('parsel', tuple(t)), nontrivial=len(t) > 2, sample=dict(layer='parsel', tokens=' '.join(t)[:160], outcome=i[-1] if i else None, events=len(i) - 1))
    base.compare(ctx, label, lists, impl, model, describe=lambda t: dict(tokens=t))
    return lists, impl, model

# ---------------------------------------------------------------------------------------------------------------
# the tag dispatch of construct_object alone (Model/Dispatch.v, the model of the C01/C04 closure theorems)
# ---------------------------------------------------------------------------------------------------------------
from tools.layers import dispatchcorr as L_disp
def dispatch(ctx, n, cases=None):
    if not os.path.exists(os.path.join(vlib.COQ, 'Model', 'Dispatch.vo')):
        rc, out = vlib.coq_make(['Model/Dispatch.vo'])
        if rc != 0:
            ctx.broken.append(('build:Dispatch', out[-1500:])); return
    cases = cases if cases is not None else L_disp.gen_cases(ctx.rng, n)
    obs = vlib.run_impl('dispatchcorr', cases)
    ok_cases, ok_obs = [], []
    for c, o in zip(cases, obs):
        if isinstance(o, list) and len(o) == 2 and isinstance(o[0], str) and (o[1] is None or isinstance(o[1], str)):
            ok_cases.append(c); ok_obs.append(o)
        else:
            ctx.corr_count('dispatch'); ctx.count('dispatch_impl_' + str(o)[:40])
            ctx.disagreement('dispatch', c, dict(impl=str(o)[:300], model='exactly one handler is called'))
    res, logs = L_disp.eval_cases(ok_cases, ok_obs, os.path.join(vlib.BUILD, 'cases', ctx.prop + '_dispatch'))
    for l in logs[:1]: ctx.broken.append(('corr:dispatch', 'the Coq side failed to evaluate a case file: ' + l))
    for c, o, r in zip(ok_cases, ok_obs, res):
        ctx.corr_count('dispatch')
        ctx.count('dispatch_' + ('exact' if o[0].startswith('c') and o[1] is None and [c['tag'], o[0]] in c['ctors'] else 'multi' if o[0].startswith('m') else 'none_exact' if o[0].startswith('c') and o[0][1:].isdigit() else 'kind_default'))
        ctx.case(('dispatch', json.dumps(c, sort_keys=True)), nontrivial=bool(c['ctors'] or c['multi']), sample=dict(layer='dispatch', tag=c['tag'], ctors=len(c['ctors']), multi=len(c['multi']), called=o[0], suffix=o[1]))
        if r is False:
            ctx.disagreement('dispatch', c, dict(impl=o, model='Dispatch.dispatch / dispatch_suffix select a different handler or suffix'))
    return cases

INDICATORS = list("-:?[]{},#&*!|>'\"%a \n")
def indicator_strings(maxlen):
    out = []
    for n in range(1, maxlen + 1):
        out += [''.join(t) for t in itertools.product(INDICATORS, repeat=n)]
    return out
