"""Case generators shared by the correspondence layers.  Every random choice comes from the rng passed in
(derived from VERIF_SEED), so a case replays from (seed, index)."""
import glob, os
REPO = os.environ.get('VERIF_REPO', '/repo')
ALPHABET = list(" \n\t-:?[]{},#&*!|>'\"%@`\r\x85  ﻿a0.<=~\\xuU9f+_/")
_corpus = None
def corpus():
    """the repo's own test data files as text (valid and deliberately invalid documents)"""
    global _corpus
    if _corpus is None:
        _corpus = []
        for f in sorted(glob.glob(os.path.join(REPO, 'tests/legacy_tests/data/*'))):
            if f.endswith(('.code', '.py')): continue
            try: _corpus.append(open(f, 'rb').read().decode('utf-8'))
            except Exception: pass
        if not _corpus: _corpus = ['a: b\n']
    return _corpus

def mutate(rng, t, alphabet=ALPHABET):
    t = list(t)
    for _ in range(rng.choice([0, 1, 1, 2, 4, 8])):
        if not t: t = ['a']
        i = rng.randrange(len(t)); op = rng.random()
        if op < 0.3: del t[i]
        elif op < 0.6: t.insert(i, rng.choice(alphabet))
        elif op < 0.8: t[i] = rng.choice(alphabet)
        else:
            j = rng.randrange(len(t)); t[i], t[j] = t[j], t[i]
    return ''.join(t)

def mutated_corpus(rng, n, with_corpus=True):
    c = corpus()
    cases = list(c) if with_corpus else []
    while len(cases) < n:
        r = rng.random()
        if r < 0.25: t = gen_doc(rng)
        else: t = mutate(rng, rng.choice(c))
        if rng.random() < 0.3: t = t[:rng.choice([10, 40, 200])]
        if rng.random() < 0.1: t = ''.join(rng.choice(ALPHABET) for _ in range(rng.choice([1, 2, 3, 5, 8, 13])))
        cases.append(t)
    return cases[:n] if not with_corpus else cases

# ---------------------------------------------------------------------------------------------------------------
# grammar-directed, mostly valid documents over the construct inventory
# ---------------------------------------------------------------------------------------------------------------
PLAIN = ['a', 'b c', 'yes', 'No', '~', 'null', '12', '0x1F', '0o7', '017', '1_000', '-3', '+1.5', '1e3', '1.5e+3', '.inf', '-.INF', '.nan', '1:30', '190:20:30.15',
         '2001-12-14', '2001-12-14t21:59:43.10-05:00', '2001-12-14 21:59:43.10 -5', '<<', '=', 'x: y'.replace(': ', ':'), 'a#b', 'http://x.y/z', 'é', '☺', '0x_', '0b_', '2001-13-01', 'key with spaces', '-', '?x', ':x', 'a,b', '']
BREAKS = ['\n', '\n', '\n', '\r\n', '\r', '\x85', ' ', ' ']
TAGS = ['', '', '', '', '!!str ', '!!int ', '!!float ', '!!bool ', '!!null ', '!!binary ', '!!timestamp ', '!!seq ', '!!map ', '!!set ', '!!omap ', '!!pairs ', '!local ', '! ',
        '!<tag:yaml.org,2002:str> ', '!!python/tuple ', '!!python/object:os.system ', '!e!x ', '!<!x> ', '!!python/name:os.path ', '!!value ', '!!merge ',
        '!caf%C3%A9 ', '!<tag:e.com,2000:%E2%82%ACx> ', '!%21x ', '!e!%C3%A9%20y ', '!x%C3 ', '!x%FF%41 ', '!%F0%9F%98%80 ']
def scalar(rng, ctx_flow, indent):
    r = rng.random()
    if r < 0.45:
        s = rng.choice(PLAIN)
        if ctx_flow: s = s.replace(',', '').replace('[', '').replace(']', '').replace('{', '').replace('}', '')
        return s
    if r < 0.6: return "'" + rng.choice(['', 'a', "it''s", 'a b', 'a\n' + ' ' * (indent + 1) + 'b', '# no', ' x ']) + "'"
    if r < 0.8: return '"' + rng.choice(['', 'a', 'a\\nb', '\\x41', '\\u263A', '\\U0001F600', 'a\\\n  b', 'tab\\t', '\\0', '\\e', ' x ', 'a\n' + ' ' * (indent + 1) + 'b', '\\_', '\\N', '\\L', '\\P', '\\"', '\\\\', '\\/', 'é']) + '"'
    if ctx_flow: return rng.choice(PLAIN[:20])
    hdr = rng.choice(['|', '>', '|-', '|+', '>-', '>+', '|2', '>1-', '|+1'])
    if rng.random() < 0.12: return hdr + rng.choice(['\n', '\n\n', '\n\n\n', ' # c\n'])          # a block scalar without content (empty or blank lines only)
    ind = ' ' * (indent + (int(hdr[1]) if len(hdr) > 1 and hdr[1].isdigit() else int(hdr[2]) if len(hdr) > 2 and hdr[2].isdigit() else rng.choice([1, 2, 4])))
    lines = [rng.choice(['text', 'more text', '  indented', '', 'x # not comment', 'a: b', '- c']) for _ in range(rng.choice([1, 2, 3, 4]))]
    return hdr + rng.choice(['', ' # c']) + '\n' + '\n'.join((ind + l) if l else '' for l in lines) + rng.choice(['', '\n', '\n\n'])

def node(rng, depth, indent, flow, anchors):
    """returns text of a node, block nodes start on the current line"""
    props = ''; pa = pt = ''
    if rng.random() < 0.12:
        a = ('a%d' % len(anchors)) if rng.random() < 0.85 else 'a0'; anchors.append(a); pa = '&' + a + ' '
    if rng.random() < 0.15: pt = rng.choice(TAGS)
    props = (pt + pa) if (pa and pt and rng.random() < 0.4) else (pa + pt)        # both orders of the node properties
    if props and depth > 0 and rng.random() < 0.08: return props.rstrip()       # properties with empty content
    if anchors and rng.random() < 0.1: return '*' + rng.choice(anchors)
    r = rng.random()
    if depth <= 0 or r < 0.4:
        return props + scalar(rng, flow, indent)
    if flow or r < 0.55:
        n = rng.choice([0, 1, 2, 3])
        if rng.random() < 0.5:
            return props + '[' + ', '.join((': ' if rng.random() < 0.06 else '') + node(rng, depth - 1, indent, True, anchors) for _ in range(n)) + rng.choice(['', ',']) * (n > 0) + ']'
        items = []
        for _ in range(n):
            k = node(rng, 0, indent, True, anchors)
            rr = rng.random()
            if rr < 0.7: items.append(k + ': ' + node(rng, depth - 1, indent, True, anchors))
            elif rr < 0.8: items.append('? ' + k + ' : ' + node(rng, depth - 1, indent, True, anchors))
            elif rr < 0.86: items.append(k)
            elif rr < 0.93: items.append(': ' + node(rng, depth - 1, indent, True, anchors))       # an entry with an empty key
            else: items.append(k + ':')
        return props + '{' + ', '.join(items) + '}'
    pad = ' ' * indent
    n = rng.choice([1, 2, 3])
    nl = rng.choice(BREAKS) if rng.random() < 0.15 else '\n'
    if r < 0.78:
        out = []
        for _ in range(n):
            child = node(rng, depth - 1, indent + 2, False, anchors)
            out.append(pad + '- ' + child if not child.startswith('\n') else pad + '-' + child)
        return (props.rstrip() if props else '') + nl + nl.join(out)
    out = []
    for i in range(n):
        if rng.random() < 0.1: k = '<<'
        elif rng.random() < 0.1: k = '? ' + node(rng, 1, indent + 2, False, anchors) + nl + pad
        else: k = node(rng, 0, indent, True, anchors).replace('\n', ' ')
        child = node(rng, depth - 1, indent + 2, False, anchors)
        sep = ':' if child.startswith(('\n', '\r', '\x85', ' ', ' ')) else ': '
        out.append(pad + k + sep + child + (rng.choice(['', ' # comment']) if '\n' not in child and not child.startswith(('|', '>')) else ''))
    return (props.rstrip() if props else '') + nl + nl.join(out)

def gen_doc(rng):
    docs = []
    for di in range(rng.choice([1, 1, 1, 2, 3])):
        head = ''
        if rng.random() < 0.12: head += rng.choice(['%YAML 1.1\n', '%YAML 1.2\n', '%TAG !e! tag:example.com,2000:\n', '%TAG ! !foo-\n', '%FOO bar\n', '%YAML 1.1\n%TAG !e! tag:e.com:\n', '%TAG !e! tag:e.com,2000:%C3%A9/\n'])
        if head or di > 0 and rng.random() < 0.9 or rng.random() < 0.4: head += '---' + rng.choice([' ', '\n', ' # c\n'])
        anchors = []
        body = node(rng, rng.choice([0, 1, 2, 3, 4]), 0, False, anchors)
        if head.endswith(('--- ', '---\n', ' # c\n')) and rng.random() < 0.07: body = rng.choice(['', '# nothing here', '&e', '!!str'])     # an explicit document without content (what follows decides where it ends)
        if head.endswith(' ') and body.startswith('\n'): body = body[1:]
        tail = rng.choice(['\n', '\n', '', '\n...\n', '\n... # end\n'])
        docs.append(head + body + tail)
    t = ''.join(docs)
    if rng.random() < 0.05: t = '﻿' + t
    if rng.random() < 0.1: t = '# leading comment\n' + t
    return t

def cps(t): return ' '.join(str(ord(c)) for c in t)
