"""`--update` rewrites the block between the SEED-TABLE markers of DESIGN.md.
Prints the markdown table of seeded changes (DESIGN.md part I, section 9) from seeded/*/meta.json."""
import json, glob, os, sys, io
_out = io.StringIO(); _print = print
def print(*a): _print(*a, file=_out)
V = os.path.dirname(os.path.dirname(os.path.abspath(__file__)))
rows = []
for p in sorted(glob.glob(os.path.join(V, 'seeded', '*', 'meta.json'))):
    m = json.load(open(p))
    fi, nfi, quiet = [], [], []
    for k, v in m.get('checks', {}).items():
        if not v.get('alarm'): quiet.append(k)
        elif 'no-failing-input-found' in v.get('line', ''): nfi.append(k)
        else: fi.append(k)
    rows.append((m['seed'], m.get('breaks_property', ''), m.get('description', '').replace('|', '/').replace('\n', ' '), fi, nfi, quiet, m.get('strengthened', '')))
print('| seeded change | breaks | what the change does | VIOLATION with a failing input | VIOLATION no-failing-input-found | ran, stayed quiet |')
print('|---|---|---|---|---|---|')
for s, b, d, fi, nfi, q, st in rows:
    print('| `%s` | %s | %s | %s | %s | %s |' % (s, b, d[:260], ' '.join(fi) or '-', ' '.join(nfi) or '-', ' '.join(q) or '-'))
print()
print('Checks that had to be strengthened before the change was caught (first run missed it or found no failing input):')
print()
for s, b, d, fi, nfi, q, st in rows:
    if st: print('* `%s`: %s' % (s, st))

text = _out.getvalue()
if '--update' in sys.argv:
    p = os.path.join(V, 'DESIGN.md'); d = open(p).read()
    a = d.index('<!-- SEED-TABLE-BEGIN -->') + len('<!-- SEED-TABLE-BEGIN -->'); b = d.index('<!-- SEED-TABLE-END -->')
    open(p, 'w').write(d[:a] + '\n' + '%d seeded changes so far.\n\n' % len(rows) + text + d[b:])
else: _print(text)
