"""C20 catalogue: size-parameterised families of documents (load side) and values (dump side)."""
LOAD = {
 'plain_long':      lambda n: 'a: ' + 'x' * (10 * n),
 'plain_multiline': lambda n: 'a: ' + ('word ' * 5 + '\n   ') * n + 'end',
 'entries':         lambda n: '- item\n' * n,
 'map_entries':     lambda n: ''.join('k%d: v\n' % i for i in range(n)),
 'flow_seq':        lambda n: '[' + ', '.join('a' for _ in range(n)) + ']',
 'flow_map':        lambda n: '{' + ', '.join('k%d: v' % i for i in range(n)) + '}',
 'dq_long':         lambda n: '"' + 'word ' * (2 * n) + '"',
 'dq_escapes':      lambda n: '"' + '\\n\\x41\\u263A' * n + '"',
 'dq_folded':       lambda n: '"' + ('word word\n  ' * n) + 'end"',
 'sq_long':         lambda n: "'" + "it''s " * (2 * n) + "'",
 'literal':         lambda n: '|\n' + '  line\n' * n,
 'folded':          lambda n: '>\n' + '  line more\n' * n,
 'literal_keep':    lambda n: '|+\n' + '  line\n' * n + '\n' * 3,
 'comments':        lambda n: '# c\n' * n + 'a',
 'trailing_comments': lambda n: ''.join('k%d: v # comment\n' % i for i in range(n)),
 'blank_run':       lambda n: '\n' * (5 * n) + 'a',
 'spaces_run':      lambda n: 'a:' + ' ' * (10 * n) + 'b',
 'nesting_flow':    lambda n: '[' * min(n, 120) + ']' * min(n, 120),
 'nesting_block':   lambda n: ''.join(' ' * i + 'k:\n' for i in range(min(n, 120))) + ' ' * min(n, 120) + 'v',
 'documents':       lambda n: '--- a\n' * n,
 'documents_end':   lambda n: '--- a\n...\n' * n,
 'anchors':         lambda n: ''.join('- &a%d x\n' % i for i in range(n)),
 'aliases':         lambda n: '- &a x\n' + '- *a\n' * n,
 'long_key':        lambda n: '? ' + 'k' * (10 * n) + '\n: v\n',
 'long_simple_key': lambda n: ''.join('%s: v\n' % ('k' * 200) for _ in range(n)),
 'tags':            lambda n: ''.join('- !!str x%d\n' % i for i in range(n)),
 'ints_floats':     lambda n: ''.join('- %d\n- %d.5\n' % (i, i) for i in range(n)),
 'merge_keys':      lambda n: 'base: &b {a: 1}\n' + ''.join('m%d: {<<: *b, c: %d}\n' % (i, i) for i in range(n)),
 'binary':          lambda n: '!!binary |\n' + '  QUJDREVGR0hJSktMTU5PUFFSU1RVVldYWVo=\n' * n,
 'merge_list':      lambda n: 'a: &a {x: 1}\nb: &b {y: 2}\n' + ''.join('m%d: {<<: [*a, *b], k: %d}\n' % (i, i) for i in range(n)),
 'number_like':     lambda n: ''.join('- %sA\n- %s-7\n' % ('4' + '0123456789' * 5, '1_000' * 9) for _ in range(n)),
 'seq_of_maps':     lambda n: ''.join('- a: %d\n  b: x\n' % i for i in range(n)),
 # typed collections and scalars of the YAML 1.1 repository (constructor-bound work)
 'omap':            lambda n: '!!omap\n' + ''.join('- k%d: v\n' % i for i in range(n)),
 'omap_flow':       lambda n: '!!omap [' + ', '.join('k%d: v' % i for i in range(n)) + ']',
 'pairs':           lambda n: '!!pairs\n' + ''.join('- k%d: v\n' % (i % 7) for i in range(n)),
 'set':             lambda n: '!!set\n' + ''.join('? e%d\n' % i for i in range(n)),
 'timestamps':      lambda n: '- 2001-12-14t21:59:43.10-05:00\n- 2002-12-14\n' * n,
 'sexagesimal':     lambda n: '- 190:20:30.15\n- 1:30\n' * n,
 'bools_nulls':     lambda n: '- yes\n- ~\n- No\n' * n,
 'quoted_keys':     lambda n: ''.join('"k%d": \'v\'\n' % i for i in range(n)),
 'seq_of_flow_seqs': lambda n: '- [a, b, 1]\n' * n,
 'dup_keys':        lambda n: 'k: 1\n' * n,
 # one long line of many words, with the character that ends / reclassifies the scalar far to the right (a look-ahead repeated per word would be quadratic)
 'plain_words':         lambda n: 'a: ' + 'word ' * (2 * n) + 'end',
 'plain_words_comment': lambda n: 'a: ' + 'word ' * (2 * n) + '# note',
 'plain_words_colon':   lambda n: 'a: ' + 'word ' * (2 * n) + '12:30',
 'plain_words_url':     lambda n: 'a: ' + 'see http://x.y/z?q=1#f ' * n + 'end',
 'flow_words':          lambda n: '[' + 'word ' * (2 * n) + ', k: v]',
 'flow_words_colon':    lambda n: '{k: ' + 'word ' * (2 * n) + 'a:b, z: 1}',
 'dq_space_run':        lambda n: '"a' + ' ' * (10 * n) + 'b"',
 'sq_space_run':        lambda n: "'a" + ' ' * (10 * n) + "b'",
 'literal_long_line':   lambda n: '|\n  ' + 'x ' * (5 * n) + '\n',
 'comment_long':        lambda n: '# ' + 'c ' * (5 * n) + '\na',
 'indicator_words':     lambda n: 'a: ' + 'a-b c?d e,f ' * n + 'end',
}
def _deep(n):
    v = []
    for _ in range(min(n, 100)): v = [v]
    return v
DUMP = {
 'list_ints':       lambda n: list(range(n)),
 'list_strs':       lambda n: ['item %d' % i for i in range(n)],
 'dict_strs':       lambda n: {'k%d' % i: 'v' for i in range(n)},
 'dict_sorted_rev': lambda n: {'k%06d' % (n - i): i for i in range(n)},
 'long_str':        lambda n: 'x' * (10 * n),
 'long_words':      lambda n: 'word ' * (3 * n),
 'multiline_str':   lambda n: 'line\n' * n,
 'special_str':     lambda n: 'é\x07"\\' * n,
 'list_of_dicts':   lambda n: [{'a': i, 'b': 'x'} for i in range(n)],
 'shared':          lambda n: (lambda s: [s] * n)(['shared', 1]),
 'many_anchored':   lambda n: (lambda ls: ls + ls)([[i] for i in range(n)]),
 'deep':            _deep,
 'floats':          lambda n: [i + 0.5 for i in range(n)],
 'bytes_long':      lambda n: b'ABCDEFGH' * (3 * n),
 'set_strs':        lambda n: {'e%d' % i for i in range(n)},
 'lookalikes':      lambda n: ['yes', '1', '~', '1:30', '<<'] * n,
 'dates':           lambda n: [__import__('datetime').date(2001, 1, 1 + i % 28) for i in range(n)],
 'datetimes':       lambda n: [__import__('datetime').datetime(2001, 1, 1, 12, i % 60) for i in range(n)],
 'set_ints':        lambda n: set(range(n)),
 'dict_int_keys':   lambda n: {i: [i] for i in range(n)},
 'bools_none':      lambda n: [True, None, False] * n,
 'nested_lists':    lambda n: [[i, [i]] for i in range(n)],
}

# families that go through *customised* loader / dumper classes (tools/c11custom.py): (kind, class name, generator)
#   kind 'load' : yaml.load_all(text, Loader=cls)      'dump' : yaml.dump(value, Dumper=cls)
#   kind 'calls': n separate yaml.load calls of one tiny document with the same class (work per call must not grow with the number of earlier calls)
def _objs(n):
    from tools import c11custom as CC
    return [CC.Sub(i) for i in range(n)]
def _points(n):
    from tools import c11custom as CC
    return [CC.Point(i, i) for i in range(n)]
CUSTOM = {
 'env_load_words':     ('load', 'EnvLoader', lambda n: ''.join('- foo%d\n' % i for i in range(n))),
 'env_load_flow':      ('load', 'EnvLoader', lambda n: '[' + ', '.join('nab' for _ in range(n)) + ']'),
 'env_load_numlike':   ('load', 'EnvLoader', lambda n: ''.join('k%d: 1x%d\n' % (i, i) for i in range(n))),
 'env_dump_words':     ('dump', 'EnvDumper', lambda n: ['foo%d' % i for i in range(n)]),
 'env_dump_dict':      ('dump', 'EnvDumper', lambda n: {'year%d' % i: 'tee' for i in range(n)}),
 'multi_dump_objects': ('dump', 'MultiDumper', _objs),
 'object_dump_points': ('dump', 'FD', _points),
 'multi_load_tags':    ('load', 'MultiLoader', lambda n: ''.join('- !m:a%d x\n' % i for i in range(n))),
 'path_load_entries':  ('load', 'PathLoader', lambda n: ''.join('k%d: v\n' % i for i in range(n))),
 'env_load_calls':     ('calls', 'EnvLoader', lambda n: n),
 'multi_dump_calls':   ('dcalls', 'MultiDumper', lambda n: n),
}
