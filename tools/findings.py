"""Signature predicates of known_findings.json.  Each takes the `signature_data` dict a check passes to Ctx.violation
and returns True iff the failing case belongs to that listed finding.  A new failing input is suppressed only if one
of these predicates holds of it."""
import re, datetime

_KEEP = []
def _alive(gen):
    """iterate a lazy compose_all but keep every yielded node alive: the walkers memoise id(node), and ids are unique only
    among live objects (documents before an error are still delivered, unlike list(gen))"""
    if len(_KEEP) > 5000: del _KEEP[:]
    for n in gen:
        _KEEP.append(n); yield n

def _ts_fields(text):
    m = re.match(r'^([0-9]{4})-([0-9][0-9]?)-([0-9][0-9]?)(?:(?:[Tt]|[ \t]+)([0-9][0-9]?):([0-9][0-9]):([0-9][0-9])(?:\.([0-9]*))?(?:[ \t]*(Z|([-+])([0-9][0-9]?)(?::([0-9][0-9]))?))?)?$', text)
    return m

def _scalar_nodes(text):
    """(tag, value) of every scalar node of every document, as composed with SafeLoader and CSafeLoader"""
    import yaml
    out = []; seen = set(); keep = []                  # keep: ids are only unique while the nodes are alive
    def walk(n):
        if id(n) in seen: return
        seen.add(id(n)); keep.append(n)
        if isinstance(n, yaml.ScalarNode): out.append((n.tag, n.value))
        elif isinstance(n, yaml.SequenceNode):
            for x in n.value: walk(x)
        elif isinstance(n, yaml.MappingNode):
            for k, v in n.value: walk(k); walk(v)
    # both back-ends: they stop at different places on input that only one of them rejects (e.g. a BOM in mid-stream);
    # the documents composed before an error are kept
    for L in (yaml.SafeLoader, getattr(yaml, 'CSafeLoader', None)):
        if L is None: continue
        try:
            for n in yaml.compose_all(text, Loader=L):
                if n is not None: walk(n)
        except Exception:
            pass
    return out
def _compose_case(d, text):
    """the node graphs of `text`, composed with the back-end the case was run with (the two scanners differ on a few texts: a tab inside a plain
    scalar, a tag glued to a flow indicator); the other back-end is the fall-back when the first cannot read the text at all"""
    import yaml
    c = (d.get('loader') or '').startswith('C') or d.get('backend') == 'c'
    order = [getattr(yaml, 'CSafeLoader', None), yaml.SafeLoader] if c else [yaml.SafeLoader, getattr(yaml, 'CSafeLoader', None)]
    best = []
    for L in order:
        if L is None: continue
        got = []
        try:
            for n in yaml.compose_all(text, Loader=L): got.append(n)      # the documents composed before an error are kept
            return got
        except Exception:
            if len(got) > len(best): best = got
    return best

def _doc_case(d): return d.get('loader') is not None or d.get('backend') is not None or d.get('form') is not None

def int_without_digits(d):
    if _doc_case(d) and d.get('exc') == 'ValueError':
        return any(t.endswith(':int') or t.endswith('python/long') for t, v in _scalar_nodes(_text_of(d)) if re.fullmatch(r'[-+]?0[xb]_+', v))
    return _int_without_digits(d)
def _int_without_digits(d):
    """plain scalar that the YAML 1.1 int rule accepts but that has no digit after its base prefix (0x_, -0b__, ...):
    construct_yaml_int hands '0x'/'0b' minus underscores to int() and the ValueError escapes."""
    return d.get('exc') == 'ValueError' and d.get('kind') in ('converter_crash', 'load_crash') and re.fullmatch(r'[-+]?0[xb]_+', d.get('text', '')) is not None

def timestamp_out_of_range(d):
    if _doc_case(d) and d.get('exc') in ('ValueError', 'OverflowError'):
        return any(_timestamp_out_of_range(dict(d, text=v, kind='load_crash')) for t, v in _scalar_nodes(_text_of(d)) if t.endswith(':timestamp'))
    return _timestamp_out_of_range(d)
def _timestamp_out_of_range(d):
    """plain scalar with the shape of a timestamp whose fields datetime rejects (month 13, day 30 of February, hour 25,
    minute/second 60+, UTC offset of 24h or more): the ValueError of datetime escapes construct_yaml_timestamp."""
    if d.get('exc') not in ('ValueError', 'OverflowError') or d.get('kind') not in ('converter_crash', 'load_crash'): return False
    m = _ts_fields(d.get('text', ''))
    if not m: return False
    y, mo, da = int(m.group(1)), int(m.group(2)), int(m.group(3))
    try:
        if m.group(4) is None:
            datetime.date(y, mo, da); return False
        frac = (m.group(7) or '')[:6]; frac = int(frac + '0' * (6 - len(frac))) if frac else 0
        tz = None
        if m.group(9):
            delta = datetime.timedelta(hours=int(m.group(10)), minutes=int(m.group(11) or 0))
            tz = datetime.timezone(-delta if m.group(9) == '-' else delta)
        elif m.group(8): tz = datetime.timezone.utc
        datetime.datetime(y, mo, da, int(m.group(4)), int(m.group(5)), int(m.group(6)), frac, tzinfo=tz)
        return False
    except (ValueError, OverflowError):
        return True

def datetime_subminute_offset(d):
    """a datetime whose utcoffset is not a whole number of minutes is dumped as +HH:MM:SS[.ffffff], which the
    timestamp regexp of the constructor does not accept (AttributeError on None.groupdict(), or read back as str)."""
    from tools.values import decode
    encs = ([d['value']] if d.get('value') else []) + list(d.get('docs') or [])
    if not encs: return False
    try: o = [decode(v) for v in encs]
    except Exception: return False
    def has(o, seen):
        if isinstance(o, datetime.datetime):
            off = o.utcoffset()
            return off is not None and (off.total_seconds() % 60 != 0)
        if id(o) in seen: return False
        seen.add(id(o))
        if isinstance(o, (list, set)): return any(has(x, seen) for x in o)
        if isinstance(o, dict): return any(has(k, seen) or has(x, seen) for k, x in o.items())
        return False
    return has(o, set())

def _text_of(d):
    """the document text of a case given as text or as (form, payload): every plausible decoding, joined"""
    t = d.get('text')
    if t is not None: return t
    p = d.get('payload')
    if p is None: return ''
    if d.get('form') in ('str', 'tstream'): return ''.join(map(chr, p))
    b = bytes(p); out = []
    for enc in ('utf-8', 'utf-16', 'utf-16-le', 'utf-16-be'):
        try: out.append(b.decode(enc, 'replace'))
        except Exception: pass
    return '\n'.join(out)

def two_errors_form_dependent(d):
    """an input with a reader-level defect (non-printable character / undecodable bytes) AND another scanner/parser error:
    in-memory input is validated eagerly, streams block by block (one block of read-ahead), so which of the two errors is
    raised first depends on the delivery form and on the read schedule.  Both deliveries end in an error, the two errors
    are of different kinds (ScannerError/ParserError/... vs ReaderError, or an undecodable sequence vs an unprintable
    character), and one of them is the reader's."""
    if d.get('kind') != 'form_dependent_error': return False
    ends = [str(e) for e in (d.get('ends') or [])]
    if len(ends) != 2 or ends[0] == ends[1]: return False
    kinds = [e.split('/')[0] for e in ends]
    if not all(k.endswith('Error') for k in kinds): return False          # both deliveries must end in an error
    return 'ReaderError' in kinds                                          # and one of the two competing errors is the reader's

def escape_code_out_of_range(d):
    r"""a double-quoted scalar with a \U escape above 0x10FFFF: chr() raises OverflowError / ValueError inside
    scan_flow_scalar_non_spaces instead of a ScannerError."""
    if d.get('exc') not in ('OverflowError', 'ValueError') or d.get('backend', 'py') != 'py': return False
    t = _text_of(d)
    if not t: return False
    for m in re.finditer(r'\\U([0-9A-Fa-f]{8})', t):
        if int(m.group(1), 16) > 0x10FFFF: return True
    return False

def yaml_directive_huge_number(d):
    """%YAML directive whose major or minor number has more than 4300 digits: int() raises ValueError while scanning."""
    if d.get('exc') != 'ValueError': return False
    t = _text_of(d)
    return bool(t) and re.search(r'%YAML[ ]+([0-9]{4301,}\.|[0-9]+\.[0-9]{4301,})', t) is not None

def _strings_of_case(d):
    """all scalar strings of a value case (encoded graph) or an event case (emitter line)"""
    out = []
    encs = ([d['value']] if d.get('value') else []) + list(d.get('docs') or [])
    for enc in encs:
        from tools.values import decode
        try: o = decode(enc)
        except Exception: o = None
        seen = set()
        def walk(o):
            if isinstance(o, str): out.append(o)
            elif isinstance(o, (list, set, dict)):
                if id(o) in seen: return
                seen.add(id(o))
                if isinstance(o, dict):
                    for k, v in o.items(): walk(k); walk(v)
                else:
                    for x in o: walk(x)
        walk(o)
    if d.get('events'):
        from tools.events import dec_case
        try:
            evs, _ = dec_case(d['events'])
            out += [e[5] for e in evs if e[0] == 'SC']
        except Exception: pass
    return out

def _opt(d, name):
    o = d.get('opts')
    if o is None and d.get('events'):
        from tools.events import dec_case
        try: o = dec_case(d['events'])[1]
        except Exception: o = {}
    return (o or {}).get(name)

def _w(d): return d.get('what') or ''
def _value_diff(d):
    """the observed failure is a difference in scalar TEXT (not in a tag, an anchor, a directive or the document structure)"""
    w = _w(d)
    if d.get('kind') == 'emit_parse_differs': return re.search(r'event \d+: scalar (?!tag )', w) is not None
    return True       # value-level round trips report an offset in the canonical graph; nothing more specific is known
def _tag_diff(d):
    w = _w(d)
    return re.search(r'event \d+: (scalar tag|collection tag)', w) is not None

def nel_unquoted_under_allow_unicode(d):
    """a str containing U+0085 dumped/emitted with allow_unicode=True: analyze_scalar counts NEL as a printable unicode
    character, so plain/single-quoted/literal/folded styles stay allowed; the scanner then reads the raw NEL as a line break
    (-> '\\n' or a folded space)."""
    if d.get('kind') not in ('roundtrip_differs', 'emit_parse_differs', 'dump_unreadable', 'emit_unparsable', 'not_fixed_point', 'count_differs', 'marker', 'line_break', 'depends_on_followers', 'indent'): return False
    return bool(_opt(d, 'allow_unicode')) and any('\x85' in s for s in _strings_of_case(d))

def dq_fold_after_escaped_space(d):
    r"""write_double_quoted folds twice in a row when the column already exceeds the width (deep indentation / tiny width):
    right after a fold whose continuation starts with the escaped space it folds again and emits a second backslash, so the
    output contains a continuation line made only of indentation and '\\' (an escaped backslash).  Recognised by that line
    in the emitted text; never produced otherwise (the writer does not leave unescaped breaks inside double quotes)."""
    if d.get('kind') not in ('roundtrip_differs', 'emit_parse_differs', 'not_fixed_point') or not _value_diff(d): return False
    return re.search(r'(^|[\r\n]) *\\\\(\r|\n|$)', d.get('text') or '') is not None and _opt(d, 'width') is not None

def escaped_simple_key_over_1024(d):
    r"""a mapping key of at most 128 characters that is written double-quoted and whose escaped form (\UXXXXXXXX for
    characters outside the BMP without allow_unicode) is longer than the 1024 characters the scanner allows for a simple
    key: check_simple_key measures the unescaped length, so the key is written as a simple key that the scanner then
    refuses ("mapping values are not allowed here" / "could not find expected ':'").  Recognised by such a key in the
    emitted text; pure-Python emitter only."""
    if d.get('kind') not in ('dump_unreadable', 'emit_unparsable', 'roundtrip_differs', 'emit_parse_differs', 'count_differs', 'not_fixed_point', 'marker', 'depends_on_followers'): return False
    if d.get('dumper', d.get('backend', 'py')) not in ('py', None): return False
    return any(len(m.group(0)) > 1024 for m in re.finditer(r'"(?:[^"\\\r\n]|\\.)*" ?:', d.get('text') or ''))

def folded_more_indented_line_folded(d):
    """folded style ('>') with a small width: write_folded folds at a space of a more-indented line (a line that starts with
    a space); on reading, more-indented lines keep their breaks, so a space inside the line comes back as a line break, and a
    single leading space folded at column == indent (indentation already beyond the width) is lost altogether."""
    if d.get('kind') not in ('roundtrip_differs', 'emit_parse_differs', 'not_fixed_point') or not _value_diff(d): return False
    if _opt(d, 'width') is None and not d.get('events'): return False
    folded = _opt(d, 'default_style') == '>'
    if d.get('events'):
        from tools.events import dec_case
        try: folded = any(e[0] == 'SC' and e[6] == '>' for e in dec_case(d['events'])[0])
        except Exception: folded = False
    # a more-indented line (starts with a space): either a space inside it is folded, or - when the indentation already exceeds
    # the width - its single leading space is 'folded' at the very start of the line, where write_indent() writes nothing
    return folded and any(re.search(r'(^|\n) +[^ \n]', s) for s in _strings_of_case(d))

def primary_handle_redefined(d):
    """a document whose %TAG directive redefines the primary handle '!' (e.g. %TAG ! !my-) and that carries a local tag
    ('!x') not under the new prefix: the emitter keeps the default '!' -> '!' prefix entry, writes the tag as '!x', and
    the parser reads it back as '<prefix>x'."""
    if d.get('kind') not in ('emit_parse_differs',) or not d.get('events') or not _tag_diff(d): return False
    from tools.events import dec_case
    try: evs, _ = dec_case(d['events'])
    except Exception: return False
    prefix = None
    for e in evs:
        if e[0] == 'DS':
            prefix = None
            for h, p in e[3]:
                if h == '!' and p != '!': prefix = p
        elif e[0] in ('SC', 'QS', 'MS') and prefix is not None:
            t = e[2]
            if t and t.startswith('!') and t != '!' and not t.startswith(prefix): return True
    return False

def tag_prefix_needs_escape(d):
    """a %TAG prefix containing a character outside the URI set (e.g. non-ASCII): prepare_tag_prefix (emitter.py) iterates
    over the *encoded bytes* and calls ord() on an int -> TypeError instead of writing the %XX escape."""
    if d.get('exc') != 'TypeError' or not d.get('events'): return False
    from tools.events import dec_case
    try: evs, _ = dec_case(d['events'])
    except Exception: return False
    ok = set("-;/?:@&=+$,_.~*'()[]!") | set('abcdefghijklmnopqrstuvwxyzABCDEFGHIJKLMNOPQRSTUVWXYZ0123456789')
    return any(e[0] == 'DS' and any(any(ch not in ok for ch in p[1:]) for h, p in e[3]) for e in evs)

def _empty_scalar_root(d):
    """node level (serialize_all of composed graphs): some document root of d['text'] is an empty scalar; the text is composed with the back-end
    the case was run with (LibYAML reads some texts the Python scanner rejects, e.g. a tab inside a plain scalar)"""
    import yaml
    try: roots = _compose_case(d, d['text'])
    except Exception: return False
    return any(isinstance(n, yaml.ScalarNode) and n.value == '' for n in roots if n is not None)

def empty_plain_root_with_tag(d):
    """a document whose root is a scalar with empty text, a tag and implicit[0] set (the tag may be elided in plain style):
    the emitter neither forces '---' (check_empty_document only looks at untagged scalars) nor writes anything for the empty
    plain scalar, so the document text is empty / just '...'."""
    if d.get('kind') in ('count_differs', 'dump_unreadable', 'roundtrip_differs') and not d.get('events') and d.get('text') is not None and d.get('docs') is None and d.get('value') is None:
        # node level (serialize_all of composed graphs): some document root is an empty scalar whose tag the resolver re-derives
        return _empty_scalar_root(d)
    if d.get('kind') not in ('emit_unparsable', 'emit_parse_differs', 'count_differs') or not d.get('events'): return False
    if d.get('kind') == 'emit_unparsable' and not re.search(r"expected the node content|did not find expected node content|expected '<document start>'|did not find expected <document start>", _w(d)): return False
    if d.get('kind') == 'emit_parse_differs' and not re.search(r'event types|events emitted', _w(d)): return False
    from tools.events import dec_case
    try: evs, o = dec_case(d['events'])
    except Exception: return False
    for a, b in zip(evs, evs[1:]):
        if a[0] == 'DS' and b[0] == 'SC' and b[5] == '' and b[3] and b[2] is not None and b[1] is None and b[6] in (None, '|', '>') and not o.get('canonical'):
            return True
    return False

def libyaml_plain_implicit_written_quoted(d):
    """LibYAML emitter only: a scalar event with implicit == (True, False) and a tag whose text cannot be written plain.
    libyaml analyses the tag only when neither implicit flag is set, so it treats the event as untagged, picks a quoted
    style and writes the non-specific tag '!' -- the specific tag is lost (the Python emitter writes it)."""
    if d.get('backend') != 'c' or d.get('kind') != 'emit_parse_differs' or not d.get('events'): return False
    if "vs '!' (implicit (True, False))" not in (d.get('what') or ''): return False
    from tools.events import dec_case
    try: evs, _ = dec_case(d['events'])
    except Exception: return False
    return any(e[0] == 'SC' and e[3] and not e[4] and e[2] not in (None, '!') for e in evs)

def libyaml_empty_plain_root(d):
    """LibYAML emitter only: an implicit document whose root is an untagged, unanchored, empty scalar written plain:
    libyaml writes nothing for it (no forced '---'), so the document vanishes or the following text does not parse."""
    if d.get('backend') != 'c' and d.get('dumper') != 'c': return False
    if d.get('events'):
        from tools.events import dec_case
        try: evs, o = dec_case(d['events'])
        except Exception: return False
        for a, b in zip(evs, evs[1:]):
            if a[0] == 'DS' and not a[1] and b[0] == 'SC' and b[5] == '' and b[1] is None and b[3] and b[6] in (None, '|', '>'): return True
        return False
    if d.get('docs') is not None:
        return any(x == 'S e' or x == 'ROOT S e' for x in d['docs']) and not (_opt(d, 'explicit_start') or _opt(d, 'canonical') or _opt(d, 'default_style') in ('"', "'"))
    if d.get('kind') in ('count_differs', 'dump_unreadable', 'roundtrip_differs') and d.get('text') is not None and d.get('value') is None:
        return _empty_scalar_root(d)             # node level: serialize_all of composed graphs through the LibYAML emitter
    return False

_SCALAR_CONVERTERS = {'int': 'int', 'python/int': 'int', 'python/long': 'int', 'float': 'float', 'python/float': 'float', 'bool': 'bool', 'python/bool': 'bool',
                      'timestamp': 'timestamp', 'python/complex': 'complex'}
def explicit_tag_unsuitable_payload(d):
    """a node explicitly tagged with a scalar type of the core / python value-like set whose content is not a text of that type
    (`!!int abc`, `!!int ""`, `!!bool maybe`, `! "yes\\n"`, `!!float x`, `!!timestamp x`, `!!timestamp {=: [..]}`, `!!python/complex abc`):
    the converter (int()/float()/dict lookup/regexp match/complex()) raises ValueError / IndexError / KeyError / AttributeError /
    TypeError, which is not translated to a ConstructorError."""
    if d.get('kind') not in ('non_yaml_exception', 'converter_crash', 'load_crash') or d.get('exc') not in ('ValueError', 'IndexError', 'KeyError', 'AttributeError', 'TypeError'): return False
    text = d.get('text')
    if text is None: return False
    import yaml
    from tools import spec11
    found = [False]; seen = set()
    def walk(n):
        if id(n) in seen: return
        seen.add(id(n))
        short = n.tag[len('tag:yaml.org,2002:'):] if n.tag.startswith('tag:yaml.org,2002:') else None
        conv = _SCALAR_CONVERTERS.get(short)
        if conv:
            if not isinstance(n, yaml.ScalarNode): found[0] = True
            elif conv == 'complex': 
                try: complex(n.value)
                except ValueError: found[0] = True
            else:
                want = 'tag:yaml.org,2002:' + conv
                if spec11.spec_tag(n.value) != want or n.value.endswith('\n'): found[0] = True
        if isinstance(n, yaml.SequenceNode):
            for x in n.value: walk(x)
        elif isinstance(n, yaml.MappingNode):
            for k, v in n.value: walk(k); walk(v)
    try:
        for n in _alive(_compose_case(d, text)):
            if n is not None: walk(n)
    except Exception:
        pass
    return found[0]

def full_tuple_key_unhashable(d):
    """FullLoader: a `!!python/tuple` used as a mapping key whose elements are unhashable ([[1]]): the tuple passes the
    Hashable test of construct_mapping and the dict insertion raises TypeError."""
    return d.get('exc') == 'TypeError' and 'python/tuple' in (d.get('text') or '') and 'Full' in (d.get('loader') or '') or (d.get('exc') == 'TypeError' and 'python/tuple' in (d.get('text') or '') and d.get('loader') in ('UnsafeLoader', 'Loader'))

def full_named_generator_advanced(d):
    """FullLoader / CFullLoader (and the unsafe ones): a python/name tag whose dotted name resolves, in an already-imported module,
    to a live GENERATOR object: construct_object takes the returned generator for a two-step constructor and advances it."""
    if d.get('kind') not in ('foreign_call', 'named_object_replaced', 'named_object_used', 'non_yaml_exception') or not d.get('text'): return False
    import re, sys, types
    try: import tools.c04names
    except Exception: pass
    names = re.findall(r'python/name:([A-Za-z0-9_.]+)', d['text'])
    gens = []
    for nm in names:
        mod, _, attr = nm.rpartition('.')
        o = getattr(sys.modules.get(mod), attr, None) if mod else None
        if isinstance(o, types.GeneratorType): gens.append(nm)
    if not gens: return False
    if d['kind'] == 'non_yaml_exception': return d.get('exc') in ('RuntimeError', 'StopIteration') and 'StopIteration' in d.get('what', '')      # the same generator, already exhausted by an earlier load
    if d['kind'] == 'foreign_call': return any((':' + g.__name__) in d.get('what', '') or g.gi_code.co_name in d.get('what', '') for g in [getattr(sys.modules[n.rpartition('.')[0]], n.rpartition('.')[2]) for n in gens])
    return any(g in d.get('what', '') for g in gens)

def merge_source_tag_ignored(d):
    """a foreign tag on a mapping (or on the sequence of mappings) that is the *value of a merge key*: flatten_mapping splices
    the pairs of that node into the target without ever constructing the node, so its tag is never dispatched - nothing is
    built from the tag, but it is not rejected either.  Holds only if every foreign tag of the document sits on such a node."""
    if d.get('kind') not in ('unknown_tag_accepted', 'object_tag_accepted') or d.get('text') is None: return False
    import yaml
    core = set('tag:yaml.org,2002:' + x for x in ('null', 'bool', 'int', 'float', 'binary', 'timestamp', 'omap', 'pairs', 'set', 'str', 'seq', 'map', 'merge', 'value'))
    foreign_elsewhere = [False]; foreign_merge = [False]; seen = set()
    def walk(n, merge_src):
        if n.tag not in core:
            if merge_src: foreign_merge[0] = True
            else: foreign_elsewhere[0] = True
        if id(n) in seen: return
        seen.add(id(n))
        if isinstance(n, yaml.SequenceNode):
            for x in n.value: walk(x, merge_src and isinstance(x, yaml.MappingNode))
        elif isinstance(n, yaml.MappingNode):
            for k, v in n.value:
                walk(k, False)
                walk(v, k.tag == 'tag:yaml.org,2002:merge' and isinstance(v, (yaml.MappingNode, yaml.SequenceNode)))
    try:
        for n in _alive(_compose_case(d, d["text"])):
            if n is not None: walk(n, False)
    except Exception: return False
    return foreign_merge[0] and not foreign_elsewhere[0]

def value_key_tag_ignored(d):
    """a foreign tag on the value of a `=` (tag:yaml.org,2002:value) key inside a mapping that carries a core *scalar* tag:
    SafeConstructor.construct_scalar takes the text of that value node directly (construct_scalar(value_node)) without
    dispatching on its tag, so the tag is never rejected - nothing is built from it.  Holds only if every foreign tag of the
    document sits on such a node."""
    if d.get('kind') not in ('unknown_tag_accepted', 'object_tag_accepted') or d.get('text') is None: return False
    import yaml
    P = 'tag:yaml.org,2002:'
    core = set(P + x for x in ('null', 'bool', 'int', 'float', 'binary', 'timestamp', 'omap', 'pairs', 'set', 'str', 'seq', 'map', 'merge', 'value'))
    scalar_tags = set(P + x for x in ('null', 'bool', 'int', 'float', 'binary', 'timestamp', 'str'))
    elsewhere = [False]; here = [False]; seen = set()
    def walk(n, value_pos):
        if n.tag not in core:
            if value_pos: here[0] = True
            else: elsewhere[0] = True
        if id(n) in seen: return
        seen.add(id(n))
        if isinstance(n, yaml.SequenceNode):
            for x in n.value: walk(x, False)
        elif isinstance(n, yaml.MappingNode):
            scalar_ctx = n.tag in scalar_tags or value_pos
            first = True
            for k, v in n.value:
                walk(k, False)
                is_value = scalar_ctx and first and k.tag == P + 'value'
                if k.tag == P + 'value': first = False
                walk(v, is_value and isinstance(v, (yaml.ScalarNode, yaml.MappingNode)))
    try:
        for n in _alive(_compose_case(d, d["text"])):
            if n is not None: walk(n, False)
    except Exception: return False
    return here[0] and not elsewhere[0]

def unsorted_set_iteration_order(d):
    """sort_keys=False and the value contains a set with two or more elements: a set has no insertion order; represent_set
    writes it in iteration order, the loaded set is rebuilt by inserting in that order and may iterate differently
    (hash table history), so dump(load(dump(x))) can list the elements in another order."""
    if d.get('kind') != 'not_fixed_point' or _opt(d, 'sort_keys') is not False: return False
    from tools.values import decode
    try: o = decode(d['value'])
    except Exception: return False
    seen = set(); found = [False]
    def walk(o):
        if isinstance(o, (list, set, dict)):
            if id(o) in seen: return
            seen.add(id(o))
            if isinstance(o, set):
                if len(o) >= 2: found[0] = True
            elif isinstance(o, dict):
                for k, v in o.items(): walk(v)
            else:
                for x in o: walk(x)
    walk(o)
    return found[0]

def state_before_items(d):
    """an object whose reduce tuple has a truthy state AND list/dict items and whose item insertion depends on the state: YAML
    applies the state before the items, pickle after (construct_python_object_apply, constructor.py)."""
    return d.get('special') == 'limitlist' and d.get('kind') == 'rebuild_differs'
def falsy_state_skipped(d):
    """__getstate__ returns a falsy non-None, non-dict state (0, '', ()): pickle calls __setstate__ with it, YAML tests `if state:` and never does."""
    return d.get('special') == 'falsy' and d.get('kind') == 'rebuild_differs'

def libyaml_bang_collection_implicit(d):
    """LibYAML parser only: a collection, or an EMPTY scalar, tagged with the non-specific tag '!' gets implicit False in its
    event (the Python parser sets implicit = tag is None or tag == '!'); nodes and objects are the same."""
    w = d.get('what') or ''
    if not (d.get('kind') == 'backends_differ_events' and d.get('py') == 'ok' and d.get('c') == 'ok'): return False
    return ("'!', True, " in w and "'!', False, " in w) or ("'!', (True, False), ''" in w and "'!', (False, False), ''" in w)
