"""Signature predicates of known_findings.json.  Each takes the `signature_data` dict a check passes to Ctx.violation
and returns True iff the failing case belongs to that listed finding.  A new failing input is suppressed only if one
of these predicates holds of it."""
import re, datetime

def _ts_fields(text):
    m = re.match(r'^([0-9]{4})-([0-9][0-9]?)-([0-9][0-9]?)(?:(?:[Tt]|[ \t]+)([0-9][0-9]?):([0-9][0-9]):([0-9][0-9])(?:\.([0-9]*))?(?:[ \t]*(Z|([-+])([0-9][0-9]?)(?::([0-9][0-9]))?))?)?$', text)
    return m

def int_without_digits(d):
    """plain scalar that the YAML 1.1 int rule accepts but that has no digit after its base prefix (0x_, -0b__, ...):
    construct_yaml_int hands '0x'/'0b' minus underscores to int() and the ValueError escapes."""
    return d.get('exc') == 'ValueError' and d.get('kind') in ('converter_crash', 'load_crash') and re.fullmatch(r'[-+]?0[xb]_+', d.get('text', '')) is not None

def timestamp_out_of_range(d):
    """plain scalar with the shape of a timestamp whose fields datetime rejects (month 13, day 30 of February, hour 25,
    minute/second 60+, UTC offset of 24h or more): the ValueError of datetime escapes construct_yaml_timestamp."""
    if d.get('exc') not in ('ValueError', 'OverflowError') or d.get('kind') not in ('converter_crash', 'load_crash'): return False
    m = _ts_fields(d.get('text', ''))
    if not m: return False
    y, mo, da = int(m.group(1)), int(m.group(2)), int(m.group(3))
    try:
        if m.group(4) is None:
            datetime.date(y, mo, da); return False
        frac = (m.group(7) or '')[:6]; frac = int(frac + '0' * (6 - len(frac))) if frac else 0
        tz = None
        if m.group(9):
            delta = datetime.timedelta(hours=int(m.group(10)), minutes=int(m.group(11) or 0))
            tz = datetime.timezone(-delta if m.group(9) == '-' else delta)
        elif m.group(8): tz = datetime.timezone.utc
        datetime.datetime(y, mo, da, int(m.group(4)), int(m.group(5)), int(m.group(6)), frac, tzinfo=tz)
        return False
    except (ValueError, OverflowError):
        return True

def datetime_subminute_offset(d):
    """a datetime whose utcoffset is not a whole number of minutes is dumped as +HH:MM:SS[.ffffff], which the
    timestamp regexp of the constructor does not accept (AttributeError on None.groupdict(), or read back as str)."""
    from tools.values import decode
    v = d.get('value')
    if not v: return False
    try: o = decode(v)
    except Exception: return False
    def has(o, seen):
        if isinstance(o, datetime.datetime):
            off = o.utcoffset()
            return off is not None and (off.total_seconds() % 60 != 0)
        if id(o) in seen: return False
        seen.add(id(o))
        if isinstance(o, (list, set)): return any(has(x, seen) for x in o)
        if isinstance(o, dict): return any(has(k, seen) or has(x, seen) for k, x in o.items())
        return False
    return has(o, set())

def _text_of(d):
    """the document text of a case given as text or as (form, payload): every plausible decoding, joined"""
    t = d.get('text')
    if t is not None: return t
    p = d.get('payload')
    if p is None: return ''
    if d.get('form') in ('str', 'tstream'): return ''.join(map(chr, p))
    b = bytes(p); out = []
    for enc in ('utf-8', 'utf-16', 'utf-16-le', 'utf-16-be'):
        try: out.append(b.decode(enc, 'replace'))
        except Exception: pass
    return '\n'.join(out)

def two_errors_form_dependent(d):
    """an input with a reader-level defect (non-printable character / undecodable bytes) AND another scanner/parser error:
    in-memory input is validated eagerly, streams block by block (one block of read-ahead), so which of the two errors is
    raised first depends on the delivery form and on the read schedule.  Both deliveries end in an error, the two errors
    are of different kinds (ScannerError/ParserError/... vs ReaderError, or an undecodable sequence vs an unprintable
    character), and one of them is the reader's."""
    if d.get('kind') != 'form_dependent_error': return False
    ends = [str(e) for e in (d.get('ends') or [])]
    if len(ends) != 2 or ends[0] == ends[1]: return False
    kinds = [e.split('/')[0] for e in ends]
    if not all(k.endswith('Error') for k in kinds): return False          # both deliveries must end in an error
    return 'ReaderError' in kinds                                          # and one of the two competing errors is the reader's

def escape_code_out_of_range(d):
    r"""a double-quoted scalar with a \U escape above 0x10FFFF: chr() raises OverflowError / ValueError inside
    scan_flow_scalar_non_spaces instead of a ScannerError."""
    if d.get('exc') not in ('OverflowError', 'ValueError') or d.get('backend', 'py') != 'py': return False
    t = _text_of(d)
    if not t: return False
    for m in re.finditer(r'\\U([0-9A-Fa-f]{8})', t):
        if int(m.group(1), 16) > 0x10FFFF: return True
    return False

def yaml_directive_huge_number(d):
    """%YAML directive whose major or minor number has more than 4300 digits: int() raises ValueError while scanning."""
    if d.get('exc') != 'ValueError': return False
    t = _text_of(d)
    return bool(t) and re.search(r'%YAML[ ]+([0-9]{4301,}\.|[0-9]+\.[0-9]{4301,})', t) is not None
