"""Signature predicates of known_findings.json.  Each takes the `signature_data` dict a check passes to Ctx.violation
and returns True iff the failing case belongs to that listed finding.  A new failing input is suppressed only if one
of these predicates holds of it."""
