"""Core of the check machinery: regenerate Gen, build Coq (full .vo), extract + compile the OCaml model drivers,
run model executables, evidence / violation / known-finding protocol.  See DESIGN.md sections 5-6."""
import os, sys, json, time, fcntl, subprocess, hashlib, random, re, glob, shutil

VERIF = os.path.dirname(os.path.dirname(os.path.abspath(__file__)))
REPO = os.environ.get('VERIF_REPO', '/repo')
COQ = os.path.join(VERIF, 'coq')
BUILD = os.path.join(VERIF, 'build')
OCAML_SRC = os.path.join(VERIF, 'ocaml')
OCAML_BUILD = os.path.join(BUILD, 'ocaml')
PY = '/venv/bin/python'
NPROC = min(16, os.cpu_count() or 4)

COQ_WARN = '-notation-overridden,-deprecated-hint-without-locality,-deprecated-instance-without-locality,-extraction-opaque-accessed,-extraction-reserved-identifier,-extraction-logical-axiom'

# executable name -> (extraction file, extracted module, driver source)
MODELS = {
    'scan':   ('ExtScan.v',   'scan_ext',   'scanner_driver.ml'),
    'parse':  ('ExtParse.v',  'parse_ext',  'parser_driver.ml'),
    'parsel': ('ExtParseL.v', 'parsel_ext', 'parsel_driver.ml'),
    'reader': ('ExtReader.v', 'reader_ext', 'reader_driver.ml'),
    'load':   ('ExtLoad.v',   'load_ext',   'construct_driver.ml'),
    'dump':   ('ExtDump.v',   'dump_ext',   'represent_driver.ml'),
    'emit':   ('ExtEmit.v',   'emit_ext',   'emitter_driver.ml'),
    'cost':   ('ExtCost.v',   'cost_ext',   'cost_driver.ml'),
    'rx':     ('ExtRx.v',     'rx_ext',     'rx_driver.ml'),
}

class Lock:
    def __init__(self, name='build'):
        os.makedirs(BUILD, exist_ok=True)
        self.path = os.path.join(BUILD, '.%s.lock' % name)
    def __enter__(self):
        self.f = open(self.path, 'w'); fcntl.flock(self.f, fcntl.LOCK_EX); return self
    def __exit__(self, *a):
        fcntl.flock(self.f, fcntl.LOCK_UN); self.f.close()

def sh(cmd, cwd=None, timeout=1800, env=None, input=None):
    e = dict(os.environ); e.update(env or {})
    try:
        p = subprocess.run(cmd, cwd=cwd, shell=isinstance(cmd, str), stdout=subprocess.PIPE, stderr=subprocess.STDOUT,
                           timeout=timeout, env=e, input=input)
        return p.returncode, p.stdout.decode('utf-8', 'replace')
    except subprocess.TimeoutExpired as ex:
        return 124, (ex.stdout or b'').decode('utf-8', 'replace') + '\n[timeout after %ss]' % timeout

# ---------------------------------------------------------------------------------------------------------------
# Gen + Coq build
# ---------------------------------------------------------------------------------------------------------------
def regenerate():
    """Regenerate coq/Gen from /repo.  Returns (errors, meta)."""
    sys.path.insert(0, VERIF)
    from tools.translate import regenerate as rg
    with Lock():
        return rg(os.path.join(COQ, 'Gen'))

def gen_diff_vs_baseline():
    """names of Gen files whose text differs from the committed Gen.baseline (informational: says what changed)."""
    out = []
    base = os.path.join(COQ, 'Gen.baseline')
    for p in sorted(glob.glob(os.path.join(COQ, 'Gen', '*.v'))):
        b = os.path.join(base, os.path.basename(p))
        if not os.path.exists(b) or open(b).read() != open(p).read():
            out.append(os.path.basename(p))
    return out

def write_coqproject():
    files = []
    for d in ('Model', 'Gen', 'Proofs', 'Spec', 'Props'):
        files += sorted(glob.glob(os.path.join(COQ, d, '*.v')))
    text = '-R . YV\n-arg -w -arg %s\n' % COQ_WARN + '\n'.join(os.path.relpath(f, COQ) for f in files) + '\n'
    p = os.path.join(COQ, '_CoqProject')
    if not os.path.exists(p) or open(p).read() != text or not os.path.exists(os.path.join(COQ, 'Makefile')):
        open(p, 'w').write(text)
        rc, out = sh('coq_makefile -f _CoqProject -o Makefile', cwd=COQ, timeout=120)
        if rc != 0: raise RuntimeError('coq_makefile failed: ' + out)

def coq_make(targets, timeout=1500):
    """make the given .vo targets (relative to coq/).  Returns (rc, output)."""
    with Lock():
        write_coqproject()
        return sh(['make', '-j%d' % NPROC, '-k'] + list(targets), cwd=COQ, timeout=timeout)

def coq_make_all(timeout=3000):
    with Lock():
        write_coqproject()
        return sh(['make', '-j%d' % NPROC, '-k'], cwd=COQ, timeout=timeout)

THEOREM_RE = re.compile(r'^\s*(Theorem|Lemma|Example|Corollary|Fact|Remark)\s+([A-Za-z0-9_\']+)', re.M)

def prove(prop_id, extra_targets=(), timeout=1500):
    """Compile Props/<id>.v (and its whole dependency closure) and return the obligation table:
    {'obligations': [{name, kind, status, assumptions}], 'log': str, 'ok': bool, 'checker_cmd': str}.
    Props/<id>.v is always recompiled so that the Print Assumptions output of *this* run is captured."""
    src = os.path.join(COQ, 'Props', prop_id + '.v')
    text = open(src).read()
    names = [(m.group(2), m.start()) for m in THEOREM_RE.finditer(text)]
    kinds = dict(re.findall(r'\(\*\s*KIND\s+([A-Za-z0-9_\']+)\s*:\s*([A-Z+]+)\s*\*\)', text))
    vo = os.path.join(COQ, 'Props', prop_id + '.vo')
    with Lock():
        if os.path.exists(vo): os.remove(vo)
    rc, out = coq_make(['Props/%s.vo' % prop_id] + list(extra_targets), timeout=timeout)
    obligations = []
    failed_line = None; failed_file = None
    if rc != 0:
        m = re.search(r'File "([^"]+)", line (\d+), characters', out)
        if m: failed_file, failed_line = m.group(1), int(m.group(2))
    # Print Assumptions output: blocks following each theorem in source order
    assum = parse_assumptions(out)
    props_failed = failed_file is not None and os.path.basename(failed_file) == prop_id + '.v' and 'Props' in failed_file
    for i, (n, pos) in enumerate(names):
        line = text.count('\n', 0, pos) + 1
        nxt = text.count('\n', 0, names[i + 1][1]) + 1 if i + 1 < len(names) else 10 ** 9
        if rc == 0: status = 'proved'
        elif props_failed and failed_line is not None:
            status = 'proved' if nxt <= failed_line else ('FAILED' if line <= failed_line < nxt else 'not-checked')
        else: status = 'not-checked'     # a dependency failed to compile
        obligations.append(dict(name=n, kind=kinds.get(n, 'U'), status=status, assumptions=assum.get(n, 'not printed')))
    return dict(obligations=obligations, ok=(rc == 0), log=out[-6000:], failed_file=failed_file, failed_line=failed_line,
                checker_cmd='make -C %s Props/%s.vo  (coqc 8.16.1, full .vo, -j%d, timeout %ds)' % (COQ, prop_id, NPROC, timeout))

def parse_assumptions(out):
    """Props files print, for each theorem T, a line `(*ASSUME T*)` is not available in Coq, so we rely on order:
    `Print Assumptions T.` prints either 'Closed under the global context' or 'Axioms:' + lines.  We emit
    markers with `Redirect`-free trick: each Props file does `Goal True. idtac "ASSUME T". Abort.`? Simpler: the
    Props files call `Print Assumptions` right after an `Eval` of a string marker.  Here: parse '= "ASSUME:T"' markers."""
    res = {}
    cur = None; buf = []
    for line in out.split('\n'):
        m = re.search(r'"ASSUME:([A-Za-z0-9_\']+)"', line)
        if m:
            if cur: res[cur] = ' '.join(x.strip() for x in buf if x.strip())[:400]
            cur = m.group(1); buf = []; continue
        if cur is not None:
            if line.startswith('COQC') or line.startswith('make') or line.startswith('File '):
                res[cur] = ' '.join(x.strip() for x in buf if x.strip())[:400]; cur = None; buf = []
            elif ': string' in line: continue
            else: buf.append(line)
    if cur: res[cur] = ' '.join(x.strip() for x in buf if x.strip())[:400]
    return res

# ---------------------------------------------------------------------------------------------------------------
# extraction + OCaml drivers
# ---------------------------------------------------------------------------------------------------------------
def build_model(name, timeout=900):
    """(re)build build/ocaml/<name> if any input is newer.  Returns (ok, log)."""
    ext_v, mod, drv = MODELS[name]
    os.makedirs(OCAML_BUILD, exist_ok=True)
    exe = os.path.join(OCAML_BUILD, 'ymodel_' + name)
    with Lock('ocaml_' + name):
        # dependencies: all .vo of Model + Gen (cheap to stat)
        deps = glob.glob(os.path.join(COQ, 'Model', '*.vo')) + glob.glob(os.path.join(COQ, 'Gen', '*.vo')) + \
               [os.path.join(COQ, 'Extract', ext_v), os.path.join(OCAML_SRC, drv)]
        if os.path.exists(exe) and all(os.path.getmtime(d) <= os.path.getmtime(exe) for d in deps):
            return True, 'cached'
        wd = os.path.join(OCAML_BUILD, name); shutil.rmtree(wd, ignore_errors=True); os.makedirs(wd)
        shutil.copy(os.path.join(COQ, 'Extract', ext_v), wd)
        rc, out = sh(['coqc', '-R', COQ, 'YV', '-w', COQ_WARN, ext_v], cwd=wd, timeout=timeout)
        if rc != 0: return False, out
        shutil.copy(os.path.join(OCAML_SRC, drv), os.path.join(wd, 'driver.ml'))
        rc, out2 = sh(['ocamlfind', 'ocamlopt', '-O3' if False else '-inline', '100', '-w', '-a', mod + '.mli', mod + '.ml', 'driver.ml', '-o', exe + '.tmp'], cwd=wd, timeout=timeout)
        if rc != 0: return False, out + out2
        os.replace(exe + '.tmp', exe)
        return True, out + out2

def need_models(names):
    """make sure the .vo files the extraction needs exist, then build the executables.  Returns list of (name, log) failures."""
    fails = []
    targets = set()
    for n in names:
        ext_v = MODELS[n][0]
        for m in re.findall(r'Require Import ([^.]+)\.', open(os.path.join(COQ, 'Extract', ext_v)).read()):
            for x in m.split():
                for d in ('Model', 'Gen', 'Proofs'):
                    if os.path.exists(os.path.join(COQ, d, x + '.v')): targets.add('%s/%s.vo' % (d, x))
    rc, out = coq_make(sorted(targets))
    if rc != 0:
        return [(n, out[-3000:]) for n in names]
    for n in names:
        ok, log = build_model(n)
        if not ok: fails.append((n, log[-3000:]))
    return fails

def run_model(name, lines, timeout=1200, shards=None):
    """feed `lines` (list of str, one case per line) to ymodel_<name>; returns list of output lines (stdout split)."""
    exe = os.path.join(OCAML_BUILD, 'ymodel_' + name)
    if shards is None: shards = 1 if len(lines) < 400 else NPROC
    if shards == 1:
        p = subprocess.run([exe], input=('\n'.join(lines) + '\n').encode(), stdout=subprocess.PIPE, stderr=subprocess.PIPE, timeout=timeout,
                           preexec_fn=_big_stack)
        if p.returncode != 0: raise RuntimeError('model %s failed: %s' % (name, p.stderr.decode()[-500:]))
        return p.stdout.decode().split('\n')[:-1]
    raise NotImplementedError

def _big_stack():
    import resource
    try: resource.setrlimit(resource.RLIMIT_STACK, (resource.RLIM_INFINITY, resource.RLIM_INFINITY))
    except Exception:
        try: resource.setrlimit(resource.RLIMIT_STACK, (1 << 30, 1 << 30))
        except Exception: pass

def run_model_cases(name, cases, end_marker=None, timeout=1200):
    """cases: list of input lines; output is split into per-case blocks.  If end_marker is None each case yields exactly
    one output line; otherwise a block ends with a line starting with end_marker.  Runs NPROC shards in parallel."""
    exe = os.path.join(OCAML_BUILD, 'ymodel_' + name)
    n = len(cases)
    if n == 0: return []
    k = 1 if n < 200 else NPROC
    bounds = [(i * n // k, (i + 1) * n // k) for i in range(k)]
    procs = []
    for a, b in bounds:
        p = subprocess.Popen([exe], stdin=subprocess.PIPE, stdout=subprocess.PIPE, stderr=subprocess.PIPE, preexec_fn=_big_stack)
        procs.append(p)
    import threading
    outs = [None] * k
    def feed(i, a, b):
        o, e = procs[i].communicate(('\n'.join(cases[a:b]) + '\n').encode(), timeout=timeout)
        outs[i] = (procs[i].returncode, o.decode('utf-8', 'replace'), e.decode('utf-8', 'replace'))
    ths = [threading.Thread(target=feed, args=(i, a, b)) for i, (a, b) in enumerate(bounds)]
    for t in ths: t.start()
    for t in ths: t.join()
    blocks = []
    for i, (a, b) in enumerate(bounds):
        rc, o, e = outs[i]
        lines = o.split('\n')
        if lines and lines[-1] == '': lines.pop()
        if end_marker is None:
            got = [[l] for l in lines]
        else:
            got = []; cur = []
            for l in lines:
                cur.append(l)
                if l.startswith(end_marker): got.append(cur); cur = []
        if rc != 0 or len(got) != b - a:
            # the model executable died (stack overflow, exception): mark the remaining cases
            got = got[:b - a] + [['MODEL-DIED rc=%s %s' % (rc, e[-200:].replace('\n', ' '))]] * (b - a - len(got))
        blocks += got
    return blocks

# ---------------------------------------------------------------------------------------------------------------
# implementation workers
# ---------------------------------------------------------------------------------------------------------------
def impl_env(hashseed=0):
    e = dict(os.environ)
    e['PYTHONPATH'] = os.path.join(REPO, 'lib') + ':' + VERIF
    e['PYTHONHASHSEED'] = str(hashseed)
    e['PYYAML_VERIF'] = '1'
    e['PYTHONDONTWRITEBYTECODE'] = '1'
    return e

def run_impl(module, payload, shards=None, timeout=1500, hashseed=0):
    """Run tools/layers/<module>.py worker(s) in fresh interpreters: the payload (list of JSON-able cases) is sharded,
    each worker prints one JSON line per case.  Returns list of results (same order).  A worker that dies yields
    {'worker_died': ...} for its remaining cases."""
    n = len(payload)
    if n == 0: return []
    k = shards or (1 if n < 64 else NPROC)
    bounds = [(i * n // k, (i + 1) * n // k) for i in range(k)]
    procs = []
    for a, b in bounds:
        p = subprocess.Popen([PY, '-m', 'tools.layers.' + module, '--worker'], stdin=subprocess.PIPE, stdout=subprocess.PIPE,
                             stderr=subprocess.PIPE, env=impl_env(hashseed), cwd=VERIF)
        procs.append(p)
    import threading
    outs = [None] * k
    def feed(i, a, b):
        data = '\n'.join(json.dumps(c) for c in payload[a:b]) + '\n'
        try:
            o, e = procs[i].communicate(data.encode(), timeout=timeout)
            outs[i] = (procs[i].returncode, o.decode('utf-8', 'replace'), e.decode('utf-8', 'replace'))
        except subprocess.TimeoutExpired:
            procs[i].kill(); o, e = procs[i].communicate()
            outs[i] = (124, o.decode('utf-8', 'replace'), 'TIMEOUT')
    ths = [threading.Thread(target=feed, args=(i, a, b)) for i, (a, b) in enumerate(bounds)]
    for t in ths: t.start()
    for t in ths: t.join()
    res = []
    for i, (a, b) in enumerate(bounds):
        rc, o, e = outs[i]
        lines = [l for l in o.split('\n') if l.startswith('{') or l.startswith('[') or l.startswith('"')]
        got = []
        for l in lines:
            try: got.append(json.loads(l))
            except Exception: got.append({'worker_garbage': l[:200]})
        if len(got) < b - a:
            got += [{'worker_died': 'rc=%s %s' % (rc, e[-300:])}] * (b - a - len(got))
        res += got[:b - a]
    return res

# ---------------------------------------------------------------------------------------------------------------
# check context: evidence, violations, known findings
# ---------------------------------------------------------------------------------------------------------------
TRUSTED_BASE = [
    'Coq 8.16.1 kernel (coqc, full .vo compilation) and its vm_compute bytecode VM; no native_compute',
    'tools/translate (Python ast / re._parser -> coq/Gen), fail-closed',
    'Extraction with ExtrOcamlBasic only (bool/option/list/prod/unit/sumbool -> OCaml natives; N/Z/nat/positive stay inductive; no Extract Constant) + ocamlfind ocamlopt 4.13.1',
    'correspondence harness (tools/layers, generators, canonicalisers) and CPython 3.12.1',
    'hand-written Gallina transcriptions of the algorithmic Python bodies are tied to the code by correspondence only',
]

FORBIDDEN = re.compile(r'\b(Admitted|admit|Axiom|Axioms|Parameter|Parameters|Conjecture|Admit Obligations|bypass_check|Unset Guard Checking|Unset Positivity Checking|Unset Universe Checking)\b|-type-in-type|-impredicative-set')
def hygiene_scan():
    """textual scan of every .v file (generated ones included) and of _CoqProject for declarations or flags the brief forbids;
    comments are stripped first.  `Variable`/`Hypothesis` are allowed only between Section ... End."""
    bad = []
    for root, _, files in os.walk(COQ):
        for f in files:
            if not (f.endswith('.v') or f == '_CoqProject'): continue
            path = os.path.join(root, f)
            if 'Gen.baseline' in path: continue
            text = open(path, encoding='utf-8', errors='replace').read()
            prev = None
            while prev != text:                                     # strip (nested) comments
                prev = text; text = re.sub(r'\(\*(?:(?!\(\*|\*\)).)*\*\)', ' ', text, flags=re.S)
            text = re.sub(r'"(?:[^"]|"")*"', '""', text)        # and string literals
            for m in FORBIDDEN.finditer(text):
                bad.append('%s: %s' % (os.path.relpath(path, COQ), m.group(0)))
            depth = 0
            for line in text.split('\n'):
                if re.match(r'\s*Section\b', line): depth += 1
                elif re.match(r'\s*End\b', line) and depth > 0: depth -= 1
                elif depth == 0 and re.match(r'\s*(Variable|Variables|Hypothesis|Hypotheses|Context)\b', line):
                    bad.append('%s: %s outside a section' % (os.path.relpath(path, COQ), line.strip()[:60]))
    return bad

def coqchk(prop_id, timeout=1500):
    """independent re-check of the compiled property file and everything it depends on; returns (ok, axioms text)"""
    rc, out = sh('cd %s && timeout %d coqchk -silent -o -R . YV YV.Props.%s 2>&1' % (COQ, timeout, prop_id), timeout=timeout + 30)
    m = re.search(r'CONTEXT SUMMARY(.*)', out, flags=re.S)
    summ = ' '.join((m.group(1) if m else out[-1500:]).split())[:1500]
    return rc == 0, summ

class Ctx:
    def __init__(self, prop, tier, seed, replay=None):
        self.prop, self.tier, self.seed, self.replay = prop, tier, seed, replay
        self.t0 = time.time()
        self.rng = random.Random((seed << 8) ^ int(hashlib.sha256(prop.encode()).hexdigest()[:8], 16))
        self.obligations = []          # dicts: name, kind, status, ...
        self.broken = []               # (obligation name, detail)  -- proof / gen / correspondence obligations that no longer check
        self.violations = []           # dicts: what, case, signature...
        self.known = []                # known findings re-observed
        self.evaluations = 0
        self.distinct = set()
        self.samples = []
        self.dist = {}
        self.notes = []
        self.corr = {}                 # layer -> counts
        self.assumptions = []
        self.partial = []; self.refuted = []
        self.checker_cmd = ''
        self.gen_errors = []
        self.findings = load_findings()
    def quick(self): return self.tier == 'quick'
    def n(self, q, t): return q if self.tier == 'quick' else t
    def count(self, key, k=1): self.dist[key] = self.dist.get(key, 0) + k
    def case(self, canon, nontrivial=True, sample=None):
        self.evaluations += 1
        if nontrivial: self.distinct.add(hashlib.blake2b(repr(canon).encode('utf-8', 'surrogatepass'), digest_size=8).digest())
        if sample is not None and len(self.samples) < 6 and self.rng.random() < 0.05 or (sample is not None and not self.samples):
            self.samples.append(sample)
    def log(self, *a):
        print('[%s %6.1fs]' % (self.prop, time.time() - self.t0), *a, flush=True)

    # ----- obligations
    # which translators feed the theorems / models a property's check relies on (a TranslateError elsewhere leaves that Gen file at its last good
    # state and is reported by the properties that do depend on it)
    GEN_FOR = {'C01': ['gen_history', 'gen_calls', 'gen_regex'], 'C04': ['gen_history', 'gen_calls', 'gen_regex'], 'C06': ['gen_history', 'gen_calls', 'gen_regex'],
               'C10': ['gen_history'], 'C11': ['gen_globals', 'gen_regex'], 'C19': ['gen_globals'], 'C17': []}
    def regen(self):
        errs, meta = regenerate()
        self.gen_meta = meta
        relevant = self.GEN_FOR.get(self.prop, ['gen_regex'])
        for g, msg in errs:
            self.gen_errors.append((g, msg))
            if g in relevant: self.broken.append(('gen:' + g, msg))
            else: self.notes.append('translator %s failed (not used by this property): %s' % (g, msg[:200]))
        self.gen_changed = gen_diff_vs_baseline()
        return not errs
    def prove(self):
        r = prove(self.prop)
        self.checker_cmd = r['checker_cmd']
        self.obligations = r['obligations']
        self.prove_log = r['log']
        bad = hygiene_scan()
        if bad: self.broken.append(('hygiene:no_admitted_no_axioms', 'forbidden vernacular in the Coq development: ' + '; '.join(bad[:10])))
        else: self.notes.append('hygiene: no Admitted/admit/Axiom/Parameter/Conjecture/Hypothesis-outside-section/guard-checks-off/-type-in-type in coq/**/*.v and _CoqProject')
        if self.tier == 'thorough' and r['ok']:
            ok, axioms = coqchk(self.prop)
            self.notes.append('coqchk -o Props/%s.vo: %s; axioms reported: %s' % (self.prop, 'accepted' if ok else 'FAILED', axioms))
            if not ok: self.broken.append(('coqchk:' + self.prop, axioms))
        if not r['ok']:
            bad = [o['name'] for o in r['obligations'] if o['status'] == 'FAILED']
            where = '%s:%s' % (r['failed_file'], r['failed_line'])
            self.broken.append(('proof:' + (bad[0] if bad else where), 'coqc rejected %s\n%s' % (where, r['log'][-1500:])))
        for o in self.obligations:
            a = o.get('assumptions', '')
            if o['status'] == 'proved' and a not in ('not printed',) and 'Closed under the global context' not in a:
                self.notes.append('theorem %s depends on: %s' % (o['name'], a))
        return r['ok']
    def models(self, names):
        fails = need_models(names)
        for n, log in fails:
            self.broken.append(('build:model_' + n, log))
        return not fails

    # ----- results
    def disagreement(self, layer, case, detail):
        """model and implementation differ on `case` in `layer`"""
        c = self.corr.setdefault(layer, dict(cases=0, disagreements=0, examples=[]))
        c['disagreements'] += 1
        if len(c['examples']) < 5: c['examples'].append(dict(case=case, detail=detail))
    def corr_count(self, layer, k=1):
        c = self.corr.setdefault(layer, dict(cases=0, disagreements=0, examples=[]))
        c['cases'] += k
    def violation(self, what, case, signature_data=None):
        """the property's own predicate failed on the real implementation for `case`."""
        f = match_finding(self.findings, self.prop, signature_data if signature_data is not None else case)
        if f is not None:
            if f['id'] not in [k['id'] for k in self.known]: self.known.append(f)
            f.setdefault('_hits', 0); f['_hits'] += 1
            f.setdefault('_first', dict(what=what, case=case))
            return False
        self.violations.append(dict(what=what, case=case))
        return True

    def finish(self, level='proof', extra_cov=None, assumptions=None, explanation=None):
        for layer, c in self.corr.items():
            if c['disagreements']:
                self.broken.append(('corr:' + layer, '%d of %d cases differ between the Coq model and the implementation; first: %s'
                                    % (c['disagreements'], c['cases'], json.dumps(c['examples'][0], ensure_ascii=True)[:1500])))
        wall = time.time() - self.t0
        n_obl = len(self.obligations) + len([b for b in self.broken if not b[0].startswith('proof:')])
        n_ok = len([o for o in self.obligations if o['status'] == 'proved'])
        cov = dict(
            obligations=max(n_obl, 1), discharged=n_ok, checker_cmd=self.checker_cmd or 'n/a',
            trusted_base=TRUSTED_BASE + (assumptions or []),
            obligation_table=[dict(name=o['name'], kind=o['kind'], status=o['status'], assumptions=o['assumptions']) for o in self.obligations],
            broken=[dict(obligation=b[0], detail=b[1][:2000]) for b in self.broken],
            partial=self.partial, refuted=self.refuted,
            evaluations=self.evaluations, distinct_nontrivial=len(self.distinct),
            rule=getattr(self, 'rule', 'see correspondence'), samples=self.samples[:8] or ['(no cases run: proof obligations failed first)'],
            input_distribution=self.dist, correspondence={k: dict(cases=v['cases'], disagreements=v['disagreements']) for k, v in self.corr.items()},
            gen_changed_vs_baseline=getattr(self, 'gen_changed', []), known_findings_observed=[k['id'] for k in self.known],
            known_finding_examples=[dict(id=k['id'], hits=k.get('_hits', 0), first=json.loads(json.dumps(k.get('_first'), default=str)[:100000]) if len(json.dumps(k.get('_first'), default=str)) < 100000 else str(k.get('_first'))[:3000]) for k in self.known], notes=self.notes[:20])
        if explanation: cov['explanation'] = explanation
        if extra_cov: cov.update(extra_cov)
        rc = 0
        lines = []
        for k in self.known:
            lines.append('KNOWN-FINDING: property=%s %s (%s; %d case(s) this run)' % (self.prop, k['what'], k['id'], k.get('_hits', 0)))
        os.makedirs(os.path.join(VERIF, 'replays'), exist_ok=True)
        if self.violations:
            v = self.violations[0]
            h = hashlib.sha256(json.dumps(v, sort_keys=True, default=str).encode()).hexdigest()[:12]
            path = os.path.join(VERIF, 'replays', '%s-%s.json' % (self.prop, h))
            json.dump(dict(property=self.prop, kind='failing-input', what=v['what'], case=v['case'], seed=self.seed, tier=self.tier,
                           n_violations=len(self.violations), more=[x for x in self.violations[1:6]],
                           broken_obligations=[b[0] for b in self.broken],
                           replay_cmd='./check %s --replay %s' % (self.prop, os.path.relpath(path, VERIF))), open(path, 'w'), indent=1, default=str)
            lines.append('VIOLATION property=%s replay=%s' % (self.prop, path)); rc = 1
        elif self.broken:
            b = self.broken[0]
            h = hashlib.sha256((b[0] + b[1]).encode()).hexdigest()[:12]
            path = os.path.join(VERIF, 'replays', '%s-%s.json' % (self.prop, h))
            json.dump(dict(property=self.prop, kind='broken-obligation', obligation=b[0], detail=b[1], all_broken=[dict(obligation=x[0], detail=x[1][:3000]) for x in self.broken],
                           seed=self.seed, tier=self.tier, note='the theorem / translator item / correspondence layer named here no longer checks; the search on the implementation found no input on which the property itself fails'),
                      open(path, 'w'), indent=1, default=str)
            lines.append('VIOLATION property=%s replay=%s no-failing-input-found' % (self.prop, path)); rc = 1
        ev = dict(property_id=self.prop, tier=self.tier, seed=self.seed, level=level, coverage=cov,
                  assumptions=(assumptions or []) + self.assumptions, wall_s=round(wall, 2), violations=len(self.violations) + (1 if (self.broken and not self.violations) else 0))
        os.makedirs(os.path.join(VERIF, 'evidence'), exist_ok=True)
        with open(os.path.join(VERIF, 'evidence', self.prop + '.json'), 'w') as f:
            json.dump(ev, f, indent=1, default=str, ensure_ascii=True)
        for l in lines: print(l, flush=True)
        self.log('done: obligations %d/%d proved, %d evaluations (%d distinct non-trivial), %d broken, %d violations, %d known findings, %.1fs'
                 % (n_ok, len(self.obligations), self.evaluations, len(self.distinct), len(self.broken), len(self.violations), len(self.known), wall))
        return rc

# ---------------------------------------------------------------------------------------------------------------
# known findings: committed file, matched by signature predicate (tools/findings.py), never written at run time
# ---------------------------------------------------------------------------------------------------------------
def load_findings():
    p = os.path.join(VERIF, 'known_findings.json')
    if not os.path.exists(p): return []
    return [f for f in json.load(open(p)) if f.get('kind') == 'finding']

def match_finding(findings, prop, data):
    from tools import findings as F
    for f in findings:
        if prop not in f.get('properties', [f.get('property')]): continue
        pred = getattr(F, f['signature'], None)
        if pred is None: continue
        try:
            if pred(data): return f
        except Exception:
            continue
    return None
