"""Generators with built-in oracles for C13 (anchors / aliases / identity) and C14 (mappings, merge keys, sets, omaps).
The documents are rendered from a small AST, so the expected identity classes and the expected merged dictionaries are
computed from the AST by the declarative rules, independently of the library's parser."""

# ---------------------------------------------------------------------------------------------------------------
# C13
# ---------------------------------------------------------------------------------------------------------------
def gen_c13(rng, depth=3):
    """returns (text, ast, expect) ; expect in {'ok', 'ComposerError', 'ConstructorError'}"""
    anchors = []      # names defined so far (document order)
    counter = [0]
    open_anchors = [] # anchors of collections currently being built (self reference)
    def node(d, ctx):
        r = rng.random()
        if anchors and r < 0.22:
            a = rng.choice(anchors)
            return ('alias', a)
        if d <= 0 or r < 0.45:
            counter[0] += 1
            return ('scalar', 's%d' % counter[0])
        kind = rng.choice(['seq', 'seq', 'map', 'map', 'set', 'omap', 'pairs'])
        a = None
        if rng.random() < 0.5:
            a = 'a%d' % (len(anchors) + 1); anchors.append(a)
        n = rng.choice([0, 1, 2, 3])
        if kind == 'seq': return ('seq', a, [node(d - 1, 'item') for _ in range(n)])
        if kind == 'set':
            items = []
            for _ in range(n): counter[0] += 1; items.append('e%d' % counter[0])
            return ('set', a, items)
        pairs = []
        for _ in range(n):
            counter[0] += 1
            pairs.append(('k%d' % counter[0], node(d - 1, 'value')))
        return (kind, a, pairs)
    ast = node(depth, 'root')
    expect = 'ok'
    r = rng.random()
    if r < 0.06:   # undefined / forward alias
        ast = ('seq', None, [('alias', 'zz'), ast]); expect = 'ComposerError'
    elif r < 0.12 and anchors:   # duplicate anchor
        ast = ('seq', None, [ast, ('seq', anchors[0], [])]); expect = 'ComposerError'
    elif r < 0.18:   # a container as its own key
        ast = ('seq', None, [ast, ('selfkey', 'q')]); expect = 'ConstructorError'
    return render13(ast, rng), ast, expect

def render13(n, rng):
    k = n[0]
    if k == 'alias': return '*' + n[1]
    if k == 'scalar': return n[1]
    if k == 'selfkey': return '&%s {*%s : v}' % (n[1], n[1])
    anc = ('&%s ' % n[1]) if n[1] else ''
    if k == 'seq': return anc + '[' + ', '.join(render13(c, rng) for c in n[2]) + ']'
    if k == 'map': return anc + '{' + ', '.join('%s: %s' % (key, render13(c, rng)) for key, c in n[2]) + '}'
    if k == 'set': return anc + '!!set {' + ', '.join(n[2]) + '}'
    if k in ('omap', 'pairs'): return anc + '!!%s [' % k + ', '.join('%s: %s' % (key, render13(c, rng)) for key, c in n[2]) + ']'

def check13(ast, obj):
    """walk AST and loaded object in parallel; returns None or a description of the identity mismatch.
    instance id of an AST container = id() of its tuple; an alias denotes the most recent definition of its anchor."""
    defs = {}
    def collect(n):
        if n[0] in ('seq',):
            if n[1]: defs[n[1]] = n
            for c in n[2]: collect(c)
        elif n[0] in ('map', 'omap', 'pairs'):
            if n[1]: defs[n[1]] = n
            for _, c in n[2]: collect(c)
        elif n[0] == 'set':
            if n[1]: defs[n[1]] = n
    collect(ast)
    inst2obj = {}; obj2inst = {}
    visited = set()
    def walk(n, o):
        if n[0] == 'alias':
            if n[1] not in defs: return 'alias to unknown anchor loaded'
            n = defs[n[1]]
            if n[0] != 'scalar' and (id(n), id(o)) in visited: return None
        if n[0] == 'scalar':
            return None if o == n[1] else 'scalar %r loaded as %r' % (n[1], o)
        key = id(n)
        if key in inst2obj and inst2obj[key] != id(o): return 'one anchored %s node loaded as two different objects' % n[0]
        if id(o) in obj2inst and obj2inst[id(o)] != key: return 'two different %s nodes loaded as one object' % n[0]
        inst2obj[key] = id(o); obj2inst[id(o)] = key
        if (key, id(o)) in visited: return None
        visited.add((key, id(o)))
        if n[0] == 'seq':
            if type(o) is not list or len(o) != len(n[2]): return 'sequence loaded as %s of length %s' % (type(o).__name__, len(o) if hasattr(o, '__len__') else '?')
            for c, x in zip(n[2], o):
                r = walk(c, x)
                if r: return r
        elif n[0] == 'map':
            if type(o) is not dict or len(o) != len(n[2]): return 'mapping loaded as %s' % type(o).__name__
            if list(o.keys()) != [k for k, _ in n[2]]: return 'mapping key order %r differs from document order' % list(o.keys())
            for k, c in n[2]:
                r = walk(c, o[k])
                if r: return r
        elif n[0] == 'set':
            if type(o) is not set or o != set(n[2]): return 'set loaded as %r' % (o,)
        elif n[0] in ('omap', 'pairs'):
            if type(o) is not list or len(o) != len(n[2]): return '%s loaded as %s' % (n[0], type(o).__name__)
            for (k, c), x in zip(n[2], o):
                if type(x) is not tuple or len(x) != 2 or x[0] != k: return '%s entry loaded as %r' % (n[0], x)
                r = walk(c, x[1])
                if r: return r
        return None
    return walk(ast, obj)

# ---------------------------------------------------------------------------------------------------------------
# C14
# ---------------------------------------------------------------------------------------------------------------
class Bad(Exception): pass
def gen_c14(rng):
    """returns (text, expected) where expected is ('ok', value) or ('ConstructorError',); value uses dict/list/int/str/set/tuple"""
    anchored = []     # (name, ast) of anchored mappings available as merge sources / values
    cnt = [0]
    def scalar():
        cnt[0] += 1
        return ('int', cnt[0])
    def mapping(d, allow_merge=True):
        entries = []
        n = rng.choice([0, 1, 2, 3, 4])
        keys = ['a', 'b', 'c', 'd', 'e', '1', 'x y']
        for _ in range(n):
            r = rng.random()
            if allow_merge and r < 0.3:
                entries.append(('merge', merge_value(d)))
            elif r < 0.36:
                entries.append(('pair', '"<<"', value(d - 1)))          # a quoted << is an ordinary key
            else:
                entries.append(('pair', rng.choice(keys), value(d - 1)))
        a = None
        if rng.random() < 0.4:
            a = 'm%d' % (len(anchored) + 1)
        m = ('map', a, entries)
        if a: anchored.append((a, m))
        return m
    def merge_value(d):
        r = rng.random()
        if anchored and r < 0.45: return ('alias', rng.choice(anchored)[0])
        if r < 0.7: return mapping(d - 1, allow_merge=d > 0)
        if r < 0.9:
            items = []
            for _ in range(rng.choice([0, 1, 2, 3])):
                if anchored and rng.random() < 0.5: items.append(('alias', rng.choice(anchored)[0]))
                elif rng.random() < 0.08: items.append(scalar())         # ill-shaped: non-mapping in a merge list
                else: items.append(mapping(d - 1, allow_merge=d > 0))
            return ('seq', None, items)
        return scalar()                                                   # ill-shaped: scalar merge value
    def value(d):
        r = rng.random()
        if d <= 0 or r < 0.5: return scalar()
        if anchored and r < 0.6: return ('alias', rng.choice(anchored)[0])
        if r < 0.8: return mapping(d)
        if r < 0.86: return ('seq', None, [value(d - 1) for _ in range(rng.choice([0, 1, 2]))])
        if r < 0.9: return ('set', [rng.choice(['p', 'q', 'r', 'p']) for _ in range(rng.choice([0, 1, 2, 3]))])
        if r < 0.93: return ('setbad', None)
        if r < 0.97:
            ok = rng.random() < 0.8
            if not ok: return (rng.choice(['omap', 'pairs']), [('k', ('int', 0))] * rng.choice([0, 1]), False)
            return (rng.choice(['omap', 'pairs']), [(rng.choice(['k', 'l', 'k']), value(d - 1)) for _ in range(rng.choice([0, 1, 2, 3]))], ok)
        return ('unhashable_key', None)
    top = ('seq', None, [mapping(3) for _ in range(rng.choice([1, 2, 3]))])
    text = render14(top)
    defs = {}
    def ev(n):
        k = n[0]
        if k == 'int': return n[1]
        if k == 'alias': return ev(defs[n[1]])
        if k == 'seq': return [ev(c) for c in n[2]]
        if k == 'set': return set(n[1])
        if k == 'setbad': raise Bad()
        if k == 'unhashable_key': raise Bad()
        if k in ('omap', 'pairs'):
            if not n[2]: raise Bad()
            return [(key, ev(c)) for key, c in n[1]]
        if k == 'map':
            if n[1]: defs[n[1]] = n
            result = {}
            for e in n[2]:                       # merge keys first, in order of appearance: a later merge key overrides an earlier one
                if e[0] == 'merge':
                    result.update(merged(e[1]))
            for e in n[2]:                       # own keys override everything merged; among equal own keys the last wins
                if e[0] == 'pair':
                    key = '<<' if e[1] == '"<<"' else (1 if e[1] == '1' else e[1])
                    result[key] = ev(e[2])
            return result
    def as_mapping(n):
        if n[0] == 'alias': n = defs[n[1]]
        if n[0] != 'map': raise Bad()
        return ev(n)
    def merged(v):
        if v[0] == 'seq':
            out = {}
            for src in reversed(v[2]):           # an earlier mapping in the list takes precedence over a later one
                out.update(as_mapping(src))
            return out
        return as_mapping(v)
    # evaluation order must define anchors before use: walk in document order
    try:
        val = ev_doc(top, ev, defs)
        return text, ('ok', val)
    except Bad:
        return text, ('ConstructorError',)

def ev_doc(top, ev, defs):
    # anchor names are unique and every alias refers backwards in the generated documents: collect the definitions first
    def collect(n):
        if n[0] == 'map':
            if n[1]: defs[n[1]] = n
            for e in n[2]: collect(e[1] if e[0] == 'merge' else e[2])
        elif n[0] == 'seq':
            for c in n[2]: collect(c)
        elif n[0] in ('omap', 'pairs'):
            for _, c in n[1]: collect(c)
    collect(top)
    return ev(top)

def render14(n):
    k = n[0]
    if k == 'int': return str(n[1])
    if k == 'alias': return '*' + n[1]
    if k == 'seq': return '[' + ', '.join(render14(c) for c in n[2]) + ']'
    if k == 'set': return '!!set {' + ', '.join(n[1]) + '}'
    if k == 'setbad': return '!!set [a, b]'
    if k == 'unhashable_key': return '{[1, 2]: v}'
    if k in ('omap', 'pairs'):
        if n[2]: return '!!%s [' % k + ', '.join('%s: %s' % (key, render14(c)) for key, c in n[1]) + ']'
        return '!!%s [%s]' % (k, ', '.join(['{a: 1, b: 2}', 'x'][:1 + len(n[1]) % 2]))
    if k == 'map':
        anc = ('&%s ' % n[1]) if n[1] else ''
        parts = []
        for e in n[2]:
            if e[0] == 'merge': parts.append('<<: ' + render14(e[1]))
            else: parts.append('%s: %s' % (e[1], render14(e[2])))
        return anc + '{' + ', '.join(parts) + '}'
