"""Confirm and evaluate a seeded change produced by a sub-agent.
usage: python3 tools/seedtest.py <seed-id> <property> <worktree> [props to run, default: the property]
 1. takes `git diff -- lib` and demo_<prop>.py from the worktree into seeded/<seed-id>/
 2. confirms in the worktree: suite passes with the change; demo FAILs with it and PASSes without it
 3. applies the patch to /repo, runs the listed quick checks, undoes it (git checkout), records which checks raised an alarm in meta.json"""
import sys, os, subprocess, json, shutil, time
sid, prop, wt = sys.argv[1:4]; run = sys.argv[4:] or [prop]
V = '/verif'; d = os.path.join(V, 'seeded', sid); os.makedirs(d, exist_ok=True)
def sh(cmd, **kw): return subprocess.run(cmd, shell=True, stdout=subprocess.PIPE, stderr=subprocess.STDOUT, **kw)
if not os.path.isdir(wt): print('no such worktree', wt); sys.exit(2)
diff = sh('git -C %s diff -- lib' % wt).stdout.decode()
if not diff.strip(): print('no diff in', wt); sys.exit(2)
open(os.path.join(d, 'patch.diff'), 'w').write(diff)
demo = os.path.join(wt, 'demo_%s.py' % prop)
if os.path.exists(demo): shutil.copy(demo, os.path.join(d, 'demo.py'))
env = 'PYTHONPATH=%s/lib' % wt
suite = sh('cd %s && %s /venv/bin/python -m pytest -q -p no:cacheprovider 2>&1 | tail -1' % (wt, env)).stdout.decode().strip()
with_change = sh('cd %s && %s /venv/bin/python demo_%s.py' % (wt, env, prop))
sh('git -C %s stash' % wt)
without = sh('cd %s && %s /venv/bin/python demo_%s.py' % (wt, env, prop))
sh('git -C %s stash pop' % wt)
confirmed = ('2608 passed' in suite) and with_change.returncode != 0 and without.returncode == 0
print('suite:', suite, '| demo with change rc=%d, without rc=%d | confirmed=%s' % (with_change.returncode, without.returncode, confirmed))
results = {}
if confirmed:
    assert sh('git -C /repo status --porcelain').stdout.decode().strip() == '', '/repo not clean'
    r = sh('git -C /repo apply %s' % os.path.join(d, 'patch.diff'))
    if r.returncode != 0: print('patch does not apply to /repo:', r.stdout.decode()); sys.exit(3)
    try:
        for p in run:
            t = time.time()
            o = sh('cd %s && ./check %s --tier quick' % (V, p)).stdout.decode()
            viol = [l for l in o.split('\n') if l.startswith('VIOLATION')]
            done = [l for l in o.split('\n') if 'done:' in l]
            rep = None
            if viol:
                path = viol[0].split('replay=')[1].split()[0]
                try:
                    j = json.load(open(path)); rep = dict(kind=j.get('kind'), what=(j.get('what') or j.get('obligation')), n=j.get('n_violations'), broken=j.get('broken_obligations') or [x['obligation'] for x in j.get('all_broken', [])])
                except Exception: pass
            results[p] = dict(alarm=bool(viol), line=viol[0] if viol else None, summary=done[-1] if done else o[-300:], replay=rep, wall_s=round(time.time() - t, 1))
            print(p, 'ALARM' if viol else 'quiet', '|', (viol[0] if viol else ''), '|', json.dumps(rep)[:300] if rep else '')
    finally:
        sh('git -C /repo checkout -- .')
        assert sh('git -C /repo status --porcelain').stdout.decode().strip() == ''
meta = dict(seed=sid, breaks_property=prop, confirmed=confirmed, suite_with_change=suite, demo_with_change=with_change.stdout.decode()[-1500:], demo_without_change=without.stdout.decode()[-300:],
            ran=['cd %s && PYTHONPATH=%s/lib /venv/bin/python -m pytest -q -p no:cacheprovider' % (wt, wt), 'demo with and without the change (git stash) in the worktree', 'git -C /repo apply seeded/%s/patch.diff; ./check <P> --tier quick for P in %s; git -C /repo checkout -- .' % (sid, run)],
            checks=results)
old = {}
mp = os.path.join(d, 'meta.json')
if os.path.exists(mp):
    old = json.load(open(mp)); oc = old.get('checks', {}); oc.update(results); meta['checks'] = oc
    for k in ('needs_to_manifest', 'description', 'strengthened'): 
        if k in old: meta[k] = old[k]
json.dump(meta, open(mp, 'w'), indent=1)
