"""C13 - Aliases mean identity, and anchors obey the document rules."""
import json
from tools import vlib, corr, cgen

RULE = ('construct layer: Model/Construct.v vs load_all (graphs with identity numbering, outcome class) on corpus, mutants and generated documents. Direct on the implementation: documents '
        'rendered from a generated AST (nested lists, dicts, sets, omap/pairs lists; anchors on any collection; aliases backward, nested, recursive incl. self-reference; 6% undefined/forward '
        'alias, 6% duplicate anchor, 6% a container as its own key) loaded with Safe/Full/Unsafe and CSafe/CFull loaders: outcome class as the rules demand, and for loaded documents the '
        'object identity classes must equal the anchor/alias classes of the AST (both directions), under a 20 s watchdog; special probes: aliases of anchored scalars whose construction is not idempotent by identity (float, big int, timestamp, binary) must be the object built for the anchor; an object that refers to itself and is first reached as a mapping key / set member must load with the reference being itself. non-trivial = document has at least one anchor; distinct by text')

LOADERS = ['SafeLoader', 'FullLoader', 'UnsafeLoader', 'CSafeLoader', 'CFullLoader']
def run(ctx):
    ctx.rule = RULE
    ctx.regen(); ctx.prove()
    corr.load(ctx, ctx.n(2500, 25000), loaders=('safe', 'base'))
    cases = []
    for i in range(ctx.n(4000, 50000)):
        text, ast, exp = cgen.gen_c13(ctx.rng, depth=ctx.rng.choice([1, 2, 3, 4]))
        for L in (LOADERS if i % 4 == 0 else [ctx.rng.choice(LOADERS)]):
            cases.append([text, ast, exp, L])
        if i % 3 == 0:      # the same document after a deep (stateful, __setstate__) construction whose state aliases an already-built node
            cases.append([text, ast, exp, ctx.rng.choice(LOADERS + ['CUnsafeLoader']), True])
    multi = []
    for i in range(ctx.n(300, 3000)):     # anchors do not cross documents
        t1, a1, e1 = cgen.gen_c13(ctx.rng, 2)
        if e1 == 'ok' and '&a1 ' in t1: multi.append(['--- ' + t1 + '\n--- [*a1]\n', ['seq', None, []], 'ComposerError', ctx.rng.choice(LOADERS)])
    corr.direct(ctx, 'c13', cases, describe=lambda c: dict(text=c[0], expect=c[2], loader=c[3], after_stateful_prefix=(len(c) > 4)), label='identity')
    special = []
    for sc in ('1.5', '-.inf', '123456789012345678901234567890', '2001-12-14', '2001-12-14 21:59:43.10 -5', '!!binary QUJD', '0x1F', '1:30.5', 'text'):
        for L in LOADERS + ['UnsafeLoader', 'CUnsafeLoader', 'BaseLoader']:
            special.append(['scalar', '- &a %s\n- *a\n- *a\n' % sc, L]); special.append(['scalar', '{k: &a %s, j: *a}\n' % sc, L])
    for L in ('UnsafeLoader', 'CUnsafeLoader', 'Loader'):
        for t in ('? &k !!python/object:tools.c11custom.Point {me: *k}\n: v\n', '!!set\n? &k !!python/object:tools.c11custom.Point {me: *k}\n',
                  '- {? &k !!python/object:tools.c11custom.Point {me: *k, x: 1} : v}\n', '{&k !!python/object:tools.c11custom.Point {me: *k}: 1}\n'):
            special.append(['selfkey', t, L])
    # a container used as (part of) its own key / as a set member, and aliased lists / dicts in key position: unbuildable - every loader must
    # reject them with a ConstructorError (never a bare TypeError, never a result)
    for L in ('SafeLoader', 'FullLoader', 'UnsafeLoader', 'CSafeLoader', 'CFullLoader', 'CUnsafeLoader'):
        for t in ('&a !!set {*a}\n', '&a !!set\n? *a\n', '- &l [1]\n- !!set {*l}\n', '- &d {x: 1}\n- !!set {*d, y}\n', '&a {*a: 1}\n', '- &l [1]\n- {*l: v}\n',
                  '&a !!set {x, *a, y}\n', '&a [!!set {*a}]\n', '&a {k: {*a: 1}}\n', '- &d {x: 1}\n- ? *d\n  : v\n', '&a !!set {? [*a]}\n'):
            special.append(['unhashable', t, L])
    corr.direct(ctx, 'c13x', special, describe=lambda c: dict(probe=c[0], text=c[1], loader=c[2]), label='special')
    corr.direct(ctx, 'c13m', multi, describe=lambda c: dict(text=c[0], expect=c[2], loader=c[3]), label='across_documents')
    ctx.partial = [dict(theorem='compose_alias_identity / construct_identity (whole documents, cycles)', missing='one-step lemmas proved; the global iff is decided by correspondence and the direct run')]
    return ctx.finish(assumptions=['LibYAML composer is observed, not modelled'])

def replay(ctx, path):
    d = json.load(open(path)); ctx.rule = RULE
    ctx.regen(); ctx.prove()
    c = d.get('case', {})
    if 'text' in c: corr.load(ctx, 0, texts=[c['text']], loaders=('safe',))
    if 'probe' in c: corr.direct(ctx, 'c13x', [[c['probe'], c['text'], c['loader']]], describe=lambda c: dict(probe=c[0], text=c[1], loader=c[2]))
    return ctx.finish()
