"""C10 - Customising one loader or dumper class never changes another.
Decided by: universal theorems over all histories on Model/Registry.v instantiated on the regenerated import history and
copy-on-write shapes (Props/C10.v), tied to the code by (a) the regenerated obligations and (b) the registry correspondence:
the effective tables and MROs of every class after generated / bounded-exhaustive histories on the real implementation must
equal what the Coq model computes (vm_compute in generated case files)."""
import os, json
from tools import vlib
from tools.layers import registry as R

RULE = ('registry layer: histories of {define subclass, add_constructor, add_multi_constructor, add_representer, add_multi_representer, '
        'add_implicit_resolver, add_path_resolver, yaml.add_* helpers with/without explicit class, YAMLObject subclass} over the shipped '
        'classes: the empty history (all shipped tables incl. values), all valid sequences over a 26-op alphabet up to length L '
        '(quick L=2, thorough L=3), plus seeded random histories of length 1..12 interleaved with `use` steps (loads and dumps with every loader/dumper class of the world, which the model treats as the identity: only registrations may change a table); each runs in a forked child of an interpreter that '
        'imported yaml once; observed = MRO + six effective tables (keys in order, value names) of every class; the same history is '
        'evaluated in Coq from the regenerated world. non-trivial = at least one registration; distinct = by canonical history')

def run(ctx):
    ctx.rule = RULE
    ctx.regen()
    proved = ctx.prove()
    hists = [[]]
    ex = R.exhaustive(ctx.n(2, 3))
    if not ctx.quick() and len(ex) > 6000:
        ex = ex[:700] + ctx.rng.sample(ex[700:], 5300)
    hists += ex
    hists += [h + [['use']] for h in ex if len(h) == 1] + [[['use']]]      # every single registration followed by loads and dumps with every class
    for i in range(ctx.n(250, 2500)):
        hists.append(R.gen_history(ctx.rng, ctx.rng.choice([1, 2, 3, 4, 6, 8, 12])))
    check_histories(ctx, hists)
    # independent of the model: every kind of registration on every shipped entry class, in random order inside one interpreter; the tables
    # and the observable behaviour of every OTHER shipped entry class must not move (the frozen lattice fact C10_entry_classes_unrelated)
    from tools import corr
    from tools.layers.direct import ENTRY_CLASSES
    pairs = [[k, c] for k in ('ctor', 'multi_ctor', 'repr', 'multi_repr', 'implicit', 'path') for c in ENTRY_CLASSES]
    for rep in range(ctx.n(2, 6)):
        order = list(pairs); ctx.rng.shuffle(order)
        res = vlib.run_impl('direct', [['c10x'] + p for p in order], shards=1)
        for p, r in zip(order, res):
            ctx.count('entry_' + (r.get('outcome', '?') if isinstance(r, dict) else 'harness'))
            ctx.case(('c10x', rep, tuple(p)), nontrivial=True, sample=dict(direct='c10x', kind=p[0], target=p[1]))
            for b in (r.get('bad', []) if isinstance(r, dict) else [dict(kind='harness', what=str(r)[:200])]):
                ctx.violation(b['what'], dict(history=[['add', p[0], p[1]]], order_seed=rep, **b), dict(kind=b['kind'], target=p[1], other=b.get('other')))
    return ctx.finish(assumptions=['C3 linearisation of user classes is computed by CPython and given to the model',
                                   'value lists of implicit resolvers are compared by content; list-object aliasing is caught through the tables it changes'])

def check_histories(ctx, hists):
    if not os.path.exists(os.path.join(vlib.COQ, 'Gen', 'GenHistory.vo')) or not os.path.exists(os.path.join(vlib.COQ, 'Model', 'Registry.vo')):
        rc, out = vlib.coq_make(['Gen/GenHistory.vo'])
        if rc != 0:
            ctx.broken.append(('build:GenHistory', out[-1500:])); return
    obs = vlib.run_impl('registry', hists)
    cases = []
    base = vlib.run_impl('registry', [[]])[0].get('ok')
    if base is None:
        ctx.broken.append(('corr:registry', 'the implementation could not be observed after the empty history')); return
    ctx.base_obs = base
    for h, o in zip(hists, obs):
        if 'ok' not in o:
            ctx.count('impl_exception'); continue
        cases.append((h, o['ok']))
    res, logs = R.eval_cases(cases, os.path.join(vlib.BUILD, 'cases', ctx.prop + '_registry'), base)
    for l in logs[:1]:
        ctx.broken.append(('corr:registry', 'the Coq side failed to evaluate a case file: ' + l))
    for (h, o), r in zip(cases, res):
        ctx.corr_count('registry')
        ctx.count('len_%d' % min(len(h), 13)); 
        for op in h: ctx.count('op_' + op[0] + ('_' + op[1] if op[0] in ('add', 'helper') else ''))
        ctx.case(h, nontrivial=any(op[0] != 'def' for op in h), sample=dict(history=h))
        if r is False:
            ctx.n_bad = getattr(ctx, 'n_bad', 0) + 1
            hs = shrink(ctx, h) if ctx.n_bad <= 2 else h
            ctx.disagreement('registry', hs, 'effective tables / MRO after this history differ from the model')
            ctx.violation('after this history the effective registry tables of some class are not the ones the isolation rule (Coq model, theorems C10_*) predicts',
                          dict(history=hs, impl_tables=diff_tables(hs)), dict(history=hs))
    if not hists: return

def shrink(ctx, h):
    """greedy removal of ops while the disagreement persists (bounded)."""
    cur = list(h)
    for _ in range(3):
        changed = False
        i = 0
        while i < len(cur) and len(cur) > 1:
            cand = cur[:i] + cur[i + 1:]
            if R.valid(cand) and disagrees(ctx, cand): cur = cand; changed = True
            else: i += 1
        if not changed: break
    return cur

def disagrees(ctx, h):
    o = vlib.run_impl('registry', [h])[0]
    if 'ok' not in o: return False
    res, logs = R.eval_cases([(h, o['ok'])], os.path.join(vlib.BUILD, 'cases', ctx.prop + '_shrink'), ctx.base_obs)
    return res[0] is False

def diff_tables(h):
    """for the replay file: the tables of the implementation after h that differ from those after the empty history"""
    o = vlib.run_impl('registry', [[], h])
    if 'ok' not in o[0] or 'ok' not in o[1]: return None
    base, now = o[0]['ok'], o[1]['ok']
    return {c: {k: now[c][k] for k in now[c] if c not in base or base[c].get(k) != now[c][k]} for c in now if c not in base or base[c] != now[c]}

def replay(ctx, path):
    d = json.load(open(path))
    h = d['case']['history'] if d.get('kind') == 'failing-input' else []
    ctx.rule = RULE
    ctx.regen(); ctx.prove()
    if d.get('case', {}).get('target'):                 # an entry-class isolation probe (model-independent)
        c = d['case']; kind = c['history'][0][1]
        r = vlib.run_impl('direct', [['c10x', kind, c['target']]], shards=1)[0]
        for b in (r.get('bad', []) if isinstance(r, dict) else []):
            ctx.violation(b['what'], dict(history=c['history'], **b), dict(kind=b['kind'], target=c['target'], other=b.get('other')))
        return ctx.finish()
    check_histories(ctx, [h])
    return ctx.finish()
