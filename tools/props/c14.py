"""C14 - Mappings, merge keys, sets and ordered maps are built by their YAML 1.1 rules."""
import json
from tools import vlib, corr, cgen, values

RULE = ('construct layer: Model/Construct.v (in-place flatten_mapping, dict insertion with Python key equality) vs load_all on corpus, mutants and generated documents. Direct on the '
        'implementation: mappings rendered from a generated AST (explicit keys, duplicate keys, quoted <<, single and list merges, nested and aliased merge sources shared between several '
        'mappings, scalar / non-mapping merge values, !!set / !!omap / !!pairs of every shape, unhashable keys) loaded with SafeLoader and CSafeLoader and compared with an independent '
        'evaluator of the YAML 1.1 mapping/merge rules (values order-insensitively; key order = document order when the document has no merge key); ill-shaped values must give '
        'ConstructorError. non-trivial = every case; distinct by text')

def run(ctx):
    ctx.rule = RULE
    ctx.regen(); ctx.prove()
    corr.load(ctx, ctx.n(2500, 25000), loaders=('safe',))
    cases = []
    for i in range(ctx.n(5000, 60000)):
        text, exp = cgen.gen_c14(ctx.rng)
        canon = values.show(exp[1], canon=True, ident=False) if exp[0] == 'ok' else None
        ordered = values.show(exp[1], ident=False) if exp[0] == 'ok' and '<<:' not in text else None
        for L in ('SafeLoader', 'CSafeLoader'):
            cases.append([text, exp[0], canon, ordered, L])
    corr.direct(ctx, 'c14', cases, describe=lambda c: dict(text=c[0], expect=c[1], loader=c[4]), label='rules')
    ctx.partial = [dict(theorem='flatten_spec / dict_of_flatten / flatten_idempotent / shape errors', missing='dict/set insertion lemmas proved; merge semantics decided by correspondence and the direct run against the independent evaluator')]
    return ctx.finish(assumptions=['both back-ends share SafeConstructor (C01_c_loaders_share_constructors)'])

def replay(ctx, path):
    d = json.load(open(path)); ctx.rule = RULE
    ctx.regen(); ctx.prove()
    c = d.get('case', {})
    if 'text' in c: corr.load(ctx, 0, texts=[c['text']], loaders=('safe',))
    return ctx.finish()
