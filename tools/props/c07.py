"""C07 - The result does not depend on how the input is delivered."""
import json
from tools import vlib, corr, gen

RULE = ('reader layer (Coq model vs Reader): the four input forms x read schedules x demand scripts, incl. the read() call log and stream pointer. Direct on the implementation: '
        'each document as str, UTF-8 bytes, UTF-8+BOM, UTF-16-LE/BE+BOM, StringIO, BytesIO and short-read text/byte/UTF-16 streams; for documents up to 64 units EVERY split '
        'position (two-chunk schedules) plus 1-unit reads, for larger ones random schedules incl. 1-unit, around 4096 and inside multi-byte sequences / surrogate pairs / CR LF; '
        'tokens, events, objects with line/column (index within same-unit groups) and the error (class, context, problem, marks; reader errors: character, reason, position) '
        'must agree; byte-level mutants of encodings for the reader-error clause; both back-ends. non-trivial = non-empty; distinct by document')

def schedules(rng, n_units):
    out = [[1] * (min(n_units, 6000) + 3)]          # after the listed sizes a stream serves what is asked for
    if n_units <= 64:
        out += [[k, n_units] for k in range(1, n_units)]
    else:
        out += [[k, 4096] for k in rng.sample(range(1, n_units), min(6, n_units - 1))]
        out += [[rng.randint(1, 9) for _ in range(400)], [4095, 1, 1], [4096, 1], [4097], [2] * 3000]
    return out

def run(ctx):
    ctx.rule = RULE
    ctx.regen(); ctx.prove()
    corr.reader(ctx, ctx.n(2500, 25000))
    rng = ctx.rng
    texts = []
    small = ['a: b\r\nc: d\r\n', 'é: ☺\n- 😀\n', '"\\u263A x"\n', '- a\n- b\x85- c\n', '﻿a: 1\n', 'k: [1, 2]\r', 'a: "b\n  c"\n', '--- |\n  lit\n...\n', '{a: b, c: d}', '? x\n: y\n', "'it''s'\n", '&a [*a]\n', 'a: \x01\n', 'a: b: c\n', '[1, 2\n', '- \ud800\n']
    # U+FEFF inside the document, at the first character of a token: it is skipped only at the very start of the stream, whatever the buffer position
    small += ['a: 1\n\ufeffb: 2\n', '- \ufeffx\n- y\n', '[\ufeffa, b]', 'k: \ufeffv\n', '# c\n\ufeff- a\n', 'a: 1\n\ufeff\ufeffb: 2\n', '\ufeffa: 1\n\ufeff', '--- \ufeffx\n...\n\ufeff--- y\n', '? \ufeffk\n: \ufeffv\n']
    texts += small
    docs = gen.mutated_corpus(rng, ctx.n(500, 6000), with_corpus=False)
    for t in docs:
        r = rng.random()
        if r < 0.4: t = t[:rng.choice([8, 16, 30, 60])]
        elif r < 0.5: t = (t + '\n') * max(1, min(rng.choice([20, 80]), 12000 // (len(t) + 1)))          # beyond one refill block, bounded total size
        if rng.random() < 0.1: t = t + rng.choice(['\x01', '\x7f', '￾', '\x00'])
        if rng.random() < 0.05: t = t.replace('\n', '\r\n')
        texts.append(t)
    big = 'key: value é☺😀\r\n' * 600
    texts += [big, big[:4095] + 'é' + big[4095:], 'x' * 4095 + '\r\n' + 'y: 1\n', 'a: ' + '😀' * 3000 + '\n']
    payload = []
    for t in texts:
        try: n_units = len(t.encode('utf-8'))
        except UnicodeEncodeError: n_units = len(t)
        payload.append([t, schedules(rng, max(2, min(n_units, len(t))))[:(ctx.n(70, 140) if len(t) <= 600 else ctx.n(20, 60))]])
    corr.direct(ctx, 'c07t', payload, describe=lambda p: dict(text=p[0], n_schedules=len(p[1])), label='forms')
    # byte level: invalid encodings, reader errors at the right offset regardless of chunking
    bp = []
    import codecs
    for t in small + docs[:ctx.n(300, 3000)]:
        t = t[:rng.choice([12, 40, 200])]
        try:
            enc = rng.choice(['utf-8', 'utf-8', 'utf-16-le', 'utf-16-be'])
            data = {'utf-8': b'', 'utf-16-le': codecs.BOM_UTF16_LE, 'utf-16-be': codecs.BOM_UTF16_BE}[enc] + t.encode(enc, 'surrogatepass')
        except Exception: continue
        b = bytearray(data)
        for _ in range(rng.choice([1, 1, 2])):
            if not b: break
            i = rng.randrange(len(b)); op = rng.random()
            if op < 0.5: b[i] = rng.choice([0xff, 0x80, 0xc0, 0xe2, 0xed, 0xf0, 0xd8, 0xdc, 0xa0])
            elif op < 0.8: del b[i]
            else: b.insert(i, rng.choice([0xff, 0x80, 0xe2, 0xf0, 0xd8]))
        bp.append([list(b), schedules(rng, max(2, len(b)))[:(ctx.n(70, 140) if len(b) <= 600 else ctx.n(20, 60))]])
    corr.direct(ctx, 'c07b', bp, describe=lambda p: dict(form='bytes', payload=p[0], n_schedules=len(p[1])), label='bytes')
    ctx.partial = [dict(theorem='utf16_incremental / encoding_detection_schedule_free / reader_delivery_independent', missing='not proved; decided by the reader correspondence and the direct all-splits run')]
    ctx.refuted = [dict(theorem='delivery_same_error (FULL)', witness='a: b: c\\n + 5000 x + \\x01 : str reports the ReaderError, a 1-char stream the ScannerError (known finding F-two-errors-delivery)')]
    return ctx.finish(assumptions=['a read() returning an empty result is EOF; reads return at most the requested size'])

def replay(ctx, path):
    d = json.load(open(path)); ctx.rule = RULE
    ctx.regen(); ctx.prove()
    c = d.get('case', {})
    if 'text' in c: corr.direct(ctx, 'c07t', [[c['text'], schedules(ctx.rng, max(2, len(c['text'])))[:140]]], describe=lambda p: dict(text=p[0]))
    if 'payload' in c: corr.direct(ctx, 'c07b', [[c['payload'], schedules(ctx.rng, max(2, len(c['payload'])))[:140]]], describe=lambda p: dict(form='bytes', payload=p[0]))
    return ctx.finish()
