"""C04 - Full loading never imports, calls or instantiates what a document names."""
import json, re
from tools import vlib, corr, gen
from tools.props import c01

RULE = ('registry layer (effective tables of every shipped class vs the Coq model on the regenerated history). construct layer: documents without python/* tags through FullLoader vs the '
        'Safe constructor model (FullConstructor inherits it). Direct on the implementation, FullLoader and CFullLoader under sys.addaudithook(import) + sys.setprofile + sys.modules '
        'snapshot: the python/* tag vocabulary (every registered tag and prefix x dotted names resolvable in sys.modules, missing/empty names, importable-but-unimported modules) on '
        'every node kind / as keys / under aliases and merges; no import, no foreign call, result = plain data + tuples + complex + attributes of already-imported modules named by '
        'the document, object-construction tags rejected. non-trivial = document carries a python/* tag; distinct by (loader, text)')

def run(ctx):
    ctx.rule = RULE
    ctx.regen(); ctx.prove()
    from tools.props import c10
    c10.check_histories(ctx, [[]])
    corr.dispatch(ctx, ctx.n(800, 8000))
    ctx.notes.append('dispatch tie: ' + str((ctx.gen_meta.get('calls') or {}).get('dispatch_tie')))
    texts = [t for t in corr.load_texts(ctx, ctx.n(1500, 15000)) if 'python' not in t]
    corr.load(ctx, 0, texts=texts, loaders=('full',))
    tags = [t for t in c01.tag_vocabulary(ctx) if 'python' in t or ctx.rng.random() < 0.2]
    docs = c01.tagged_docs(ctx, tags, ctx.n(3000, 30000))
    # objects of an already-imported module that would DO something if used (iterators of several kinds, a callable): every position
    for nm in ('ticker', 'letters', 'counter', 'mapped', 'generator', 'lazy'):
        for sh in ("%s ''", '%s ""', '- %s ""\n- 1', "!!python/tuple [%s '', 1]", "? %s ''\n: 1", "k: %s ''", "- &a %s ''\n- *a", "[%s '']", "{k: %s ''}"):
            docs.append(sh % ('!!python/name:tools.c04names.' + nm))
    cases = []
    for t in docs:
        named = re.findall(r'python/name:([A-Za-z0-9_.]+)', t)
        for L in ('FullLoader', 'CFullLoader'):
            cases.append([t, L, named])
    # histories: an UnsafeLoader / Loader / BaseLoader load of the SAME document earlier in the same interpreter must not change what the full loaders do
    HARMLESS = ['!!python/object/apply:collections.OrderedDict [[[a, 1]]]', '!!python/object/new:tools.c17classes.PlainDict {}', '!!python/object:tools.c17classes.PlainDict {a: 1}',
                '!!python/module:json', '!!python/object/apply:tools.c17classes.Slots [1, 2]', '- !!python/object/new:tools.c17classes.Slots {args: [1], state: !!python/tuple [null, {a: 1}]}',
                '? !!python/object:tools.c17classes.PlainDict {a: 1}\n: v', '- &a !!python/object/apply:collections.OrderedDict []\n- *a', 'k: !!python/object/new:collections.OrderedDict []']
    seqs = []
    for t in HARMLESS:
        for warm in ('UnsafeLoader', 'Loader', 'BaseLoader', 'CUnsafeLoader'):
            for L in ('FullLoader', 'CFullLoader'):
                seqs.append([t, L, [], warm])
    ctx.rng.shuffle(cases)
    corr.direct(ctx, 'c04', cases, describe=lambda c: dict(text=c[0], loader=c[1]), label='confined')
    corr.direct(ctx, 'c04', seqs, describe=lambda c: dict(text=c[0], loader=c[1], after_load_with=c[3]), label='history')
    ctx.partial = [dict(theorem='full_effects / full_value_universe', missing='the constructor model covers Safe/Base only; decided by the direct run under audit/profile hooks')]
    return ctx.finish(assumptions=['getattr on a module with a PEP 562 __getattr__ or a lazy-import proxy is outside what is observed', 'instantiation of C types is detected through the result universe, not through call events'])

def replay(ctx, path):
    d = json.load(open(path)); ctx.rule = RULE
    ctx.regen(); ctx.prove()
    c = d.get('case', {})
    if 'text' in c:
        corr.direct(ctx, 'c04', [[c['text'], c.get('loader', 'FullLoader'), re.findall(r'python/name:([A-Za-z0-9_.]+)', c['text'])]], describe=lambda c: dict(text=c[0], loader=c[1]))
    return ctx.finish()
