"""C06 - The LibYAML back-end is a drop-in replacement for the pure-Python one."""
import json, re
from tools import vlib, corr, gen, values
from tools.props import c02

RULE = ('construct layer with the Coq model as reference semantics: Model/Construct.v vs load_all of CSafeLoader and CBaseLoader (and SafeLoader/BaseLoader) on the portable subset. '
        'Direct on the implementation: grammar-generated documents of the portable subset (block/flow collections, five scalar styles with indentation and chomping indicators, comments, '
        'anchors/aliases, tags, %YAML/%TAG directives, multi-document streams, CR/LF/CRLF/NEL/LS/PS breaks; no tab separators, no mid-stream BOM, no reserved directives) through the '
        'Base/Safe/Full/Unsafe pairs: events (all attributes), node graphs, objects must be equal; on the four malformed classes (undefined alias, duplicate anchor, unknown tag, second document '
        'in a single-document load) the error class must be equal; every output of SafeDumper and CSafeDumper over the C02 value/option generator must be read identically by both loaders. '
        'non-trivial = non-empty document; distinct by (text, pair)')

def portable(rng):
    while True:
        t = gen.gen_doc(rng)
        if '\t' in t or '﻿' in t[1:] or '%FOO' in t: continue
        if re.search(r':[\]\},]', t): continue          # `key:` glued to a flow indicator is a PyYAML leniency LibYAML does not share: not portable
        if re.search(r'![^\s,\[\]{}]*[,\[\]{}]', t): continue      # a tag glued to a flow indicator: PyYAML takes , [ ] as tag characters, LibYAML ends the tag there (not 'conventional tag characters')
        return t

def run(ctx):
    ctx.rule = RULE
    ctx.regen(); ctx.prove()
    rng = ctx.rng
    texts = [portable(rng) for _ in range(ctx.n(4000, 50000))]
    # the non-specific tag '!' on EMPTY content is a known back-end difference (F-libyaml-bang-collection-implicit: implicit flag, hence None vs ''): it is
    # reported through the direct comparison below, where findings are matched; the model-reference comparison leaves those documents out
    bang_empty = re.compile(r'(^|[\s\[{,:-])!(\s*(#[^\n]*)?(\n|$)|\s*[,\]}])')
    corr.load(ctx, 0, texts=[t for t in texts if len(t) < 600 and not bang_empty.search(t)][:ctx.n(1500, 15000)], loaders=('csafe', 'cbase', 'safe'))
    cases = [[t, rng.choice(['Base', 'Safe', 'Safe', 'Full', 'Unsafe']), rng.random() < 0.15, False] for t in texts]
    for _ in range(ctx.n(600, 6000)):
        base = rng.choice(['[a, b]', '{k: v}', '- x\n- y', 'k: [1, 2]', 'a'])
        cls = rng.choice(['undefined_alias', 'duplicate_anchor', 'unknown_tag', 'second_document'])
        if cls == 'undefined_alias': t = rng.choice(['- *nope\n- %s' % base.replace('\n', ' '), '{k: *nope}', '*nope', '- &a 1\n--- \n- *a']); single = False
        elif cls == 'duplicate_anchor': t = rng.choice(['- &a 1\n- &a 2', '{x: &b [1], y: &b [2]}', '&a [&a x]']); single = False
        elif cls == 'unknown_tag': t = rng.choice(['!foo bar', '- !!nonesuch x', '{k: !<tag:x.y,2000:z> [1]}', '!e!x y']); single = False
        else: t = rng.choice(['a\n--- b\n', '--- [1]\n--- [2]\n', 'k: v\n...\n--- x']); single = True
        for pair in ('Base', 'Safe', 'Full', 'Unsafe'): cases.append([t, pair, single, True])
    corr.direct(ctx, 'c06', cases, describe=lambda c: dict(text=c[0], pair=c[1], single=c[2], strict_errors=c[3]), label='pairs')
    dc = [[values.encode(values.build(rng, rng.choice([0, 1, 2, 3]), [], odd_tz=False)), c02.opts(rng)] for _ in range(ctx.n(3000, 40000))]
    corr.direct(ctx, 'c06d', dc, describe=lambda c: dict(value=c[0], opts=c[1]), label='dumper_outputs')
    ctx.partial = [dict(theorem='equality of back-ends', missing='no C semantics in Coq: the one F theorem shows both back-ends share the Python constructor/representer/resolver stages; everything else is translation validation against the model and direct comparison')]
    return ctx.finish(level='translation_validation', extra_cov=dict(programs=len(cases) + len(dc), disagreements_checked=len(cases) + len(dc)),
                      assumptions=['LibYAML (system libyaml 0.2.5 through the shipped _yaml extension) is observed, not modelled; the .pyx cannot be rebuilt here'])

def replay(ctx, path):
    d = json.load(open(path)); ctx.rule = RULE
    ctx.regen(); ctx.prove()
    c = d.get('case', {})
    if 'text' in c and 'pair' in c: corr.direct(ctx, 'c06', [[c['text'], c['pair'], c.get('single', False), c.get('strict_errors', False)]], describe=lambda c: dict(text=c[0], pair=c[1], single=c[2], strict_errors=c[3]))
    return ctx.finish(level='translation_validation', extra_cov=dict(programs=1, disagreements_checked=1))
