"""C09 - Tokens and events are grammatical and their positions are true."""
import json, itertools
from tools import vlib, corr, gen
from tools.layers import direct as D

RULE = ('parsel layer: the parser alone (stub token source) vs Model/ParseL.v on token lists (events with all attributes and marks). '
        'scan + parse layers: repo corpus, mutants, grammar-generated documents: every token/event attribute and every mark of the Coq model vs yaml.scan/yaml.parse. '
        'Direct on the implementation: each mark re-derived from the text by counting breaks, range, monotonicity, block/flow/stream balance, event grammar recogniser, '
        'span = value for single-line plain scalars/anchors/aliases, error marks; all strings over a 20-character indicator alphabet up to length L (quick 3, thorough 4); '
        'the parser alone on every token-kind list up to length K (quick 3, thorough 4) through a stub token source; LibYAML for range/monotonicity/grammar. '
        'non-trivial = non-empty input; distinct by text')

def run(ctx):
    ctx.rule = RULE
    ctx.regen(); ctx.prove()
    n = ctx.n(3000, 40000)
    texts = gen.mutated_corpus(ctx.rng, n)
    # sibling flow collections on one line, the first ending with an unused simple-key candidate, the second starting with an empty key: the
    # bookkeeping of simple-key candidates per flow level decides where (and whether) a KEY token is inserted
    SIBLINGS = ['k: [[a], [: b]]\n', 'k: {a: [b], c: {: d}}\n', '[\n  [a], [: b]\n]\n', 'k: [[a], [? x: b]]\n', '[[a], {: b}, [c], [: d]]\n', '{a: [b], c: [d], e: {: f}}\n',
                '- [[a, b], [: c], d]\n', '[[[a]], [: b]]\n', 'k: [{a}, [: b]]\n', '[a, [b], [: c]]\n', "[['a'], [: b]]\n", '[["a"], {: b}]\n', '[[*x], [: b]]\n', 'k: [[a], [: b], [c], [: d]]\n']
    texts = texts + SIBLINGS
    corr.scan(ctx, n, texts=texts)
    corr.parse(ctx, n, texts=texts)
    dtexts = corr.filter_reader_ok(texts) + corr.indicator_strings(ctx.n(3, 4))
    corr.direct(ctx, 'c09', dtexts, describe=lambda t: dict(text=t))
    kinds = D.TOKEN_KINDS[:18]
    seqs = [list(t) for k in range(0, ctx.n(3, 4) + 1) for t in itertools.product(kinds, repeat=k)]
    if len(seqs) > 40000: seqs = seqs[:7000] + ctx.rng.sample(seqs[7000:], 33000)
    corr.direct(ctx, 'c09p', [[s] for s in seqs], describe=lambda s: dict(tokens=s[0]), label='parser_alone')
    corr.parsel(ctx, corr.token_lists(ctx.rng, ctx.n(2500, 30000), maxlen_exhaustive=2), label='parsel')      # events and marks of the parser alone vs Model/ParseL.v
    ctx.partial = [dict(theorem='token_marks_monotone / block_balanced / parser_sound / span_is_value', missing='not proved; decided by correspondence (every mark) and the direct recomputation run')]
    return ctx.finish(assumptions=['LibYAML marks are only checked for range, monotonicity and grammar'])

def replay(ctx, path):
    d = json.load(open(path)); ctx.rule = RULE
    ctx.regen(); ctx.prove()
    c = d.get('case', {})
    if 'text' in c:
        corr.scan(ctx, 1, texts=[c['text']]); corr.parse(ctx, 1, texts=[c['text']]); corr.direct(ctx, 'c09', [c['text']], describe=lambda t: dict(text=t))
    if 'tokens' in c: corr.direct(ctx, 'c09p', [[c['tokens']]], describe=lambda s: dict(tokens=s[0]))
    return ctx.finish()
