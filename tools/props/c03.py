"""C03 - Reading never fails with anything but a YAML error."""
import json, codecs
from tools import vlib, corr, gen

RULE = ('parsel layer: yaml.parser.Parser driven by a stub token source vs Model/ParseL.v (the model of the parser-safety theorems) on all token lists over 26 token variants up to length 2 (thorough 3) between STREAM-START and STREAM-END, grammar-shaped and mutated longer lists and undelimited lists (events, marks, error marks, crash class). '
        'malformed-input stream: repo corpus + character mutants + truncations + grammar-generated documents + every escape form (\\x \\u \\U incl. out-of-range, unknown, '
        'truncated) + directive forms + non-ASCII digits / letters / spaces at every place where the scanner tests a character class + nesting up to 200 + byte-level mutants of UTF-8/UTF-16 encodings with and without BOM; delivered as str, bytes, text and byte streams '
        'with random read schedules. Correspondence (outcome class incl. the class of any non-YAML exception must equal the Coq model): reader, scan, parse, compose+construct '
        'layers. Direct on the implementation: scan / parse / compose_all with SafeLoader and CSafeLoader under a 20 s watchdog: result or YAMLError only, error marks inside '
        'the input. non-trivial = non-empty input; distinct by (form, payload)')

ESCAPES = ['"\\x41"', '"\\x4"', '"\\xZZ"', '"\\u263A"', '"\\u26"', '"\\uD800"', '"\\U0001F600"', '"\\U0010FFFF"', '"\\U00110000"', '"\\UFFFFFFFF"', '"\\U7FFFFFFF"', '"\\q"', '"\\"', '"\\\n"', '"\\0\\a\\b\\t\\n\\v\\f\\r\\e\\ \\"\\/\\\\\\N\\_\\L\\P"',
           '"a\\', "'it''s'", "'unterminated", '"unterminated', '"\\x', '"\\U0000', '"%41"', '!<%41> x', '!<%zz> x', '!<%ff%fe> x', '!e!%E2%82 x', '!<%E2%82%AC> x', '!%', '!<', '!<a', '&', '*', '& a', '&a*b', '|9', '|0', '>-+', '|10', '>x',
           '%YAML', '%YAML 1', '%YAML 1.', '%YAML 1.x', '%YAML 1.1 x', '%YAML 1.1\n%YAML 1.1\n---', '%YAML 2.0\n---', '%YAML 01.1\n--- a', '%TAG', '%TAG !', '%TAG ! x', '%TAG !a x\n---', '%TAG !a! !b\n%TAG !a! !c\n---', '%FOO  bar baz\n---', '%\n',
           '%YAML 1.' + '1' * 4299 + '\n---', '%YAML 1.' + '1' * 5000 + '\n---', '? ', '? a\n? b', ': ', '- - - -', '[' * 200 + ']' * 200, '{a: ' * 150, '- ' * 200 + 'a', '\t', 'a:\tb', '-\ta', 'a: |\n\tb', '@', '`', '--- ---', '... ...', '---\n...\n---', 'a: b: c', 'a\n  b:\n c', '[a, b', '{a: b', 'a: ]', ',', '}', ']']

# characters that Python's str predicates (isdigit / isdecimal / isalnum / isalpha / isspace / int()) accept although the YAML productions are ASCII-only,
# placed where the scanner tests a character class: directive numbers and names, anchors, tag handles and URIs, block scalar headers, escapes, indentation
LOOKALIKE = ['\u00b2', '\u0663', '\uff11', '\u2460', '\u00e9', '\uff21', '\u2003', '\u00a0', '\u1680', '\u0661\u0662']
SLOTS = ['%YAML 1.1@\n--- a\n', '%YAML 1@.1\n--- a\n', '%YAML @.1\n--- a\n', '%YAML 1.@\n--- a\n', '%YAML@1.1\n--- a\n', '%YA@ML 1.1\n---\n', '%TAG !e@! tag:x\n--- !e@!a b\n', '%TAG !e! tag:x@\n--- !e!a b\n',
         '--- &a@ x\n', '- &a@b x\n- *a@b\n', '- &@ x\n', '--- !t@ x\n', '--- !!s@tr x\n', '--- !<tag:@> x\n', '--- !e%4@ x\n', '--- |@\n  t\n', '--- |1@\n  t\n', '--- >@-\n  t\n',
         '"\\x4@"', '"\\u00@1"', '"\\U0000004@"', 'a:@b\n', 'a: b@# c\n', '-@a\n', '?@a\n:@b\n', '[a,@b]', "'a'@: b\n", 'k: |\n@ text\n', 'a: 1\n@b: 2\n']
# empty entries, keys and values in every kind of collection (the states the parser passes through only for an empty node)
EMPTIES = ['a:\n-\n', 'a:\n-\n- b\n', 'a:\n- b\n-\n- c\n', 'top:\n  a:\n  -\n', 'top:\n  a:\n  -\n  b: 1\n', '- a:\n  -\n', '- a:\n  -\n- b\n', 'a:\n-\nb:\n-\n', '-\n-\n', '- -\n', '- - -\n  -\n',
           '-\n  -\n', '? \n: \n', '?\n', '? a\n?\n', ':\n', ': a\n:\n', 'a:\nb:\n', 'a:\n  b:\nc:\n', '[,]', '[a,,b]', '[a, ]', '{,}', '{a: , b}', '{a: ,}', '{? }', '{? a}', '{? : }', '{: a}', '[? ]', '[? a, ? ]',
           '[: a]', '- !!str\n- &a\n- *a\n', 'a: !!null\nb: &x\n', '--- \n--- \n', '---\n...\n---\n', '- |\n-\n', 'a: >\nb:\n', '- ? \n  :\n', '- ? -\n  : -\n', 'a:\n- - \n  -\n']
def empties(rng, n):
    out = list(EMPTIES)
    for _ in range(n):
        a, b = rng.choice(EMPTIES), rng.choice(EMPTIES)
        out.append(rng.choice(['%s%s', 'k:\n%s%s', '- x\n%s%s', '%s---\n%s']) % (a if a.endswith('\n') else a + '\n', b))
    return out
def lookalikes():
    return [t.replace('@', c) for t in SLOTS for c in LOOKALIKE]

def cases(ctx, n):
    rng = ctx.rng; out = []
    texts = list(ESCAPES) + lookalikes() + empties(rng, 60) + gen.mutated_corpus(rng, n)
    # plain scalars that look like a number for a long time and then are not one (type regexes must give up without backtracking)
    for body in ('1' * 45, '4' + '0123456789' * 5, '1_000' * 9, '0x' + 'F' * 40, '0b' + '10' * 25, '0' + '7' * 40, '1' + ':59' * 15, '3.' + '14' * 20, '1e' + '9' * 40, '2001-12-14t21:59:43.' + '1' * 40, '-' * 40, 'y' * 40):
        for tail in ('A', '-7', '_', ':x', ' #c', '.'):
            texts.append(rng.choice(['id: ', '- ', '[', '? ']) + body + tail + '\n')
    for e in ESCAPES[:40]:
        for _ in range(2): texts.append(gen.mutate(rng, 'k: ' + e + '\n- ' + e))
    for t in texts:
        r = rng.random()
        sizes = rng.choice([[], [1] * 60, [2, 3, 1, 4096], [4095], [rng.randint(1, 9) for _ in range(40)]])
        if r < 0.45: out.append(['str', [ord(c) for c in t], None])
        elif r < 0.55: out.append(['tstream', [ord(c) for c in t], sizes])
        else:
            enc = rng.choice(['utf-8', 'utf-8', 'utf-8-sig', 'utf-16-le', 'utf-16-be', 'utf-16-nobom', 'latin-1'])
            try:
                if enc == 'utf-16-le': data = codecs.BOM_UTF16_LE + t.encode('utf-16-le', 'surrogatepass')
                elif enc == 'utf-16-be': data = codecs.BOM_UTF16_BE + t.encode('utf-16-be', 'surrogatepass')
                elif enc == 'utf-16-nobom': data = t.encode('utf-16-le', 'surrogatepass')
                elif enc == 'utf-8-sig': data = codecs.BOM_UTF8 + t.encode('utf-8', 'surrogatepass')
                elif enc == 'latin-1': data = t.encode('latin-1', 'replace')
                else: data = t.encode('utf-8', 'surrogatepass')
            except Exception: continue
            b = bytearray(data)
            for _ in range(rng.choice([0, 0, 1, 2, 3])):
                if not b: break
                i = rng.randrange(len(b)); op = rng.random()
                if op < 0.5: b[i] = rng.choice([0xff, 0x80, 0xc0, 0xe2, 0xed, 0xf0, 0xd8, 0xdc, 0x00, 0xa0, 0xfe])
                elif op < 0.8: del b[i]
                else: b.insert(i, rng.choice([0xff, 0x80, 0xe2, 0xf0, 0xd8, 0x20, 0x00]))
            out.append(['bytes' if rng.random() < 0.6 else 'bstream', list(b), sizes])
    return out

def outcome(obs):
    last = obs[-1] if obs else 'END harness'
    w = last.split()
    return ' '.join(w[:3]) if len(w) > 1 and w[1] == 'Crash' else ' '.join(w[:2])

def run(ctx):
    ctx.rule = RULE
    ctx.regen(); ctx.prove()
    n = ctx.n(2500, 30000)
    cs = cases(ctx, n)
    texts = [''.join(map(chr, c[1])) for c in cs if c[0] == 'str']
    corr.scan(ctx, 0, texts=texts, project=lambda o: [outcome(o)])
    corr.parse(ctx, 0, texts=texts, project=lambda o: [outcome(o)])
    corr.load(ctx, 0, texts=texts, loaders=('base',), project=lambda o: [outcome(o)], label='compose')
    corr.reader(ctx, ctx.n(1500, 15000), project=lambda o: [o[0].rsplit('| ', 1)[-1].split()[0]] if o else o)
    # the parser alone on token lists: ties Model/ParseL.v (the model of C03_parser_never_crashes) to parser.py, incl. the crash class on undelimited lists
    corr.parsel(ctx, corr.token_lists(ctx.rng, ctx.n(2500, 30000), maxlen_exhaustive=ctx.n(2, 3)), label='parsel')
    corr.direct(ctx, 'c03', [[c[0], c[1], c[2]] for c in cs], describe=lambda c: dict(form=c[0], payload=c[1], sizes=(c[2] or [])[:8]))
    ctx.partial = [dict(theorem='scanner_total / parser_total / composer_total / error_marks_inside', missing='proved for forward, the UTF-8 decoder, anchor scanning and the whole parser (every state, all token lists: never a crash; termination not proved); the rest is decided by correspondence of outcome classes and the direct watchdog run')]
    ctx.refuted = [dict(theorem='C03_scanner_total_refuted', witness='%YAML 1.<4301 digits> -> ValueError (known finding F-yaml-directive-4300-digits)')]
    return ctx.finish(assumptions=['nesting below the interpreter recursion limit', 'LibYAML is observed, not modelled'])

def replay(ctx, path):
    d = json.load(open(path)); ctx.rule = RULE
    ctx.regen(); ctx.prove()
    c = d.get('case', {})
    if 'payload' in c: corr.direct(ctx, 'c03', [[c['form'], c['payload'], c.get('sizes')]], describe=lambda c: dict(form=c[0], payload=c[1], sizes=c[2]))
    if 'text' in c:
        for f in (corr.scan, corr.parse): f(ctx, 0, texts=[c['text']], project=lambda o: [outcome(o)])
    return ctx.finish()
