"""C08 - Plain scalars are typed exactly by the YAML 1.1 rules, on load and on dump alike."""
import json, datetime
from tools import vlib, corr, spec11, values

RULE = ('resolve layer: all strings over a 47-character resolver alphabet to length 2, over a 16-character core to length 4, over 7 characters to '
        'length L (quick 5, thorough 7), random strings and mutated members of every type regex; Coq derivative matcher on the regenerated regexes vs '
        'the live re objects, Resolver.resolve, timestamp_regexp, NON_PRINTABLE. construct layer: generated documents (values bit-exact). Direct: '
        'safe_load / CSafeLoader of each string as a plain and as a quoted scalar typed against the frozen YAML 1.1 reference, int values against a '
        'declarative evaluator, safe_dump of look-alike strings and of numbers/dates read back. non-trivial = matched by a type regex or non-empty')

def run(ctx):
    ctx.rule = RULE
    ctx.regen()
    ctx.prove()
    strings = corr.resolve_strings(ctx, ctx.n(5, 7), ctx.n(20000, 200000), ctx.n(300, 3000))
    corr.resolve(ctx, strings)
    corr.load(ctx, ctx.n(1500, 15000), loaders=('safe',))
    direct(ctx, strings)
    ctx.partial = [dict(theorem='converter totality for int/timestamp', missing='refuted on the pinned tree (0x_, 2001-13-01): see known findings'),
                   dict(theorem='float/date dump-load theorems', missing='covered by correspondence and the direct round-trip run only')]
    ctx.refuted = [dict(theorem='C08_index_complete_all_strings_refuted', witness='\\n'), dict(theorem='C08_int_converter_total_refuted', witness='0x_')]
    return ctx.finish(assumptions=['CPython re, int(), float(), datetime are the reference for values (modelled, compared bit-exactly)'])

def direct(ctx, strings):
    """the property itself on the real implementation, against the frozen reference (tools/spec11.py)"""
    sample = [s for s in strings if '\n' not in s and '\t' not in s]
    matched = [s for s in sample if spec11.spec_tag(s) != spec11.STR]
    rest = [s for s in sample if spec11.spec_tag(s) == spec11.STR]
    pick = matched + ctx.rng.sample(rest, min(len(rest), ctx.n(6000, 60000)))
    # timestamps with fractions of every length (the microsecond field must be the fraction truncated to six digits, exactly)
    rng = ctx.rng
    for _ in range(ctx.n(4000, 120000)):
        frac = ''.join(rng.choice('0123456789') for _ in range(rng.choice([1, 2, 3, 4, 5, 6, 6, 6, 6, 7, 9])))
        if rng.random() < 0.5: frac = '000' + '%03d' % rng.randrange(1000)
        pick.append('%04d-%02d-%02d%s%02d:%02d:%02d.%s%s' % (rng.randint(1, 9999), rng.randint(1, 12), rng.randint(1, 28), rng.choice(['T', 't', ' ']), rng.randint(0, 23), rng.randint(0, 59), rng.randint(0, 59), frac,
                                                          rng.choice(['', '', 'Z', ' Z', '+01', '-5', ' +05:30', '-11:45'])))
    res = vlib.run_impl('c08direct', pick)
    for s, r in zip(pick, res):
        ctx.count('direct_' + spec11.spec_tag(s).rsplit(':', 1)[1])
        if not isinstance(r, dict):
            ctx.violation('harness failure in the direct run', dict(text=s, result=str(r)[:300])); continue
        for what in r.get('bad', []):
            ctx.violation(what['what'], dict(text=s, **what), dict(kind=what['kind'], text=s, exc=what.get('exc')))
    EMPTY = [('a: &x\nb: 1\n', {'a': None, 'b': 1}), ('a: &x\nb: *x\n', {'a': None, 'b': None}), ('- &x\n- *x\n- 2\n', [None, None, 2]), ('{a: &x , b: *x}\n', {'a': None, 'b': None}),
             ('[&x , 1]\n', [None, 1]), ('&x\n', None), ('? &k\n: v\n', {None: 'v'}), ('a: !!str\n', {'a': ''}), ('a: !!null\n', {'a': None}), ('a:\nb: ~\n', {'a': None, 'b': None}),
             ('- &x !!str\n- *x\n', ['', '']), ('- !!str &x\n- *x\n', ['', '']), ('[ , 1]'.replace(' ,', '&y ,'), [None, 1]), ('{&k : v}\n', {None: 'v'}), ('? \n: &v\n', {None: None}),
             ('--- &x\n...\n', None), ('- &x\n  - 1\n', [[1]]), ('a: &x\n  b: 1\n', {'a': {'b': 1}})]
    res = vlib.run_impl('c08direct', [['empty', t, repr(v)] for t, v in EMPTY])
    for (t, v), r in zip(EMPTY, res):
        ctx.count('direct_empty')
        for what in (r.get('bad', []) if isinstance(r, dict) else [dict(kind='harness', what=str(r)[:200])]):
            ctx.violation(what['what'], dict(text=t, **what), dict(kind=what['kind'], text=t))
    # the same typing checks on the stock classes after subclasses registered implicit resolvers of their own (separate workers)
    hist = [s for s in matched if len(s) < 12][:ctx.n(1500, 15000)] + ['1e3', '-2E5', '6e23', '1e+3', 'xx', 'anything', '12e03', '1E3']
    res = vlib.run_impl('c08direct', [['hist', s] for s in hist])
    for s, r in zip(hist, res):
        ctx.count('direct_after_subclass_registration')
        if not isinstance(r, dict):
            ctx.violation('harness failure in the direct run', dict(text=s, result=str(r)[:300])); continue
        for what in r.get('bad', []):
            ctx.violation('after a subclass registered implicit resolvers: ' + what['what'], dict(text=s, history='subclass add_implicit_resolver', **what), dict(kind=what['kind'], text=s, exc=what.get('exc')))
    # dump side over generated values
    vals = []
    for _ in range(ctx.n(3000, 30000)):
        vals.append(values.encode(values.leaf(ctx.rng, odd_tz=True)))
    res = vlib.run_impl('c08direct', [['dump', v] for v in vals])
    for v, r in zip(vals, res):
        ctx.count('direct_dump')
        if not isinstance(r, dict):
            ctx.violation('harness failure in the direct dump run', dict(value=v, result=str(r)[:300])); continue
        for what in r.get('bad', []):
            ctx.violation(what['what'], dict(value=v, **what), dict(kind=what['kind'], value=v, exc=what.get('exc'), text=what.get('text')))

def replay(ctx, path):
    d = json.load(open(path)); ctx.rule = RULE
    ctx.regen(); ctx.prove()
    c = d.get('case', {})
    if 'text' in c:
        corr.resolve(ctx, [c['text']]); direct(ctx, [c['text']])
    return ctx.finish()
