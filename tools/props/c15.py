"""C15 - Dump output honours the formatting options it was given."""
import json
from tools import vlib, corr, values
from tools.props import c02

RULE = ('emit layer: exact text of the emitter model vs yaml.emit over generated event streams x canonical/indent/width/allow_unicode/line_break. Direct on the implementation: dump_all of 1-3 '
        'generated safe-universe values x the full option product (default_style, default_flow_style, canonical, indent 1-10, width, allow_unicode, line_break, encoding, explicit_start/end, '
        'version, tags, sort_keys) with SafeDumper and CSafeDumper: result type/BOM/encoding, accepted by the reader, printable ASCII + breaks only without allow_unicode, every CR/LF is the '
        'requested break, ---/.../%YAML/%TAG for every document, block-entry indentation a multiple of the effective indent (on values made of short plain scalars), canonical output read by '
        'the repository\'s independent canonical parser to the same events. non-trivial = every case; distinct by (values, options)')

def simple_value(rng, d):
    r = rng.random()
    if d <= 0 or r < 0.3: return rng.choice(['a', 'bc', 'x1', 7, 12, 'word'])
    if r < 0.65: return [simple_value(rng, d - 1) for _ in range(rng.choice([1, 2, 3]))]
    return {('k%d' % i): simple_value(rng, d - 1) for i in range(rng.choice([1, 2, 3]))}

def run(ctx):
    ctx.rule = RULE
    ctx.regen(); ctx.prove()
    corr.emit(ctx, ctx.n(3000, 30000))
    rng = ctx.rng; cases = []
    for i in range(ctx.n(5000, 60000)):
        docs = [values.encode(values.build(rng, rng.choice([0, 1, 2, 3]), [], odd_tz=False)) for _ in range(rng.choice([1, 1, 2, 3]))]
        cases.append([docs, c02.opts(rng), rng.choice(['py', 'py', 'c']), False])
    for i in range(ctx.n(1500, 15000)):
        o = c02.opts(rng); o.update(default_style=None, default_flow_style=False, canonical=None, width=None)
        cases.append([[values.encode(simple_value(rng, rng.choice([1, 2, 3, 4]))) for _ in range(rng.choice([1, 2]))], o, rng.choice(['py', 'py', 'c']), True])
    corr.direct(ctx, 'c15', cases, describe=lambda c: dict(docs=c[0], opts=c[1], dumper=c[2], simple=c[3]), label='options')
    from tools import events
    evc = [[events.enc_case(events.stream(rng, wf=True, ndocs=rng.choice([1, 2, 3, 4])), events.options(rng)), rng.choice(['py', 'py', 'c']), True] for _ in range(ctx.n(2500, 30000))]
    corr.direct(ctx, 'c05', evc, describe=lambda c: dict(events=c[0], backend=c[1], wellformed=c[2]), label='emit_accepted_by_reader')
    ctx.partial = [dict(theorem='ascii_only / line_breaks_requested / markers_and_directives / result_type / canonical_parse', missing='option normalisation and the indent-stack invariant are proved; the output-level clauses are decided by exact-text correspondence and the direct checker')]
    return ctx.finish(assumptions=['checked encodings: None, utf-8, utf-16-le, utf-16-be', 'the repository canonical parser knows LF breaks only and no %TAG / ... : breaks are normalised, ... lines dropped, tags cases skipped for that clause'])

def replay(ctx, path):
    d = json.load(open(path)); ctx.rule = RULE
    ctx.regen(); ctx.prove()
    c = d.get('case', {})
    if 'docs' in c: corr.direct(ctx, 'c15', [[c['docs'], c['opts'], c.get('dumper', 'py'), c.get('simple', False)]], describe=lambda c: dict(docs=c[0], opts=c[1], dumper=c[2], simple=c[3]))
    return ctx.finish()
