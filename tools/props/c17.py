"""C17 - Python objects survive dump / unsafe load as they survive pickle."""
import json, os, itertools, subprocess, re
from tools import vlib, corr

RULE = ('protocol layer: for every reduce shape (new/apply x args x state in {None, {}, non-empty dict, 0, truthy non-dict} x listitems in {None, [], non-empty} x dictitems likewise = 180 '
        'shapes, both back-ends) the __new__/__init__/__setstate__/extend/__setitem__ calls observed while yaml.unsafe_load(yaml.dump(o)) and pickle.loads(pickle.dumps(o, 2)) rebuild an '
        'instrumented object vs yaml_ops / pickle_ops of Model/Pickle.v (evaluated in Coq, vm_compute). Direct on the implementation: object graphs generated from a class family covering '
        'instance dicts, __slots__ (with inheritance and with __dict__), __getstate__/__setstate__ (dict and tuple state), __getnewargs__, __reduce__ with list and dict items, list/dict '
        'subclasses, OrderedDict, enums, named tuples, tuples, complex, classes/functions by name, nested in each other and in safe containers with sharing; cycles through lists, dicts, '
        'instance dicts, tuples and __setstate__ state (must survive) and through the state / items of a reduce tuple (must be ConstructorError); YAML rebuild compared with the pickle-2 '
        'rebuild as canonical graphs; the full loader must accept exactly the tuple/complex/name documents. non-trivial = graph contains an instance; distinct by seed')

STATES = [None, {}, {'a': 1}, 0, 5]
def st_coq(s): return {repr(None): 'StNone', repr({}): 'StDict false', repr({'a': 1}): 'StDict true', repr(0): 'StOther false', repr(5): 'StOther true'}[repr(s)]
def ops_coq(ops):
    out = []
    for o in ops:
        if o[0] == 'create': out.append('Create %s [%s]' % ('true' if o[1] else 'false', '; '.join(str(x) for x in o[2])))
        elif o[0] == 'setstate': out.append('SetState (%s)' % st_coq(o[1]))
        elif o[0] == 'extend': out.append('Extend [%s]' % '; '.join(str(x) for x in o[1]))
        else: out.append('SetItems [%s]' % '; '.join('(%d, %d)' % tuple(kv) for kv in o[1]))
    return '[' + '; '.join(out) + ']'

def protocol_correspondence(ctx):
    shapes = []
    for newobj, args, state, li, di in itertools.product([False, True], [[], [7]], STATES, [None, [], [1, 2]], [None, [], [[3, 4]]]):
        shapes.append([newobj, args, state, li, di])
    cases = [[s, be] for s in shapes for be in ('py', 'c')]
    res = vlib.run_impl('direct', [['c17probe'] + c for c in cases])
    lines = []; used = []
    for (s, be), r in zip(cases, res):
        ctx.corr_count('protocol')
        if not isinstance(r, dict) or r.get('outcome') != 'ok':
            ctx.count('protocol_' + (r.get('outcome', 'harness').split()[0] if isinstance(r, dict) else 'harness')); continue
        newobj, args, state, li, di = s
        rc = '{| newobj := %s; args := [%s]; st := %s; listitems := %s; dictitems := %s |}' % (
            'true' if newobj else 'false', '; '.join(map(str, args)), st_coq(state),
            'None' if li is None else 'Some [%s]' % '; '.join(map(str, li)), 'None' if di is None else 'Some [%s]' % '; '.join('(%d, %d)' % tuple(kv) for kv in di))
        lines.append('(ops_eqb (yaml_ops %s) %s && ops_eqb (pickle_ops %s) %s)' % (rc, ops_coq(r['yaml']), rc, ops_coq(r['pickle'])))
        used.append((s, be, r))
        ctx.case(('protocol', repr(s), be), nontrivial=True, sample=dict(layer='protocol', shape=s, backend=be, yaml_calls=r['yaml'], pickle_calls=r['pickle']))
    wd = os.path.join(vlib.BUILD, 'cases', 'C17_protocol'); os.makedirs(wd, exist_ok=True)
    src = '''From Coq Require Import List Bool Arith.
Import ListNotations.
Require Import Pickle.
Definition st_eqb (a b : state) : bool := match a, b with StNone, StNone => true | StDict x, StDict y => Bool.eqb x y | StOther x, StOther y => Bool.eqb x y | _, _ => false end.
Fixpoint l_eqb {A} (f : A -> A -> bool) (a b : list A) : bool := match a, b with [], [] => true | x :: a', y :: b' => f x y && l_eqb f a' b' | _, _ => false end.
Definition op_eqb (a b : op) : bool :=
  match a, b with
  | Create n x, Create m y => Bool.eqb n m && l_eqb Nat.eqb x y
  | SetState s, SetState t => st_eqb s t
  | Extend x, Extend y => l_eqb Nat.eqb x y
  | SetItems x, SetItems y => l_eqb (fun p q => Nat.eqb (fst p) (fst q) && Nat.eqb (snd p) (snd q)) x y
  | _, _ => false end.
Definition ops_eqb := l_eqb op_eqb.
Eval vm_compute in [%s].
''' % ';\n  '.join(lines)
    open(os.path.join(wd, 'ProtoCases.v'), 'w').write(src)
    rc, out = vlib.sh(['timeout', '300', 'coqc', '-R', vlib.COQ, 'YV', '-w', vlib.COQ_WARN, 'ProtoCases.v'], cwd=wd)
    m = re.search(r'=\s*\[(.*?)\]\s*:\s*list bool', out, re.S)
    if rc != 0 or not m:
        ctx.broken.append(('corr:protocol', 'the Coq side failed to evaluate the protocol cases: ' + out[-600:])); return
    bs = [x.strip() == 'true' for x in m.group(1).split(';')]
    for (s, be, r), ok in zip(used, bs):
        if not ok: ctx.disagreement('protocol', dict(shape=s, backend=be), dict(yaml_calls=r['yaml'], pickle_calls=r['pickle'], note='differs from yaml_ops / pickle_ops of Model/Pickle.v'))

def state_correspondence(ctx):
    """set_python_instance_state and pickle's BUILD against Model/PickleState.v: every instance kind x state shape, both back-ends"""
    from tools import c17classes as K
    cases = [[c, s, be] for c in K.STATE_CLASSES for s in K.STATE_SHAPES for be in ('py', 'c')]
    res = vlib.run_impl('direct', [['c17state'] + c for c in cases])
    shape_coq = {'d0': 'SDict false', 'd1': 'SDict true', 'p00': 'SPair DEmpty false', 'p10': 'SPair DFull false', 'p01': 'SPair DEmpty true', 'p11': 'SPair DFull true', 'pN0': 'SPair DNone false', 'pN1': 'SPair DNone true'}
    lines = []; used = []
    for (c, s, be), r in zip(cases, res):
        ctx.corr_count('state')
        if not isinstance(r, dict) or r.get('outcome') != 'ok':
            ctx.disagreement('state', dict(instance=c, shape=s, backend=be), dict(result=str(r)[:200], note='the probe did not run')); continue
        known = {'CallSetstate', 'DictUpdate', 'SetAttrs', 'AttrError'}
        if not set(r['yaml']) <= known or not set(r['pickle']) <= known:
            ctx.disagreement('state', dict(instance=c, shape=s, backend=be), dict(yaml_ops=r['yaml'], pickle_ops=r['pickle'], text=r.get('text'), note='an operation outside the vocabulary of Model/PickleState.v')); continue
        ic = '{| has_setstate := %s; has_dict := %s |}' % ('true' if r['has_setstate'] else 'false', 'true' if r['has_dict'] else 'false')
        lines.append('(aops_eqb (yaml_apply %s (%s)) [%s] && aops_eqb (pickle_apply %s (%s)) [%s])' % (ic, shape_coq[s], '; '.join(r['yaml']), ic, shape_coq[s], '; '.join(r['pickle'])))
        used.append((c, s, be, r))
        ctx.case(('state', c, s, be), nontrivial=True, sample=dict(layer='state', instance=c, shape=s, backend=be, yaml_ops=r['yaml'], pickle_ops=r['pickle']))
    if not lines: return
    wd = os.path.join(vlib.BUILD, 'cases', 'C17_state'); os.makedirs(wd, exist_ok=True)
    src = '''From Coq Require Import List Bool.
Import ListNotations.
Require Import PickleState.
Definition aop_eqb (a b : aop) : bool := match a, b with CallSetstate, CallSetstate | DictUpdate, DictUpdate | SetAttrs, SetAttrs | AttrError, AttrError => true | _, _ => false end.
Fixpoint aops_eqb (a b : list aop) : bool := match a, b with [], [] => true | x :: a', y :: b' => aop_eqb x y && aops_eqb a' b' | _, _ => false end.
Eval vm_compute in [%s].
''' % ';\n  '.join(lines)
    open(os.path.join(wd, 'StateCases.v'), 'w').write(src)
    rc, out = vlib.sh(['timeout', '300', 'coqc', '-R', vlib.COQ, 'YV', '-w', vlib.COQ_WARN, 'StateCases.v'], cwd=wd)
    m = re.search(r'=\s*\[(.*?)\]\s*:\s*list bool', out, re.S)
    if rc != 0 or not m:
        ctx.broken.append(('corr:state', 'the Coq side failed to evaluate the state cases: ' + out[-600:])); return
    bs = [x.strip() == 'true' for x in m.group(1).split(';')]
    for (c, s, be, r), ok in zip(used, bs):
        if not ok: ctx.disagreement('state', dict(instance=c, shape=s, backend=be), dict(yaml_ops=r['yaml'], pickle_ops=r['pickle'], text=r.get('text'), note='differs from yaml_apply / pickle_apply of Model/PickleState.v'))

def run(ctx):
    ctx.rule = RULE
    ctx.regen(); ctx.prove()
    protocol_correspondence(ctx)
    state_correspondence(ctx)
    cases = []
    for i in range(ctx.n(5000, 60000)):
        cases.append([ctx.seed * 100003 + i, ctx.rng.choice([1, 2, 3, 4]), ctx.rng.random() < 0.25, ctx.rng.choice(['py', 'py', 'c'])])
    corr.direct(ctx, 'c17', cases, describe=lambda c: dict(graph_seed=c[0], depth=c[1], with_cycle=c[2], backend=c[3]), label='rebuild')
    corr.direct(ctx, 'c17special', [[n, be] for n in ('limitlist', 'falsy', 'copyreg_handle', 'copyreg_shared', 're_pattern', 're_pattern_bytes') for be in ('py', 'c')], describe=lambda c: dict(special=c[0], backend=c[1]), label='special')
    ctx.partial = [dict(theorem='sharing_preserved / cycle_policy / full_accepts_subset', missing='decided by the direct run; the object protocol is modelled abstractly')]
    ctx.refuted = [dict(theorem='C17_yaml_ops_order_refuted', witness='LimitList [1,2,3,4] limit=2'), dict(theorem='C17_falsy_state_refuted', witness='__getstate__ returning 0')]
    return ctx.finish(assumptions=['pickle protocol 2 as implemented by CPython 3.12 is the reference', 'the generated graph is skipped when pickle itself does not rebuild it faithfully'])

def replay(ctx, path):
    d = json.load(open(path)); ctx.rule = RULE
    ctx.regen(); ctx.prove()
    c = d.get('case', {})
    if 'graph_seed' in c: corr.direct(ctx, 'c17', [[c['graph_seed'], c['depth'], c['with_cycle'], c['backend']]], describe=lambda c: dict(graph_seed=c[0], depth=c[1], with_cycle=c[2], backend=c[3]))
    return ctx.finish()
