"""C20 - Work grows linearly with the size of the input."""
import json
from tools import vlib, corr, gen, catalogue

RULE = ('cost layer: the reader-primitive call counts of Model/CostScan.v (extracted) vs sys.setprofile counts of Reader.peek/prefix/forward/get_mark while yaml.scan runs, on the corpus files that '
        'scan and on the load catalogue at four sizes (prefix, forward, get_mark within 5%, peek within 30% - the model evaluates some self.peek() tests eagerly where Python short-circuits: affine agreement). Direct on the implementation (Python-level and builtin-level calls both counted; plus 11 families that go through customised loader/dumper classes - wildcard implicit resolver, multi-representer, multi-constructor, path resolver, repeated calls on one class): every family of the catalogue (30 load families, '
        '16 dump families x 6 option sets) at sizes n, 2n, 4n (quick n=150, thorough n=150 and 400): interpreter-level function calls counted with sys.setprofile for safe_load_all / safe_dump; '
        'calls per character of the document read/written may grow by at most 15% (+400 calls) at both doublings. exhaustive over the catalogue. non-trivial = every family; distinct by (side, family, n, options)')

def run(ctx):
    ctx.rule = RULE
    ctx.regen(); ctx.prove()
    # cost correspondence
    if ctx.models(['cost']):
        texts = [t for t in corr.filter_reader_ok(gen.corpus()) if len(t) < 4000][:ctx.n(150, 400)]
        for f, fn in catalogue.LOAD.items():
            if f == 'dq_escapes': continue      # the cost model is not tick-faithful on \\x/\\u escapes (it re-reads the digits); the family stays in the direct measurement
            for k in (20, 40, 80, 160): texts.append(fn(k))
        impl = vlib.run_impl('direct', [['c20prof', t] for t in texts])
        model = vlib.run_model_cases('cost', [' '.join(str(ord(c)) for c in t) for t in texts])
        for t, i, m in zip(texts, impl, model):
            ctx.corr_count('cost')
            if not isinstance(i, dict) or not m or m[0].startswith('MODEL-DIED'):
                ctx.disagreement('cost', dict(text=t[:200]), dict(impl=str(i)[:100], model=str(m)[:100])); continue
            ms = m[0].split()
            if (ms[0] == 'ok') != (i['outcome'] == 'ok'): ctx.disagreement('cost', dict(text=t[:200]), dict(impl=i['outcome'], model=ms[0])); continue
            if ms[0] != 'ok': continue
            mc = [int(x) for x in ms[2:6]]; pc = i['counts']
            ctx.case(('cost', t), nontrivial=True, sample=dict(layer='cost', text=t[:60], model_counts=mc, impl_counts=pc))
            ok = all(abs(mc[j] - pc[j]) * 100 <= tol * max(pc[j], 200) for j, tol in ((1, 5), (2, 5), (3, 5), (0, 30)))
            if not ok: ctx.disagreement('cost', dict(text=t[:300]), dict(model_peek_prefix_forward_getmark=mc, impl=pc))
    cases = []
    sizes = [150] if ctx.quick() else [150, 400]          # large enough for a quadratic term with a small coefficient to exceed the tolerance
    for n in sizes:
        for f in catalogue.LOAD: cases.append(['load', f, n, None])
        for f in catalogue.DUMP:
            for o in (None, {'default_flow_style': True, 'width': 40}, {'default_style': '"', 'allow_unicode': True, 'sort_keys': False}, {'default_flow_style': None}, {'canonical': True}, {'default_style': '|', 'indent': 7, 'explicit_start': True}):
                cases.append(['dump', f, n, o])
        for f in catalogue.CUSTOM: cases.append(['custom', f, n, None])
    res = corr.direct(ctx, 'c20', cases, describe=lambda c: dict(side=c[0], family=c[1], n=c[2], opts=c[3]), label='doubling')
    worst = 0
    for c, r in zip(cases, res):
        if isinstance(r, dict) and r.get('counts'):
            a, b, d = r['counts']; sa, sb, sd = [max(x, 1) for x in r['sizes']]; worst = max(worst, round(max((b / sb) / (a / sa), (d / sd) / (b / sb)), 3))
    ctx.notes.append('largest observed growth of calls per character at a doubling over the catalogue: %s' % worst)
    ctx.partial = [dict(theorem='general linearity / simple_key_window / emit_queue_bounded', missing='only the finite catalogue on the scanner cost model is a theorem (kind F); the rest is measured')]
    return ctx.finish(extra_cov=dict(exhaustive=True), assumptions=['interpreter-level calls counted by sys.setprofile are the work measure the property names'])

def replay(ctx, path):
    d = json.load(open(path)); ctx.rule = RULE
    ctx.regen(); ctx.prove()
    c = d.get('case', {})
    if 'family' in c: corr.direct(ctx, 'c20', [[c['side'], c['family'], c['n'], c.get('opts')]], describe=lambda c: dict(side=c[0], family=c[1], n=c[2], opts=c[3]))
    return ctx.finish()
