"""C12 - Multi-document streams keep their document boundaries."""
import json
from tools import vlib, corr, values, events, gen
from tools.props import c02

RULE = ('emit + parse layers (Coq model vs implementation). Direct on the implementation: dump_all of 0..4 generated values (roots incl. empty and open-ended strings, strings ending in breaks '
        'written in literal/folded style with keep chomping, empty collections, look-alikes of --- and ...) x explicit_start/explicit_end/version/tags/default_style/canonical/line_break, '
        'load_all must give the same number of equal documents and the text of the first k documents must not depend on the documents that follow (only a "..." written on behalf of an '
        'open-ended predecessor may differ); serialize_all -> compose_all on node graphs of generated multi-document texts; emit -> parse on multi-document event streams (C05 predicate); '
        'pure-Python and LibYAML. non-trivial = every case; distinct by (documents, options)')

ROOTS = ['', ' ', 'a', 'a\n', 'a\n\n', '\n', '---', '...', '--- a', '... b', 'a\n---\nb', 'a\n...\n', '- x', 'k: v', '# c', '%YAML 1.1', 'text\n\n\n', 'x' * 100, 'é', '\x85', 'a\x85', '  ']
def doc_value(rng):
    r = rng.random()
    if r < 0.45: return rng.choice(ROOTS)
    if r < 0.55: return rng.choice([[], {}, [[]], {'a': []}, None, True, 1.5, 0])
    v = values.build(rng, rng.choice([0, 1, 2]), [], odd_tz=False)
    if rng.random() < 0.4:
        shared = rng.choice([[1, 2], {'k': 'v'}, ['x']])
        v = rng.choice([[shared, shared, v], {'a': shared, 'b': shared}, [[shared], v, shared]])      # documents with anchors/aliases
    return v

def run(ctx):
    ctx.rule = RULE
    ctx.regen(); ctx.prove()
    corr.emit(ctx, ctx.n(2000, 20000))
    rng = ctx.rng; cases = []
    for i in range(ctx.n(5000, 60000)):
        docs = [values.encode(doc_value(rng)) for _ in range(rng.choice([0, 1, 2, 2, 3, 4]))]
        cases.append([docs, c02.opts(rng), rng.choice(['py', 'py', 'c'])])
    corr.direct(ctx, 'c12', cases, describe=lambda c: dict(docs=c[0], opts=c[1], dumper=c[2]), label='dump_all')
    texts = [t for t in gen.mutated_corpus(rng, ctx.n(1500, 15000)) if '---' in t or rng.random() < 0.3]
    corr.direct(ctx, 'c12n', [[t, rng.choice(['py', 'c'])] for t in texts], describe=lambda c: dict(text=c[0], dumper=c[1], backend=c[1]), label='serialize_all')
    evc = [[events.enc_case(events.stream(rng, wf=True, ndocs=rng.choice([0, 2, 3, 4])), events.options(rng)), rng.choice(['py', 'c']), True] for _ in range(ctx.n(2000, 20000))]
    # documents whose root writes nothing at all (an empty plain scalar) or almost nothing, in FIRST position and later: the marker of the document is all
    # there is to see of it, and whether it is written is decided by the emitter's look-ahead
    for first in ([('SC', None, None, True, False, '', None)], [('SC', None, None, True, True, '', None)], [('SC', 'a', None, True, False, '', None)], [('SC', None, '!', False, True, '', None)],
                  [('QS', None, None, True, True), ('QE',)], [('SC', None, None, True, False, '~', None)]):
        for ex_start in (False, True):
            for ex_end in (False, True):
                for rest in ([], [[('SC', None, None, True, False, 'b', None)]], [[('SC', None, None, True, False, '', None)], [('MS', None, None, True, False), ('ME',)]]):
                    evs = [('SS',), ('DS', ex_start, None, [])] + first + [('DE', ex_end)]
                    for r in rest: evs += [('DS', rng.choice([True, False]), None, [])] + r + [('DE', ex_end)]
                    evs.append(('SE',))
                    for be in ('py', 'c'): evc.append([events.enc_case(evs, events.options(rng)), be, True])
    corr.direct(ctx, 'c05', evc, describe=lambda c: dict(events=c[0], backend=c[1], wellformed=c[2]), label='emit')
    ctx.partial = [dict(theorem='doc_markers / no_marker_inside / doc_text_prefix_stable / parser_doc_count', missing='column-0 recognition and per-document reset proved; the rest decided by correspondence and the direct run')]
    return ctx.finish(assumptions=['LibYAML is observed, not modelled'])

def replay(ctx, path):
    d = json.load(open(path)); ctx.rule = RULE
    ctx.regen(); ctx.prove()
    c = d.get('case', {})
    if 'docs' in c: corr.direct(ctx, 'c12', [[c['docs'], c['opts'], c.get('dumper', 'py')]], describe=lambda c: dict(docs=c[0], opts=c[1], dumper=c[2]))
    if 'events' in c: corr.direct(ctx, 'c05', [[c['events'], c.get('backend', 'py'), True]], describe=lambda c: dict(events=c[0], backend=c[1], wellformed=c[2]))
    return ctx.finish()
