"""C02 - Round trip: what the safe dumpers write, the safe loaders read back."""
import json
from tools import vlib, corr, values

RULE = ('Correspondence (Coq model vs implementation): represent+serialize layer (events a recording SafeDumper receives), emit layer (exact text), scan/parse layers, construct '
        'layer. Direct on the implementation: safe_dump -> safe_load of generated safe-universe value graphs (all scalar types, strings over the full repertoire incl. NEL/LS/PS/BOM/'
        'controls/indicators/type look-alikes, nesting, shared and self-referential containers) under a sampled option product (default_style x default_flow_style x canonical x '
        'indent 1-10 x width x allow_unicode x line_break x encoding x explicit_start/end x version x tags x sort_keys) for all four {Safe,CSafe}Dumper x {Safe,CSafe}Loader '
        'pairs; compared as type-strict canonical graphs with identity numbering (key order exact when sort_keys is off). non-trivial = every case; distinct by (value, options)')

def opts(rng):
    return dict(default_style=rng.choice([None, None, '"', "'", '|', '>']), default_flow_style=rng.choice([True, False, None]), canonical=rng.choice([None, None, None, True]),
                indent=rng.choice([None, None, 1, 2, 3, 4, 7, 9, 10]), width=rng.choice([None, None, 1, 5, 10, 20, 80, 1000]), allow_unicode=rng.choice([None, True]),
                line_break=rng.choice([None, None, '\n', '\r\n', '\r']), encoding=rng.choice([None, None, None, 'utf-8', 'utf-16-le', 'utf-16-be']),
                explicit_start=rng.choice([None, True]), explicit_end=rng.choice([None, True]), version=rng.choice([None, None, None, [1, 1]]),
                tags=rng.choice([None, None, None, None, {'!e!': 'tag:e.com,2000:'}, {'!y!': 'tag:yaml.org,2002:'}, {'!s!': 'tag:yaml.org,2002:set', '!i!': 'tag:yaml.org,2002:int'}, {'!t!': 'tag:yaml.org,2002:timestamp', '!b!': 'tag:yaml.org,2002:binary', '!f!': 'tag:yaml.org,2002:float'}]), sort_keys=rng.choice([True, False]))

def rt_cases(ctx, n):
    rng = ctx.rng; cases = []
    for i in range(n):
        v = values.build(rng, rng.choice([0, 1, 2, 3, 4]), [], odd_tz=(rng.random() < 0.03))
        pair = rng.choice([('py', 'py'), ('py', 'py'), ('c', 'c'), ('py', 'c'), ('c', 'py')])
        cases.append([values.encode(v), opts(rng), pair[0], pair[1]])
    return cases

def describe(c): return dict(value=c[0], opts=c[1], dumper=c[2], loader=c[3])

def run(ctx):
    ctx.rule = RULE
    ctx.regen(); ctx.prove()
    corr.dump(ctx, ctx.n(1500, 15000))
    corr.emit(ctx, ctx.n(2000, 20000))
    corr.load(ctx, ctx.n(1200, 12000), loaders=('safe',))
    corr.direct(ctx, 'rt', rt_cases(ctx, ctx.n(6000, 80000)), describe=describe, label='roundtrip')
    ctx.partial = [dict(theorem='roundtrip (FULL)', missing='only the double-quoted scalar layer without folding is a theorem; the rest is decided by correspondence and the direct run')]
    return ctx.finish(assumptions=['CPython float repr/float() round trip', 'LibYAML is observed, not modelled'])

def replay(ctx, path):
    d = json.load(open(path)); ctx.rule = RULE
    ctx.regen(); ctx.prove()
    c = d.get('case', {})
    if 'value' in c and 'opts' in c: corr.direct(ctx, 'rt', [[c['value'], c['opts'], c.get('dumper', 'py'), c.get('loader', 'py')]], describe=describe)
    return ctx.finish()
