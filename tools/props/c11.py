"""C11 - Every call and every document stands alone."""
import json
from tools import vlib, corr, values, events, gen
from tools.props import c02

RULE = ('all layers of the model are pure functions of (input, class tables); correspondence: parse, construct, represent, emit layers. Direct on the implementation: sequences of 6-14 API calls '
        '(load, load_all incl. generators abandoned after k documents, scan, parse, compose_all, dump, dump_all, emit, serialize_all; valid and invalid inputs, documents with %YAML/%TAG directives, '
        'anchors, recursive structures; both back-ends) run in one interpreter: every result must equal the result of the same call alone in a fresh fork, the first calls repeated after the '
        'sequence likewise, and a deep order-sensitive snapshot of every module- and class-level container of the library must be unchanged. Streams: load_all(d1+...+dn) must equal '
        '[load(d1), ..., load(dn)] for generated documents (directives, anchors reused across documents). non-trivial = every sequence; distinct by sequence')

POOL_TEXT = ['a: 1\n', '- &a [1, *a]\n', '%YAML 1.1\n--- x\n', '%TAG !e! tag:e.com,2000:\n--- !e!x y\n', '--- !e!x y\n', '%TAG ! !my-\n--- !x y\n--- !x y\n', '&a x\n--- *a\n', '- &a 1\n- *a\n--- \n- &a 2\n- *a\n',
             'a: [\n', '"\\UFFFFFFFF"', 'a: b: c\n', '!!python/object/apply:os.system [x]', '{<<: {a: 1}, b: 2}\n', '[1, 2.5, yes, ~, 2001-01-01]\n', '--- |\n text\n...\n', '? [a]\n: b\n', '*undefined', '&a &a x', '\x01',
             '%YAML 1.1\n%YAML 1.1\n---\n', '--- a\n--- b\n--- c\n', '%TAG !e! tag:x,1:\n--- !e!a 1\n...\n--- !e!a 2\n']
def gen_calls(rng):
    calls = []
    for _ in range(rng.choice([6, 8, 10, 14])):
        be = rng.choice(['py', 'py', 'c'])
        r = rng.random()
        t = rng.choice(POOL_TEXT) if rng.random() < 0.7 else gen.gen_doc(rng)
        if r < 0.2: calls.append(['load', t, be])
        elif r < 0.4: calls.append(['load_all', t, rng.choice([None, None, 1, 2]), be])
        elif r < 0.48: calls.append(['scan', t, be])
        elif r < 0.56: calls.append(['parse', t, be])
        elif r < 0.64: calls.append(['compose', t, be])
        elif r < 0.8: calls.append(['dump', values.encode(values.build(rng, rng.choice([0, 1, 2, 3]), [], odd_tz=False)), c02.opts(rng), be])
        elif r < 0.86: calls.append(['dump_all', [values.encode(values.build(rng, rng.choice([0, 1, 2]), [], odd_tz=False)) for _ in range(rng.choice([0, 1, 3]))], c02.opts(rng), be])
        elif r < 0.94: calls.append(['emit', events.enc_case(events.stream(rng, wf=rng.random() < 0.7), events.options(rng)), be])
        else: calls.append(['serialize', t, be])
    # customised classes are *used* in between: registering is covered by C10, here the use must leave every class-level table alone
    for _ in range(rng.choice([0, 1, 2, 3])):
        be = rng.choice(['py', 'py', 'c'])
        r = rng.random()
        if r < 0.35: c = ['custom_dump_object', rng.choice(['MultiDumper', 'SiblingDumper', 'FD', 'MultiDumper']), be]
        elif r < 0.5: c = ['custom_dump_env', values.encode(rng.choice([['${HOME}', 'foo', 'false', 'f', 'no'], {'k': '${x}', 'n': 'null'}, ['fee', 'fie', 'foe', 'fum'] * 3])), be]
        else: c = ['custom_load', rng.choice(['EnvLoader', 'EnvLoader', 'MultiLoader', 'PathLoader', 'SL']), rng.choice(['[foo, ${HOME}, fee, false, f1, no way, 0x, 1e, .x]\n', 'a: ${x}\nb: tee\n', '!m:suffix [1, 2]\n', '- !m:a x\n- !m:b [y]\n', '{b: 1, a: 2}\n', '[{a: 1}]\n', '- foo\n- far\n- fab\n']), be]
        calls.insert(rng.randrange(len(calls) + 1), c)
    return calls

DOCS = ['%TAG ! tag:e.com,2000:\n--- !a 1\n', '--- !a 2\n', '%TAG !! tag:e.com,2000:app/\n--- !!str x\n', '--- !!str y\n', '--- !e!z w\n', '%TAG !e! tag:f.org,1:\n--- !e!z w\n', '--- [!a x, !!int 3]\n', 'a: 1\n', '--- &a [1, *a]\n', '%TAG !e! tag:e.com,2000:\n--- !e!x y\n', '--- !!str x\n', '--- &a x\n', '--- [&a 1, *a]\n...\n', '%YAML 1.1\n--- {k: v}\n', '--- |\n  text\n', "--- 'q'\n...\n", '--- \n- 1\n- 2\n',
        '--- {<<: {a: 1}, b: 2}\n', '--- !!set {a, b}\n', '--- "x"\n',
        # roots whose extent is decided by indentation or by what follows: empty and blank-only block scalars, bare markers, open-ended plain scalars
        '--- |\n', '--- >\n', '--- |\n\n', '--- >-\n\n\n', '--- |+\n\n', '--- |\n  text\n', '--- >\n folded\n text\n', '---\n', '--- plain\n', '--- plain\n  more\n', '--- # comment only\n', '--- &r\n', '--- !!str\n', "--- 'q\n\n  r'\n", '---\nkey: |\n', '---\n- |\n\n- x\n']
def run(ctx):
    ctx.rule = RULE
    ctx.regen(); ctx.prove()
    corr.parse(ctx, ctx.n(1500, 15000)); corr.load(ctx, ctx.n(1200, 12000), loaders=('safe',)); corr.dump(ctx, ctx.n(800, 8000)); corr.emit(ctx, ctx.n(1500, 15000))
    seqs = [[gen_calls(ctx.rng)] for _ in range(ctx.n(400, 5000))]
    corr.direct(ctx, 'c11', seqs, describe=lambda c: dict(calls=c[0]), label='history')
    streams = []
    for _ in range(ctx.n(2500, 30000)):
        ds = [ctx.rng.choice(DOCS) for _ in range(ctx.rng.choice([1, 2, 3, 4]))]
        ds = [d if (i == 0 or d.startswith(('---', '%'))) else '--- ' + d for i, d in enumerate(ds)]
        # a directive after a document needs an explicit document end - except after an explicit document without content, whose end is the directive itself
        EMPTY = ('---\n', '--- # comment only\n', '--- &r\n', '--- !!str\n')
        seps = ['' if not d.startswith('%') or i == 0 or (ds[i - 1] in EMPTY and ctx.rng.random() < 0.6) else '...\n' for i, d in enumerate(ds)]
        streams.append([ds, ctx.rng.choice(['py', 'c']), seps])
    corr.direct(ctx, 'c11s', streams, describe=lambda c: dict(docs_text=c[0], backend=c[1], seps=c[2]), label='stream')
    # dump side: what a document declares (%TAG handles, %YAML) must not be in force for a later document that does not declare it - event streams in
    # which an earlier document declares a handle and a later one carries a tag under that prefix (emit -> parse must give the events back)
    evc = []
    for tags1 in ([('!e!', 'tag:example.com,2000:')], [('!', '!my-')], [('!e!', 'tag:example.com,2000:'), ('!a!', 'x:')]):
        for tag2 in ('tag:example.com,2000:x', '!my-t', 'x:y', '!e!x'):
            for kind in ('SC', 'QS', 'MS'):
                node = {'SC': [('SC', None, tag2, False, False, 'v', None)], 'QS': [('QS', None, tag2, False, False), ('QE',)], 'MS': [('MS', None, tag2, False, True), ('ME',)]}[kind]
                evs = [('SS',), ('DS', True, None, tags1), ('SC', None, tags1[0][1] + 'a', False, False, 'w', None), ('DE', False),
                       ('DS', ctx.rng.choice([True, False]), None, [])] + node + [('DE', False), ('SE',)]
                for be in ('py', 'c'): evc.append([events.enc_case(evs, events.options(ctx.rng)), be, True])
    corr.direct(ctx, 'c05', evc, describe=lambda c: dict(events=c[0], backend=c[1], wellformed=c[2]), label='emit_stream')
    ctx.partial = [dict(theorem='stream_is_list_of_docs / parser_doc_independent / serializer and representer resets', missing='global-write confinement (regenerated) and the per-document reset of the load model are proved; the rest is decided by correspondence and the direct history run')]
    return ctx.finish(assumptions=['fresh interpreter = a fork of a process that has only imported yaml'])

def replay(ctx, path):
    d = json.load(open(path)); ctx.rule = RULE
    ctx.regen(); ctx.prove()
    c = d.get('case', {})
    if 'calls' in c: corr.direct(ctx, 'c11', [[c['calls']]], describe=lambda c: dict(calls=c[0]))
    if 'events' in c: corr.direct(ctx, 'c05', [[c['events'], c.get('backend', 'py'), True]], describe=lambda c: dict(events=c[0], backend=c[1], wellformed=c[2]))
    if 'docs_text' in c: corr.direct(ctx, 'c11s', [[c['docs_text'], c.get('backend', 'py'), c.get('seps')]], describe=lambda c: dict(docs_text=c[0], backend=c[1], seps=c[2]))
    return ctx.finish()
