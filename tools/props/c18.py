"""C18 - Streams are consumed incrementally and documents delivered as they complete."""
import json
from tools import vlib, corr, gen

RULE = ('reader layer (Coq model vs Reader: stream pointer and read() call log after every demand, all schedules). Direct on the implementation: multi-document streams (document sizes from '
        'a few characters to several refill blocks, 2-400 documents, multi-byte characters) delivered through text and byte streams under read schedules (1-unit, random small, around 4096, '
        'default) to load_all / compose_all / parse: each time a document is delivered the stream offset may exceed the end of that document by at most two refill blocks (2*4096 units; '
        'LibYAML: two of its 16 KiB blocks), independent of how much follows; a malformed document at position j: the j preceding documents are delivered first; closing the load_all '
        'generator after one document disposes the loader. non-trivial = every stream; distinct by (documents, schedule, api, back-end)')

def describe(c):
    tot = sum(len(d) for d in c[0])
    return dict(n_docs=len(c[0]), first_doc=c[0][0][:60], total_units=tot, sizes=c[1][:6], binary=c[2], api=c[3], backend=c[4], malformed_at=c[5], case=(c if tot < 60000 else None))

def run(ctx):
    ctx.rule = RULE
    ctx.regen(); ctx.prove()
    corr.reader(ctx, ctx.n(2500, 25000))
    rng = ctx.rng; cases = []
    bodies = ['a', 'k: v', '[1, 2, 3]', '{a: b}', 'é☺ text', '"quoted"', '|\n  literal\n  block', 'x' * 100, 'y' * 5000, '- a\n- b\n- c', 'key:\n  - 1\n  - {b: c}', '"' + 'w ' * 3000 + '"', '"' + '😀' * 1023 + 'ab"', '"' + '😀' * 1500 + '"', '"x' + '€' * 1365 + '"', '"' + 'é' * 2047 + 'z"',
              'z' * 20000, '"' + 'q' * 40000 + '"', '|\n  ' + 'L' * 30000, 'k: &anchor' + 'a' * 18000 + ' v', '- ' + 'p' * 17000 + '\n- x']       # single tokens longer than several refill blocks
    for i in range(ctx.n(250, 3000)):
        n = rng.choice([2, 3, 10, 60, 400])
        body = rng.choice(bodies) if rng.random() < 0.7 else None
        dots = rng.random() < 0.35                                  # documents closed by an explicit '...'
        docs = ['---\n' + (body if body is not None else rng.choice(bodies)) + ('\n...\n' if dots else '\n') for _ in range(n)]
        if dots and rng.random() < 0.3:                              # a long comment between '...' and the next '---': one long stretch without a token
            j = rng.randrange(1, len(docs)); docs[j] = '# ' + 'c' * rng.choice([9000, 20000, 40000]) + '\n' + docs[j]
        if sum(len(d) for d in docs) > 400000: docs = docs[:40]
        bad_at = None
        if rng.random() < 0.25:
            bad_at = rng.randrange(1, len(docs))
            if dots and rng.random() < 0.7: docs[bad_at] = rng.choice(['@bad\n', '%YAML x\n---\na\n', '"unterminated\n', '`x\n', 'plain\n', '%TAG !e!\n---\na\n', "'open\n"])     # the error follows '...' directly
            else: docs[bad_at] = rng.choice(['---\n[a, b\n', '---\n{a: b: c}\n', '---\n"unterminated\n', '---\na: b: c\n'])
            docs = docs[:bad_at + 1] + docs[bad_at + 1:][:3]
        sizes = rng.choice([[], [1] * 200, [rng.randint(1, 9) for _ in range(300)], [4095, 1, 4096], [4097], [100] * 50])
        cases.append([docs, sizes, rng.random() < 0.5, rng.choice(['load_all', 'load_all', 'compose_all', 'parse']), rng.choice(['py', 'py', 'c']), bad_at])
    res = corr.direct(ctx, 'c18', cases, describe=describe, label='lazy')
    w = {}
    for c, r in zip(cases, res):
        if isinstance(r, dict) and 'worst' in r: w[c[4]] = max(w.get(c[4], 0), r['worst'])
    ctx.notes.append('largest observed read-ahead beyond the end of a delivered document: %s' % w)
    ctx.partial = [dict(theorem='reader_readahead_bound / token_lookahead_bounded / lazy_prefix_determinism', missing='per-refill block bound and no-refill-when-satisfied proved; the end-to-end bound is decided by the reader correspondence and the direct offset run')]
    return ctx.finish(assumptions=['reads return at most the requested size; an empty read is EOF', 'generator finalisation is CPython behaviour (observed)', 'LibYAML block size 16 KiB (observed)'])

def replay(ctx, path):
    d = json.load(open(path)); ctx.rule = RULE
    ctx.regen(); ctx.prove()
    c = d.get('case', {}).get('case')
    if c: corr.direct(ctx, 'c18', [c], describe=describe)
    return ctx.finish()
