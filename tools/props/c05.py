"""C05 - Emitting then parsing returns the same events."""
import json
from tools import vlib, corr, events

RULE = ('emit layer: exact text of Model/Emit.v vs yaml.emit on grammar-generated event streams (well-formed 60%, ill-formed mutants 40%) x canonical/indent/width/allow_unicode/'
        'line_break; parse/scan layers. Direct on the implementation: yaml.emit then yaml.parse, events compared for structure, anchors/aliases, scalar text character for character, '
        'tags (elision only when the flag for the written style licenses it), %YAML/%TAG directives; ill-formed streams (all mutants + every event sequence over a 9-event alphabet up '
        'to length L, quick 4 / thorough 5) may only raise EmitterError; pure-Python and LibYAML emitter/parser. non-trivial = every case; distinct by case line')

def exhaustive_illformed(maxlen):
    import itertools
    alpha = [('SS',), ('SE',), ('DS', False, None, []), ('DE', False), ('SC', None, None, True, False, 'a', None), ('QS', None, None, True, False), ('QE',), ('MS', None, None, True, False), ('ME',), ('AL', 'a')]
    out = []
    for n in range(1, maxlen + 1):
        for t in itertools.product(alpha, repeat=n): out.append(events.enc_case(list(t), {}))
    return out

def run(ctx):
    ctx.rule = RULE
    ctx.regen(); ctx.prove()
    cases = corr.emit_cases(ctx, ctx.n(3000, 40000))
    corr.emit(ctx, 0, cases=cases)
    texts = None
    corr.parse(ctx, ctx.n(1500, 15000))
    wf = [events.enc_case(events.stream(ctx.rng, wf=True), events.options(ctx.rng)) for _ in range(ctx.n(4000, 50000))]
    ill = exhaustive_illformed(ctx.n(4, 5))
    if len(ill) > 30000: ill = ill[:12000] + ctx.rng.sample(ill[12000:], 18000)
    # fixed family: an open-ended first document (plain / keep-chomped block / empty root) followed by a document with directives of each kind -
    # the "..." that must separate them is decided per kind of directive (version only, tags only, both)
    oe = []
    for root in (('SC', None, None, True, False, 'a', None), ('SC', None, None, True, False, 'a\n\n', '|'), ('SC', None, None, True, False, 'x y', '>'), ('SC', None, None, True, False, '', None)):
        for ver, tags in (((1, 1), []), (None, [('!e!', 'tag:e.com,2000:')]), ((1, 1), [('!e!', 'tag:e.com,2000:')]), (None, [])):
            for ex1 in (False, True):
                evs = [('SS',), ('DS', ex1, None, []), root, ('DE', False), ('DS', True, ver, tags), ('SC', None, None, True, False, 'b', None), ('DE', False), ('SE',)]
                oe.append(events.enc_case(evs, {}))
    wf = oe + wf
    allc = [[c, 'py', True] for c in wf] + [[c, 'py', False] for c in cases + ill] + [[c, 'c', True] for c in wf[:len(wf) // 2]] + [[c, 'c', False] for c in ill[:3000]]
    corr.direct(ctx, 'c05', allc, describe=lambda c: dict(events=c[0], backend=c[1], wellformed=c[2]), label='emit_parse')
    ctx.partial = [dict(theorem='emit_total / emit_parse_structure / tag_elision_sound', missing='only the double-quoted scalar layer is a theorem; the rest is decided by the exact-text emit correspondence and the direct run')]
    return ctx.finish(assumptions=['LibYAML is observed, not modelled'])

def replay(ctx, path):
    d = json.load(open(path)); ctx.rule = RULE
    ctx.regen(); ctx.prove()
    c = d.get('case', {})
    if 'events' in c:
        corr.emit(ctx, 0, cases=[c['events']]); corr.direct(ctx, 'c05', [[c['events'], c.get('backend', 'py'), c.get('wellformed', True)]], describe=lambda c: dict(events=c[0], backend=c[1], wellformed=c[2]))
    return ctx.finish()
