"""C19 - Failures of the caller's stream or callbacks pass through cleanly."""
import json
from tools import vlib, corr, values, gen
from tools.props import c02

RULE = ('emit layer (exact text incl. what was written before an error, Coq model vs implementation). Direct on the implementation, exhaustively per case: for every index of the '
        'stream.write() and stream.flush() sequence of a dump, of the read() sequence of a load_all from text and byte streams under several read schedules, of the invocations of a user '
        'constructor and of a user representer, a unique exception object (class rotating over a bespoke class and every class the library itself catches: TypeError, ValueError, KeyError, IndexError, AttributeError, ImportError, binascii.Error, UnicodeDecodeError, UnicodeEncodeError, ...) is raised at that index: it must reach the caller as the same object (is), what was written before it must be a '
        'prefix of the fault-free writes, reference calls must behave afterwards and the shipped class tables must be untouched; pure-Python and LibYAML classes (quick caps the indices per '
        'case at 40, thorough at 400). non-trivial = at least one fault point; distinct by case')

def run(ctx):
    ctx.rule = RULE
    ctx.regen(); ctx.prove()
    corr.emit(ctx, ctx.n(2000, 20000))
    rng = ctx.rng; cases = []; cap = ctx.n(40, 120)
    for i in range(ctx.n(250, 2500)):
        v = values.build(rng, rng.choice([1, 2, 3, 4]), [], odd_tz=False)
        o = c02.opts(rng); o['encoding'] = None
        cases.append(['dump', [values.encode(v), o], rng.choice(['py', 'py', 'c', 'py_path', 'c_path']), cap])
    docs = gen.mutated_corpus(rng, ctx.n(200, 2000), with_corpus=False)
    for t in docs:
        try: t.encode('utf-8')
        except UnicodeEncodeError: continue
        k = rng.choice([1, 1, 30, 200]); t = t * max(1, min(k, 40000 // (len(t) + 1)))          # several refill blocks, bounded total size
        cases.append(['load', [t, rng.choice([[], [1] * 50, [7, 100, 4096], [4095, 2]]), rng.random() < 0.5], rng.choice(['py', 'py', 'c', 'py_path', 'c_path']), cap])
    for t in ('a: {b: x, c: [y]}\nk0: [p, {q: r}]\n', '- [u, v]\n- {a: {b: w}, k0: [1, 2]}\n' * 30, '--- {a: {b: x}}\n--- [[q, r], s]\n' * 200):      # documents the path resolvers bite on
        for be in ('py_path', 'c_path'):
            for sizes in ([], [1] * 50, [7, 100, 4096]):
                cases.append(['load', [t, sizes, rng.random() < 0.5], be, cap])
    for n in (1, 2, 3, 5, 8):
        for be in ('py', 'c'):
            for k0 in range(0, 14, 1 if not ctx.quick() else 3):          # k0 shifts which exception class meets which fault point
                cases.append(['ctor', n, be, cap, k0]); cases.append(['repr', n, be, cap, k0])
    res = corr.direct(ctx, 'c19', cases, describe=lambda c: dict(kind_of_fault=c[0], payload=c[1] if c[0] in ('ctor', 'repr') else (c[1] if c[0] == 'dump' else dict(text=c[1][0][:2000], sizes=c[1][1][:6], binary=c[1][2])), backend=c[2]), label='faults')
    ctx.count('fault_points', sum(r.get('points', 0) for r in res if isinstance(r, dict)))
    ctx.partial = [dict(theorem='fault_propagates / writes_are_prefix', missing='handler policy (regenerated) and left-to-right consumption proved; identity of the propagated exception and the write prefix are decided by the exhaustive direct run')]
    return ctx.finish(assumptions=['LibYAML handlers (except 0 in _yaml.pyx) are observed, not modelled'])

def replay(ctx, path):
    d = json.load(open(path)); ctx.rule = RULE
    ctx.regen(); ctx.prove()
    c = d.get('case', {})
    if c.get('kind_of_fault') in ('ctor', 'repr'):
        corr.direct(ctx, 'c19', [[c['kind_of_fault'], c['payload'], c.get('backend', 'py'), 400, k0] for k0 in range(14)], describe=lambda c: dict(kind_of_fault=c[0], payload=c[1], backend=c[2]))
    elif c.get('kind_of_fault') == 'dump':
        corr.direct(ctx, 'c19', [['dump', c['payload'], c.get('backend', 'py'), 400]], describe=lambda c: dict(kind_of_fault=c[0], payload=c[1], backend=c[2]))
    elif c.get('kind_of_fault') == 'load' and isinstance(c.get('payload'), dict):
        p = c['payload']
        corr.direct(ctx, 'c19', [['load', [p['text'], p['sizes'], p['binary']], c.get('backend', 'py'), 400]], describe=lambda c: dict(kind_of_fault=c[0], payload=dict(text=c[1][0][:2000], sizes=c[1][1][:6], binary=c[1][2]), backend=c[2]))
    return ctx.finish()
