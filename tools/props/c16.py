"""C16 - Dumping is deterministic and stable."""
import json
from tools import vlib, corr, values
from tools.props import c02

RULE = ('represent+serialize and emit layers (Coq model vs implementation, exact events / text). Direct on the implementation: generated safe-universe value graphs whose mapping/set keys are '
        'mutually comparable (all str, or all numbers, or all dates) x the C02 option product: two dumps of one object are equal; with sort_keys a copy with every dict/set rebuilt in a '
        'shuffled insertion order dumps to the same text; the same cases are dumped in fresh interpreters under three PYTHONHASHSEEDs and the text digests must agree; '
        'dump(load(dump x)) = dump x under the same options; SafeDumper and CSafeDumper. non-trivial = value contains a container; distinct by (value, options)')

def build16(rng, d, pool):
    import datetime
    r = rng.random()
    if pool and r < 0.1: return rng.choice(pool)
    if d <= 0 or r < 0.4: return values.leaf(rng, odd_tz=False)
    if r < 0.6:
        l = []; pool.append(l)
        for _ in range(rng.choice([0, 1, 2, 3])): l.append(build16(rng, d - 1, pool))
        return l
    kind = rng.choice(['str', 'str', 'num', 'date'])
    def key():
        if kind == 'str': return values.rstr(rng)
        if kind == 'num': return rng.choice([0, 1, 2, -5, 10 ** 20, 1.5, 2.5, -0.25, 7, 3])
        return values.rdate(rng)
    if r < 0.9:
        m = {}; pool.append(m)
        for _ in range(rng.choice([0, 1, 2, 3, 5, 8])): m[key()] = build16(rng, d - 1, pool)
        return m
    s = set()
    for _ in range(rng.choice([0, 1, 2, 4, 6])): s.add(key())
    pool.append(s); return s

def run(ctx):
    ctx.rule = RULE
    ctx.regen(); ctx.prove()
    corr.dump(ctx, ctx.n(1500, 15000))
    cases = []
    for i in range(ctx.n(3000, 40000)):
        v = build16(ctx.rng, ctx.rng.choice([1, 2, 3]), [])
        o = c02.opts(ctx.rng); o['sort_keys'] = ctx.rng.random() < 0.8
        cases.append([values.encode(v), o, ctx.rng.choice(['py', 'py', 'c']), ctx.rng.randrange(1 << 30)])
    desc = lambda c: dict(value=c[0], opts=c[1], dumper=c[2])
    res0 = corr.direct(ctx, 'c16', cases, describe=desc, label='stable')
    # history independence: the same scalars dumped under other options earlier in the same interpreter must not change the text
    TEMPLATES = ['caf\u00e9{}', 'se\u00f1or {}', '\u263a{}', 'plain{}', '{}: x', '- {}', ' lead{}', 'tab\t{}', '\U0001F600{}', 'multi\nline{}', '{}', 'trail{} ', '#{}', "it's{}", 'a\x85b{}', '\ue000{}']
    hist = []
    for t in TEMPLATES:
        for _ in range(ctx.n(6, 40)):
            o1 = c02.opts(ctx.rng); o2 = dict(o1)
            k = ctx.rng.choice(['allow_unicode', 'allow_unicode', 'canonical', 'default_style', 'width', 'default_flow_style', 'indent', 'line_break'])
            alt = {'allow_unicode': [None, True], 'canonical': [None, True], 'default_style': [None, '"', "'", '|', '>'], 'width': [None, 5, 20, 1000], 'default_flow_style': [None, True, False], 'indent': [None, 4, 7], 'line_break': [None, '\r\n', '\r']}[k]
            o2[k] = ctx.rng.choice([x for x in alt if x != o1.get(k)] or alt)
            hist.append([t, ctx.rng.choice(['py', 'py', 'c']), o1, o2])
    corr.direct(ctx, 'c16h', hist, describe=lambda c: dict(template=c[0], dumper=c[1], earlier_opts=c[2], opts=c[3]), label='history')
    sub = [c for c in cases if c[1].get('sort_keys')][:ctx.n(1200, 12000)]
    digests = []
    for seed in (1, 77, 4242):
        r = vlib.run_impl('direct', [['c16'] + c for c in sub], hashseed=seed)
        digests.append([x.get('digest') if isinstance(x, dict) else None for x in r])
    for i, c in enumerate(sub):
        ds = set(d[i] for d in digests)
        ctx.count('hashseed_compared')
        if len(ds) > 1:
            ctx.violation('with sort_keys the dumped text differs between PYTHONHASHSEED values', dict(desc(c), kind='hashseed_dependent'), dict(desc(c), kind='hashseed_dependent'))
    # anchor names are a function of the document alone: multi-document dumps of graphs with sharing (C12 predicate: stream = concatenation of single dumps)
    multi = []
    for i in range(ctx.n(800, 8000)):
        docs = []
        for _ in range(ctx.rng.choice([2, 3, 4])):
            shared = ctx.rng.choice([[1, 2], {'k': 'v'}, ['x'], [[3]]])
            inner = build16(ctx.rng, 1, [])
            docs.append(values.encode(ctx.rng.choice([[shared, shared, inner], {'a': shared, 'b': [shared, inner]}, [inner, [shared], shared, shared]])))
        o = c02.opts(ctx.rng)
        multi.append([docs, o, ctx.rng.choice(['py', 'py', 'c'])])
    corr.direct(ctx, 'c12', multi, describe=lambda c: dict(docs=c[0], opts=c[1], dumper=c[2]), label='anchors_per_document')
    ctx.partial = [dict(theorem='dump_perm_invariant for numeric/date keys, order_preserved, anchors_function_of_document, dump_fixed_point', missing='sort invariance is proved generically and for str keys; the rest is decided by correspondence and the direct run')]
    return ctx.finish(assumptions=['keys mutually comparable (the TypeError fallback keeps insertion order)', 'LibYAML is observed, not modelled'])

def replay(ctx, path):
    d = json.load(open(path)); ctx.rule = RULE
    ctx.regen(); ctx.prove()
    c = d.get('case', {})
    if 'value' in c: corr.direct(ctx, 'c16', [[c['value'], c['opts'], c.get('dumper', 'py'), 1]], describe=lambda c: dict(value=c[0], opts=c[1], dumper=c[2]))
    return ctx.finish()
