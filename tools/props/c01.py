"""C01 - Safe loading is confined to plain data, for every document."""
import json
from tools import vlib, corr, gen

RULE = ('registry layer: effective tables (keys in order, method identities) and MROs of every shipped class, Coq model on the regenerated history vs the live classes. construct layer: '
        'Model/Construct.v vs load_all with SafeLoader and BaseLoader (type-strict graphs, identity, outcome class). Direct on the implementation, each of SafeLoader, CSafeLoader, '
        'BaseLoader, CBaseLoader under sys.addaudithook(import) + sys.setprofile (python-level calls outside yaml/re/base64/datetime/codecs, C calls into foreign modules, forbidden '
        'builtins) + sys.modules snapshot: documents carrying every registered tag and multi-constructor prefix of every shipped class, mutated and random tags, python/* forms with '
        'dotted names, on scalar/sequence/mapping nodes, as keys, under aliases and merge keys, a third of them after the same document was loaded by FullLoader/CFullLoader in the same interpreter (history probe for state shared between loader classes); result must be a YAML error or plain data; non-core tags must be rejected. '
        'non-trivial = document has at least one explicit tag or is non-empty; distinct by (loader, text)')

NAMES = ['tools.c04names.ticker', 'tools.c04names.letters', 'tools.c04names.counter', 'tools.c04names.mapped', 'tools.c04names.generator', 'tools.c04names.lazy', 'os.system', 'os.path', 'subprocess.Popen', 'builtins.eval', 'eval', 'sys.exit', 'json.dumps', 'collections.OrderedDict', 'yaml.Loader', 'nonexistent.mod', 'xml.dom', 'int', 'object', 'datetime.datetime', '', 'os', 'a.b.c']
def tag_vocabulary(ctx):
    tags = set()
    import yaml
    for cls in (yaml.SafeLoader, yaml.FullLoader, yaml.UnsafeLoader, yaml.Loader, yaml.BaseLoader):
        for k in list(cls.yaml_constructors) + list(cls.yaml_multi_constructors):
            if k: tags.add(k)
    out = []
    for t in sorted(tags):
        if t.endswith(':'): out += [t + n for n in NAMES]
        else: out.append(t)
    for p in ('tag:yaml.org,2002:python/object:', 'tag:yaml.org,2002:python/object/new:', 'tag:yaml.org,2002:python/object/apply:', 'tag:yaml.org,2002:python/module:', 'tag:yaml.org,2002:python/name:'):
        out += [p + n for n in NAMES]
    out += ['!local', '!', 'tag:example.com,2000:x', 'tag:yaml.org,2002:', 'tag:yaml.org,2002:python/', 'tag:yaml.org,2002:python/objec', 'tag:yaml.org,2002:Python/tuple', 'tag:yaml.org,2002:python/object', 'x']
    return out

def tagged_docs(ctx, tags, n):
    rng = ctx.rng; docs = []
    def tg(t):
        if t.startswith('tag:yaml.org,2002:') and rng.random() < 0.7 and ' ' not in t and t[18:]: return '!!' + t[18:]
        return '!<' + t + '>'
    shapes = ['%s x', '%s ""', '%s [a, b]', '%s {a: b}', '- %s x\n- y', 'k: %s [1, 2]', '? %s x\n: v', '? %s [a]\n: v', '&a %s {k: v}\n', '- &a %s x\n- *a', 'base: &b %s {a: 1}\nd: {<<: *b, c: 2}',
              '<<: %s {a: 1}', '- [%s x, {k: %s y}]', '%s\n- a\n- b', '%s\na: b', '--- %s |\n  text\n', '%s [echo, hi]', '%s {args: [echo hi], kwds: {}, state: {a: 1}, listitems: [1], dictitems: {k: v}}', '%s 1+2j', '%s 12',
              '%s {=: x}', '- %s', '{%s x: 1}', '[%s x]', '!!str {=: %s x}', 'k: !!int {=: %s 12}', '- !!float {a: b, =: %s 1.5}', '!!str {=: {=: %s x}}']
    for t in tags:
        for sh in rng.sample(shapes, 5):
            docs.append(sh.replace('%s', tg(t)))
    while len(docs) < n:
        t = rng.choice(tags)
        if rng.random() < 0.3: t = gen.mutate(rng, t, list(':/!.,abcxyzP2o '))
        docs.append(rng.choice(shapes).replace('%s', tg(t)))
    return docs

def run(ctx):
    ctx.rule = RULE
    ctx.regen(); ctx.prove()
    from tools.props import c10
    c10.check_histories(ctx, [[]])
    corr.dispatch(ctx, ctx.n(800, 8000))
    ctx.notes.append('dispatch tie: ' + str((ctx.gen_meta.get('calls') or {}).get('dispatch_tie')))
    corr.load(ctx, ctx.n(2000, 20000), loaders=('safe', 'base'))
    tags = tag_vocabulary(ctx)
    docs = tagged_docs(ctx, tags, ctx.n(2500, 25000)) + corr.load_texts(ctx, ctx.n(800, 8000))
    cases = []
    for t in docs:
        for L in ('SafeLoader', 'CSafeLoader', 'BaseLoader', 'CBaseLoader'):
            if L.startswith('C') and ctx.rng.random() < 0.5 and ctx.quick(): continue
            cases.append([t, L, ctx.rng.choice([None, None, None, 'FullLoader', 'CFullLoader'])])
    ctx.rng.shuffle(cases)      # every worker interleaves the four loader classes in random order: state shared between classes shows up as a history effect
    corr.direct(ctx, 'c01', cases, describe=lambda c: dict(text=c[0], loader=c[1], warm=c[2]), label='confined')
    ctx.partial = [dict(theorem='safe_construct_plain / unknown_tag_rejected (every nesting)', missing='not proved over the constructor model; decided by the construct correspondence and the direct run under audit/profile hooks')]
    ctx.refuted = [dict(theorem='safe_only_yaml_errors (FULL)', witness='!!int abc -> ValueError (known finding F-explicit-tag-unsuitable-payload)')]
    return ctx.finish(assumptions=['the LibYAML parser half of CSafeLoader/CBaseLoader is observed, not modelled; the constructor half is the Python code covered by the theorems'])

def replay(ctx, path):
    d = json.load(open(path)); ctx.rule = RULE
    ctx.regen(); ctx.prove()
    c = d.get('case', {})
    if 'text' in c:
        corr.load(ctx, 0, texts=[c['text']], loaders=('safe', 'base'))
        corr.direct(ctx, 'c01', [[c['text'], c.get('loader', 'SafeLoader'), c.get('warm')]], describe=lambda c: dict(text=c[0], loader=c[1], warm=c[2]))
    if 'history' in c:
        from tools.props import c10
        c10.check_histories(ctx, [c['history']])
    return ctx.finish()
