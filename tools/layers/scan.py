"""scan layer: yaml.scan(text) vs Model/Scan.v scan_all: token kinds, values, every mark, error class and both error marks."""
import sys, re
from .base import *

def kind(t):
    n = type(t).__name__[:-5]
    if n == 'Directive':
        if t.name == 'YAML': v = 'yaml %s %s' % (num(t.value[0]), num(t.value[1]))
        elif t.name == 'TAG': v = 'tag %s %s' % (s(t.value[0]), s(t.value[1]))
        else: v = 'none'
        return 'Directive %s %s' % (s(t.name), v)
    if n in ('Alias', 'Anchor'): return '%s %s' % (n, s(t.value))
    if n == 'Tag': return 'Tag %s %s' % ('none' if t.value[0] is None else 'h' + s(t.value[0]), s(t.value[1]))
    if n == 'Scalar': return 'Scalar %s %s %s' % ('1' if t.plain else '0', 'plain' if t.plain else t.style, s(t.value))
    return n

def run_impl_case(text):
    import yaml
    out = []
    try:
        for t in yaml.scan(text):
            out.append('T %s | %s | %s' % (kind(t), mark(t.start_mark), mark(t.end_mark)))
        out.append('END ok')
    except yaml.scanner.ScannerError as e:
        out.append('END ScannerError %s | %s' % ('none' if e.context_mark is None else mark(e.context_mark), mark(e.problem_mark)))
    except yaml.YAMLError as e:
        out.append('END Yaml %s' % type(e).__name__)
    except Exception as e:
        out.append('END Crash %s' % type(e).__name__)
    return out

def model_lines(cases):
    return [' '.join(str(ord(c)) for c in t) for t in cases]
def model_obs(block):
    return [re.sub(r' \| code \d+$', '', x) for x in block]

def reader_ok(text):
    """the scan model covers eager str input that the Reader accepts (reader errors are the reader layer's business)"""
    import yaml
    try: yaml.reader.Reader(text); return True
    except yaml.YAMLError: return False

def num(n): return str(n) if n < (1 << 60) else 'b' + bin(n)[2:]

if __name__ == '__main__' and '--worker' in sys.argv:
    worker_main(run_impl_case)
