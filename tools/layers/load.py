"""construct layer: yaml.load_all(text, Loader) vs Model/Construct.v load_all (composer + resolver + Safe/Base constructors):
type-strict canonical object graphs with identity numbering, and the outcome class incl. the class of non-YAML exceptions."""
import sys
from .base import *

LOADERS = {'safe': 'SafeLoader', 'base': 'BaseLoader', 'csafe': 'CSafeLoader', 'cbase': 'CBaseLoader', 'full': 'FullLoader', 'cfull': 'CFullLoader',
           'unsafe': 'UnsafeLoader', 'loader': 'Loader'}
def run_impl_case(case):
    import yaml
    from tools.values import show
    which, text = case
    L = getattr(yaml, LOADERS[which])
    out = []
    try:
        for d in yaml.load_all(text, Loader=L): out.append('DOC ' + show(d))
        out.append('END ok')
    except yaml.YAMLError as e: out.append('END ' + type(e).__name__)
    except RecursionError as e: out.append('END RecursionError')
    except Exception as e: out.append('END ' + type(e).__name__)
    return out

def model_lines(cases):
    return [('1 ' if w in ('base', 'cbase') else '0 ') + ' '.join(str(ord(c)) for c in t) for w, t in cases]

if __name__ == '__main__' and '--worker' in sys.argv:
    worker_main(run_impl_case)
