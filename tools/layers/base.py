"""Shared plumbing of the correspondence layers."""
import sys, json
class CaseTimeout(BaseException): pass
def _on_alarm(sig, frm): raise CaseTimeout()
def worker_main(handle, dict_results=False):
    """read one JSON case per line, print one JSON result per line; never let an exception kill the stream.  Every case runs
    under a watchdog (VERIF_CASE_TIMEOUT seconds, default 60; 10 after the first hang in this worker; after three hangs the rest of the shard is not run): an implementation that
    does not terminate on a case yields a HANG result instead of stalling the whole check."""
    import signal, os
    limit = float(os.environ.get('VERIF_CASE_TIMEOUT', '60')); hangs = 0
    for line in sys.stdin:
        line = line.strip()
        if not line: continue
        if hangs >= 3:
            # three cases of this shard did not terminate: the remaining ones are answered at once, so that a change that makes the
            # implementation loop cannot stall the check (the hangs already recorded are the violation)
            what = 'not run: three earlier cases of this shard did not terminate'
            sys.stdout.write(json.dumps(dict(bad=[], outcome='skipped-after-hangs') if dict_results else ['HANG ' + what]) + '\n'); sys.stdout.flush()
            continue
        cur = limit if hangs < 1 else min(limit, 10.0)
        signal.signal(signal.SIGALRM, _on_alarm); signal.setitimer(signal.ITIMER_REAL, cur)
        try:
            case = json.loads(line)
            out = handle(case)
        except CaseTimeout:
            hangs += 1
            what = 'the implementation did not finish this case within %gs (watchdog)' % cur
            out = dict(bad=[dict(kind='hang', what=what)], outcome='hang') if dict_results else ['HANG ' + what]
        except BaseException as e:
            out = ['HARNESS-ERROR %s: %s' % (type(e).__name__, e)]
        finally:
            signal.setitimer(signal.ITIMER_REAL, 0)
        sys.stdout.write(json.dumps(out) + '\n'); sys.stdout.flush()

def s(v): return ','.join(str(ord(c)) for c in v)
def se(v): return 'e' if v == '' else ','.join(str(ord(c)) for c in v)
def o(v): return '-' if v is None else se(v)
def mark(m): return '%d %d %d' % (m.index, m.line, m.column)
def b(x): return '1' if x else '0'

def compare(ctx, layer, cases, impl, model, project=None, describe=None, nontrivial=None):
    """record per-case agreement; project maps an observation (list of str) to what this property looks at."""
    n_bad = 0
    for c, i, m in zip(cases, impl, model):
        ctx.corr_count(layer)
        pi = project(i) if project else i
        pm = project(m) if project else m
        if pi != pm:
            n_bad += 1
            k = 0
            for k, (x, y) in enumerate(zip(list(pi) + ['<end>'], list(pm) + ['<end>'])):
                if x != y: break
            ctx.disagreement(layer, describe(c) if describe else c, dict(first_diff_at=k, impl=(list(pi) + ['<end>'])[k], model=(list(pm) + ['<end>'])[k]))
    return n_bad
