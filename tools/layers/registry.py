"""Registry correspondence layer (C10, table parts of C01/C04/C06/C11).
A *history* is a list of ops over a class lattice rooted at the shipped classes:
  ["def", name, [base names], [fresh kinds]]                 class name(bases): [yaml_constructors = {} ...]
  ["add", kind, cls, key, val]                               cls.add_<kind>(key, fn_val)        (implicit: key = list of first chars/None; path: key = [path, kind])
  ["helper", kind, key, val, loader|None, dumper|None]       yaml.add_<kind>(..., Loader=loader, Dumper=dumper)  (None = library default)
  ["yobj", name, tag, loaders|None, dumper|None]             class name(yaml.YAMLObject): yaml_tag = tag [yaml_loader = ...] [yaml_dumper = ...]
The implementation side executes the history in a forked child of a process that has imported yaml once and reports, for
every class, the MRO (restricted to known names) and the five/six effective tables; the model side evaluates the same
history in Coq (vm_compute in a generated cases file) from the literal world after the regenerated import history."""
import sys, os, json, re

KINDS = ['KCtor', 'KMultiCtor', 'KRepr', 'KMultiRepr', 'KImplicit', 'KPath']
ATTR = {'KCtor': 'yaml_constructors', 'KMultiCtor': 'yaml_multi_constructors', 'KRepr': 'yaml_representers',
        'KMultiRepr': 'yaml_multi_representers', 'KImplicit': 'yaml_implicit_resolvers', 'KPath': 'yaml_path_resolvers'}
LOADER_KINDS = ['KCtor', 'KMultiCtor', 'KImplicit', 'KPath']
DUMPER_KINDS = ['KRepr', 'KMultiRepr', 'KImplicit', 'KPath']

# ----------------------------------------------------------------------------------------------------------------
# implementation side
# ----------------------------------------------------------------------------------------------------------------
def _type_names():
    import datetime, types, collections
    return {type(None): 'type(None)', str: 'str', bytes: 'bytes', bool: 'bool', int: 'int', float: 'float', list: 'list', tuple: 'tuple',
            dict: 'dict', set: 'set', datetime.date: 'datetime.date', datetime.datetime: 'datetime.datetime', complex: 'complex', type: 'type',
            collections.OrderedDict: 'collections.OrderedDict', types.FunctionType: 'types.FunctionType',
            types.BuiltinFunctionType: 'types.BuiltinFunctionType', types.ModuleType: 'types.ModuleType', object: 'object'}

def shipped_classes(yaml):
    import yaml.constructor, yaml.representer, yaml.resolver, yaml.reader, yaml.scanner, yaml.parser, yaml.composer, yaml.emitter, yaml.serializer
    out = {}
    for mod in (yaml.reader, yaml.scanner, yaml.parser, yaml.composer, yaml.constructor, yaml.resolver, yaml.loader, yaml.emitter,
                yaml.serializer, yaml.representer, yaml.dumper, getattr(yaml, 'cyaml', None)):
        if mod is None: continue
        for n, v in vars(mod).items():
            if isinstance(v, type) and v.__module__ == mod.__name__ and not issubclass(v, Exception):
                out[n] = v
    try:
        import yaml._yaml as _y
        out['CParser'] = _y.CParser; out['CEmitter'] = _y.CEmitter
    except ImportError:
        pass
    return out

def observe(classes, tnames):
    """effective tables of every class, canonicalised: {cls: {'mro': [...], kind: [[key, [values]], ...]}}"""
    inv = {v: k for k, v in classes.items()}
    def keyrepr(k):
        if k is None: return None
        if isinstance(k, str): return k
        if isinstance(k, type): return tnames.get(k) or inv.get(k) or k.__name__
        return repr(k)
    def valrepr(v):
        if isinstance(v, tuple): return v[0]                       # implicit resolver entry (tag, regexp)
        if isinstance(v, str): return v                            # path resolver tag
        if isinstance(getattr(v, '__self__', None), type): return v.__self__.__name__ + '.' + v.__func__.__name__
        f = getattr(v, '__func__', v)
        return getattr(f, '_verif_name', None) or getattr(f, '__qualname__', repr(f))
    res = {}
    for name, c in classes.items():
        o = {'mro': [inv[x] for x in c.__mro__ if x in inv]}
        for k in KINDS:
            tb = getattr(c, ATTR[k], None)
            if tb is None: continue
            rows = []
            for key, val in tb.items():
                if k == 'KImplicit': rows.append([keyrepr(key), [valrepr(x) for x in val]])
                elif k == 'KPath': rows.append([pathkey(key, classes), [valrepr(val)]])
                else: rows.append([keyrepr(key), [valrepr(val)]])
            o[k] = rows
        res[name] = o
    return res

def pathkey(key, classes):
    path, kind = key
    def nk(x): return 'None' if x is None else (x.__name__ if isinstance(x, type) else repr(x))
    return '(' + ','.join('%s:%s' % (nk(a), nk(b)) for a, b in path) + ')|' + nk(kind)

def run_history(hist):
    import yaml, re as _re
    tnames = _type_names()
    classes = shipped_classes(yaml)
    data_types = {}
    def fn(name):
        def f(*a, **k):
            if a and hasattr(a[0], 'represent_scalar'): return a[0].represent_scalar('!p', name)       # registered as a representer
            return name                                                                                 # registered as a constructor
        f._verif_name = name
        return f
    def use_all():
        """*use* every loader and dumper class of the world (shipped, C, user-defined): registrations must be the only thing that
        changes a table - loading and dumping with a customised class must leave every class's tables alone.  Errors are expected
        (stub constructors, unrepresentable objects) and ignored; only the tables observed afterwards matter."""
        objs = [1, 's', 2.5, None, True, [1, 'a'], {'k': 1}, (1, 2), {3}, b'b']
        for t in list(data_types.values()):
            for T in (t, type('Sub' + t.__name__, (t,), {})):
                try: objs.append(T())
                except Exception: pass
        docs = ['a: 1\nb: [x, xx, yes, 1.5, ~]\n', '- x\n- {k: x}\n', '!a v\n', '- !b [1]\n- !c {k: v}\n', '!p/suffix [1, 2]\n', '!!python/tuple [1, 2]\n', '!!int 3\n', '!y1 {a: 1}\n', '!unknown x\n', '{k: [x, {x: x}]}\n']
        for name, c in list(classes.items()):
            try:
                if hasattr(c, 'construct_document') and hasattr(c, 'get_single_node') and hasattr(c, 'check_token') or (name.startswith('C') and name.endswith('Loader')):
                    for d in docs:
                        try: yaml.load(d, Loader=c)
                        except Exception: pass
                elif hasattr(c, 'represent') and hasattr(c, 'serialize') and hasattr(c, 'emit'):
                    for o in objs:
                        try: yaml.dump(o, Dumper=c)
                        except Exception: pass
                    try: yaml.dump(objs, Dumper=c)
                    except Exception: pass
            except Exception: pass
    def dtype(n):
        if n in ('str', 'int', 'list', 'dict'): return {'str': str, 'int': int, 'list': list, 'dict': dict}[n]
        if n not in data_types: data_types[n] = type(n, (), {})
        return data_types[n]
    for t in data_types.values(): pass
    def path_args(key):
        path, kind = key
        km = {'scalar': yaml.ScalarNode, 'seq': yaml.SequenceNode, 'map': yaml.MappingNode, None: None, 'str': str, 'list': list, 'dict': dict}
        return [tuple([km[p[0]]] + p[1:]) if isinstance(p, list) else p for p in path], km[kind]
    def do_add(c, kind, key, val):
        if kind == 'KCtor': c.add_constructor(key, fn(val))
        elif kind == 'KMultiCtor': c.add_multi_constructor(key, fn(val))
        elif kind == 'KRepr': c.add_representer(None if key is None else dtype(key), fn(val))
        elif kind == 'KMultiRepr': c.add_multi_representer(None if key is None else dtype(key), fn(val))
        elif kind == 'KImplicit': c.add_implicit_resolver(val, _re.compile('^x$'), key)
        elif kind == 'KPath':
            p, k = path_args(key); c.add_path_resolver(val, p, k)
    for op in hist:
        if op[0] == 'def':
            _, name, bases, fresh = op
            body = {ATTR[k]: {} for k in fresh}
            classes[name] = type(name, tuple(classes[b] for b in bases), body)
        elif op[0] == 'add':
            _, kind, cname, key, val = op
            do_add(classes[cname], kind, key, val)
        elif op[0] == 'helper':
            _, kind, key, val, L, D = op
            kw = {}
            if L is not None: kw['Loader'] = classes[L]
            if D is not None: kw['Dumper'] = classes[D]
            if kind == 'KCtor': yaml.add_constructor(key, fn(val), **kw)
            elif kind == 'KMultiCtor': yaml.add_multi_constructor(key, fn(val), **kw)
            elif kind == 'KRepr': yaml.add_representer(None if key is None else dtype(key), fn(val), **kw)
            elif kind == 'KMultiRepr': yaml.add_multi_representer(None if key is None else dtype(key), fn(val), **kw)
            elif kind == 'KImplicit': yaml.add_implicit_resolver(val, _re.compile('^x$'), key, **kw)
            elif kind == 'KPath':
                p, k = path_args(key); yaml.add_path_resolver(val, p, k, **kw)
        elif op[0] == 'use':
            use_all()
        elif op[0] == 'yobj':
            _, name, tag, loaders, dumper = op
            body = {'yaml_tag': tag}
            if loaders is not None:
                body['yaml_loader'] = [classes[x] for x in loaders] if isinstance(loaders, list) else classes[loaders]
            if dumper is not None: body['yaml_dumper'] = classes[dumper]
            data_types[name] = type(name, (yaml.YAMLObject,), body)
    obs = observe(classes, {**tnames, **{v: k for k, v in data_types.items()}})
    # behaviour probe: the effective constructor table is what loading consults
    return obs

def worker():
    import yaml   # import once; each history runs in a forked child so that class-level state never leaks between histories
    for line in sys.stdin:
        line = line.strip()
        if not line: continue
        hist = json.loads(line)
        r, w = os.pipe()
        pid = os.fork()
        if pid == 0:
            os.close(r)
            try:
                out = json.dumps({'ok': run_history(hist)})
            except BaseException as e:
                out = json.dumps({'exc': '%s: %s' % (type(e).__name__, e)})
            with os.fdopen(w, 'w') as f: f.write(out)
            os._exit(0)
        os.close(w)
        with os.fdopen(r) as f: data = f.read()
        os.waitpid(pid, 0)
        sys.stdout.write((data or json.dumps({'exc': 'child died'})) + '\n'); sys.stdout.flush()

# ----------------------------------------------------------------------------------------------------------------
# model side: Coq cases file
# ----------------------------------------------------------------------------------------------------------------
def cs(s):
    if s is None: return 'None'
    return 'Some ' + cstr(s)
def cstr(s):
    out = []
    for ch in s:
        o = ord(ch)
        if ch == '"': out.append('""')
        elif 32 <= o < 127: out.append(ch)
        else: out.append('?%x?' % o)     # names are ASCII in generated histories; make any other char visible but printable
    return '"' + ''.join(out) + '"'
def clist(xs): return '[' + '; '.join(xs) + ']'

def keyname(kind, key):
    """the string under which the model stores a key of this kind"""
    if kind == 'KPath':
        path, k = key
        def nk(x):
            return {'scalar': 'ScalarNode', 'seq': 'SequenceNode', 'map': 'MappingNode', None: 'None', 'str': 'ScalarNode', 'list': 'SequenceNode', 'dict': 'MappingNode'}[x]
        items = []
        for el in path:
            if isinstance(el, list):
                if len(el) == 2: nc, ic = el
                else: nc, ic = el[0], True
            else: nc, ic = None, el
            ncn = nk(nc) if (nc is None or isinstance(nc, str) and nc in ('scalar', 'seq', 'map', 'str', 'list', 'dict')) else repr(nc)
            items.append('%s:%s' % (ncn, 'None' if ic is None else repr(ic)))
        return '(' + ','.join(items) + ')|' + nk(k)
    return key

def ops_to_coq(hist, mros):
    """history -> Coq `list op` term (helpers / YAMLObject expand through the regenerated fan-out lists)."""
    out = []
    for i, op in enumerate(hist):
        if op[0] == 'use': continue                      # using a class changes no table: the identity in the model
        if op[0] == 'def':
            _, name, bases, fresh = op
            out.append('[DefClass %s %s %s]' % (cstr(name), clist(cstr(x) for x in mros[name]), clist(fresh)))
        elif op[0] == 'add':
            _, kind, cname, key, val = op
            keys = ['None'] if (kind == 'KImplicit' and key is None) else ([cs(k) for k in key] if kind == 'KImplicit' else [cs(keyname(kind, key))])
            out.append('[Add %s %s %s %s]' % (kind, cstr(cname), clist(keys), cstr(val)))
        elif op[0] == 'helper':
            _, kind, key, val, L, D = op
            keys = ([cs(k) for k in key] if key is not None else ['None']) if kind == 'KImplicit' else [cs(keyname(kind, key))]
            parts = []
            if kind in LOADER_KINDS:
                parts.append('helper %s %s %s %s' % (('[%s]' % cstr(L)) if L is not None else 'helper_loaders_' + kind, kind, clist(keys), cstr(val)))
            if kind in DUMPER_KINDS:
                tgt = ('[%s]' % cstr(D)) if D is not None else '(match helper_dumper_%s with Some d => [d] | None => [] end)' % kind
                parts.append('helper %s %s %s %s' % (tgt, kind, clist(keys), cstr(val)))
            out.append('(' + ' ++ '.join(parts) + ')')
        elif op[0] == 'yobj':
            _, name, tag, loaders, dumper = op
            if tag is None: continue
            lt = 'yamlobject_loaders' if loaders is None else clist(cstr(x) for x in (loaders if isinstance(loaders, list) else [loaders]))
            dt = 'yamlobject_dumper' if dumper is None else cstr(dumper)
            out.append('(helper %s KCtor [Some %s] %s ++ [Add KRepr %s [Some %s] %s])' % (lt, cstr(tag), cstr(name + '.from_yaml'), dt, cstr(name), cstr(name + '.to_yaml')))
    return '(' + ' ++ '.join(out or ['[]']) + ')%list'

def expected_to_coq(obs, classes):
    rows = []
    for c in classes:
        o = obs[c]
        for k in KINDS:
            if k in o:
                tb = clist('(%s, %s)' % (cs(key), clist(cstr(v) for v in vals)) for key, vals in o[k])
                rows.append('(%s, %s, %s)' % (cstr(c), k, tb))
    return clist(rows)

CASES_HEAD = '''From Coq Require Import List String Bool.
Import ListNotations.
Require Import Registry GenHistory.
Open Scope string_scope.
Definition w0c : world := Eval vm_compute in w0.
Fixpoint list_eqb {A} (f : A -> A -> bool) (a b : list A) : bool :=
  match a, b with [] , [] => true | x :: a', y :: b' => f x y && list_eqb f a' b' | _, _ => false end.
Definition row_eqb (a b : key * list string) : bool := key_eqb (fst a) (fst b) && list_eqb String.eqb (snd a) (snd b).
Definition kinds := [KCtor; KMultiCtor; KRepr; KMultiRepr; KImplicit; KPath].
Definition base_pairs : list (cls * kind) := Eval vm_compute in list_prod (map fst (mros w0c)) kinds.
Definition listed (c : cls) (k : kind) (exp : list (cls * kind * table)) : bool :=
  existsb (fun x => let '(c1, k1, _) := x in String.eqb c c1 && kind_eqb k k1) exp.
(* exp: every table of the implementation that differs from its import-time state or belongs to a new class;
   all other (shipped class, kind) tables must be exactly the import-time ones; mros: the new classes *)
Definition chk (h : list op) (exp : list (cls * kind * table)) (mros : list (cls * list cls)) : bool :=
  let w := run_from cow_of w0c h in
  forallb (fun x => let '(c, k, tb) := x in list_eqb row_eqb (effective w c k) tb) exp &&
  forallb (fun x => let '(c, k) := x in listed c k exp || list_eqb row_eqb (effective w c k) (effective w0c c k)) base_pairs &&
  forallb (fun x => list_eqb String.eqb (mro_of w (fst x)) (snd x)) mros.
'''

def write_cases(path, cases, base):
    "cases: list of (hist, obs) with obs from the implementation; base: the observation after the empty history."
    out = [CASES_HEAD]
    names = []
    for i, (hist, obs) in enumerate(cases):
        full = (hist == [])
        rows = []; mros = {}
        for c in sorted(obs.keys()):
            o = obs[c]
            if full or c not in base: mros[c] = o['mro']
            for k in KINDS:
                if k in o and (full or c not in base or base[c].get(k) != o[k]):
                    rows.append('(%s, %s, %s)' % (cstr(c), k, clist('(%s, %s)' % (cs(key), clist(cstr(v) for v in vals)) for key, vals in o[k])))
        allm = {c: obs[c]['mro'] for c in obs}
        out.append('Definition r%d : bool := chk %s\n  %s\n  %s.' % (
            i, ops_to_coq(hist, allm), clist(rows), clist('(%s, %s)' % (cstr(c), clist(cstr(x) for x in m)) for c, m in mros.items())))
        names.append('r%d' % i)
    out.append('Eval vm_compute in %s.' % clist(names))
    open(path, 'w').write('\n'.join(out) + '\n')

def parse_bools(text):
    m = re.search(r'=\s*\[(.*?)\]\s*:\s*list bool', text, re.S)
    if not m: return None
    return [x.strip() == 'true' for x in m.group(1).split(';') if x.strip()]

# ----------------------------------------------------------------------------------------------------------------
# history generator
# ----------------------------------------------------------------------------------------------------------------
LOADERS = ['BaseLoader', 'SafeLoader', 'FullLoader', 'Loader', 'UnsafeLoader']
DUMPERS = ['BaseDumper', 'SafeDumper', 'Dumper']
CEXT = ['CBaseLoader', 'CSafeLoader', 'CFullLoader', 'CLoader', 'CUnsafeLoader', 'CBaseDumper', 'CSafeDumper', 'CDumper']
PARTS = ['SafeConstructor', 'FullConstructor', 'Constructor', 'Resolver', 'SafeRepresenter', 'Representer']

def gen_history(rng, length, have_c=True):
    hist = []; user_loaders = []; user_dumpers = []; n_user = 0; n_val = 0
    loaders = LOADERS + (CEXT[:5] if have_c else []); dumpers = DUMPERS + (CEXT[5:] if have_c else [])
    def val():
        nonlocal n_val; n_val += 1; return 'f%d' % n_val
    tags = ['!a', '!b', 'tag:yaml.org,2002:int', 'tag:yaml.org,2002:python/tuple', '!c']
    prefixes = ['!p/', 'tag:yaml.org,2002:python/object:', '!']
    dtypes = ['T1', 'T2', 'str', 'int']
    for _ in range(length):
        r = rng.random()
        if r < 0.22:
            n_user += 1; name = 'U%d' % n_user
            side = rng.random() < 0.6
            pool = (loaders + user_loaders) if side else (dumpers + user_dumpers)
            bases = [rng.choice(pool)]
            # occasional diamond over two user classes with a common base
            ul = user_loaders if side else user_dumpers
            if len(ul) >= 2 and rng.random() < 0.3:
                a, b = rng.sample(ul, 2); bases = [a, b]
            fresh = []
            if rng.random() < 0.15: fresh = [rng.choice(LOADER_KINDS if side else DUMPER_KINDS)]
            hist.append(['def', name, bases, fresh])
            (user_loaders if side else user_dumpers).append(name)
        elif r < 0.72:
            side = rng.random() < 0.6
            pool = (loaders + user_loaders * 3 + ['SafeConstructor', 'Resolver']) if side else (dumpers + user_dumpers * 3 + ['SafeRepresenter', 'Resolver'])
            c = rng.choice(pool)
            kinds = LOADER_KINDS if side else DUMPER_KINDS
            if c in ('SafeConstructor', 'FullConstructor', 'Constructor'): kinds = ['KCtor', 'KMultiCtor']
            if c in ('SafeRepresenter', 'Representer'): kinds = ['KRepr', 'KMultiRepr']
            if c == 'Resolver': kinds = ['KImplicit', 'KPath']
            k = rng.choice(kinds)
            hist.append(['add', k, c, gen_key(rng, k, tags, prefixes, dtypes), val()])
        elif r < 0.87:
            k = rng.choice(KINDS)
            L = rng.choice([None, None, rng.choice(loaders + user_loaders)]) if k in LOADER_KINDS else None
            D = rng.choice([None, None, rng.choice(dumpers + user_dumpers)]) if k in DUMPER_KINDS else None
            hist.append(['helper', k, gen_key(rng, k, tags, prefixes, dtypes), val(), L, D])
        else:
            n_user += 1; name = 'Y%d' % n_user
            lo = rng.choice([None, None, rng.choice(loaders + user_loaders), [rng.choice(loaders + user_loaders), rng.choice(loaders)]])
            du = rng.choice([None, None, rng.choice(dumpers + user_dumpers)])
            hist.append(['yobj', name, rng.choice(['!y%d' % n_user, '!a', None]), lo, du])
        if rng.random() < 0.25: hist.append(['use'])     # load / dump with every class between two registrations
    if rng.random() < 0.5: hist.append(['use'])
    return hist

def gen_key(rng, k, tags, prefixes, dtypes):
    if k == 'KCtor': return rng.choice(tags + [None])
    if k == 'KMultiCtor': return rng.choice(prefixes + [None])
    if k in ('KRepr', 'KMultiRepr'): return rng.choice(dtypes + [None])
    if k == 'KImplicit': return rng.choice([['x'], ['x', 'y'], None, ['-', '0'], ['']])
    if k == 'KPath':
        return [rng.choice([[], ['k'], [['map', 'k']], [None, 0], [['seq', None], 'a'], [['map']], [True]]), rng.choice([None, 'scalar', 'seq', 'map', 'str'])]

if __name__ == '__main__' and '--worker' in sys.argv:
    worker()

# ----------------------------------------------------------------------------------------------------------------
# driver used by the property checks
# ----------------------------------------------------------------------------------------------------------------
ALPHABET = [
    ['def', 'U1', ['SafeLoader'], []], ['def', 'U2', ['U1'], []], ['def', 'U3', ['U1'], ['KCtor']], ['def', 'D1', ['SafeDumper'], []],
    ['add', 'KCtor', 'SafeLoader', '!a', 'f1'], ['add', 'KCtor', 'U1', '!a', 'f2'], ['add', 'KCtor', 'U2', '!b', 'f3'], ['add', 'KCtor', 'U3', '!a', 'f4'],
    ['add', 'KCtor', 'Loader', 'tag:yaml.org,2002:int', 'f5'], ['add', 'KMultiCtor', 'U1', '!p/', 'f6'], ['add', 'KMultiCtor', 'FullLoader', '!', 'f7'],
    ['add', 'KImplicit', 'U1', ['x'], '!i'], ['add', 'KImplicit', 'U2', ['x', '-'], '!j'], ['add', 'KImplicit', 'Resolver', None, '!k'],
    ['add', 'KPath', 'U1', [[['map', 'k']], 'scalar'], '!q'],
    ['add', 'KRepr', 'SafeDumper', 'T1', 'f8'], ['add', 'KRepr', 'D1', 'T1', 'f9'], ['add', 'KMultiRepr', 'D1', None, 'f10'], ['add', 'KRepr', 'SafeRepresenter', 'str', 'f11'],
    ['helper', 'KCtor', '!a', 'f12', None, None], ['helper', 'KImplicit', ['x'], '!h', None, None], ['helper', 'KRepr', 'T2', 'f13', None, None],
    ['helper', 'KCtor', '!a', 'f14', 'U1', None], ['helper', 'KPath', [['k'], None], '!r', None, None],
    ['yobj', 'Y1', '!y', None, None], ['yobj', 'Y2', '!a', 'U1', 'D1'],
]
def valid(hist):
    defined = set()
    for op in hist:
        refs = []
        if op[0] == 'def':
            if op[1] in defined: return False
            refs = op[2]
        elif op[0] == 'add': refs = [op[2]]
        elif op[0] == 'helper': refs = [x for x in op[4:6] if x]
        elif op[0] == 'yobj':
            if op[1] in defined: return False
            refs = ([op[3]] if isinstance(op[3], str) else (op[3] or [])) + ([op[4]] if op[4] else [])
        for r in refs:
            if r[0] in 'UDY' and r[1:].isdigit() and r not in defined: return False
        if op[0] in ('def', 'yobj'): defined.add(op[1])
    return True

def exhaustive(maxlen):
    import itertools
    out = []
    for n in range(1, maxlen + 1):
        for t in itertools.product(ALPHABET, repeat=n):
            h = list(t)
            if valid(h): out.append(h)
    return out

def eval_cases(cases, workdir, base, per_file=100):
    """cases: list of (hist, obs).  Returns list of bool|None (None = the Coq side failed to evaluate)."""
    from tools import vlib
    import subprocess
    os.makedirs(workdir, exist_ok=True)
    for f in os.listdir(workdir): os.remove(os.path.join(workdir, f))
    files = []
    for i in range(0, len(cases), per_file):
        p = os.path.join(workdir, 'RegCases%d.v' % (i // per_file))
        write_cases(p, cases[i:i + per_file], base); files.append((p, i, min(len(cases), i + per_file)))
    res = [None] * len(cases)
    procs = []
    def launch(p): return subprocess.Popen(['timeout', '600', 'coqc', '-R', vlib.COQ, 'YV', '-w', vlib.COQ_WARN, p], cwd=workdir, stdout=subprocess.PIPE, stderr=subprocess.STDOUT)
    pending = list(files); running = []
    logs = []
    while pending or running:
        while pending and len(running) < vlib.NPROC:
            f = pending.pop(0); running.append((f, launch(f[0])))
        (p, a, b), pr = running.pop(0)
        out = pr.communicate()[0].decode('utf-8', 'replace')
        bs = parse_bools(out) if pr.returncode == 0 else None
        if bs is None or len(bs) != b - a:
            logs.append(out[-800:])
        else:
            res[a:b] = bs
    return res, logs
