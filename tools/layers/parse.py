"""parse layer: yaml.parse(text) vs Model/Parse.v parse_all (on top of the lazy scanner model): events with all attributes,
implicit flags, marks; ParserError/ScannerError with marks."""
import sys, re
from .base import *

def kind(e):
    n = type(e).__name__[:-5]
    if n == 'DocumentStart':
        return 'DocumentStart %s %s %s' % (b(e.explicit), '-' if e.version is None else '%s.%s' % (num(e.version[0]), num(e.version[1])),
                                         ';'.join('%s=%s' % (se(h), se(p)) for h, p in (e.tags or {}).items()))
    if n == 'DocumentEnd': return 'DocumentEnd %s' % b(e.explicit)
    if n == 'Alias': return 'Alias %s' % se(e.anchor)
    if n == 'Scalar': return 'Scalar %s %s %s%s %s %s' % (o(e.anchor), o(e.tag), b(e.implicit[0]), b(e.implicit[1]), 'plain' if not e.style else e.style, se(e.value))
    if n in ('SequenceStart', 'MappingStart'): return '%s %s %s %s %s' % (n, o(e.anchor), o(e.tag), b(e.implicit), b(e.flow_style))
    return n

def run_impl_case(text):
    import yaml
    out = []
    try:
        for e in yaml.parse(text): out.append('E %s | %s | %s' % (kind(e), mark(e.start_mark), mark(e.end_mark)))
        out.append('END ok')
    except yaml.MarkedYAMLError as e:
        out.append('END %s %s | %s' % (type(e).__name__, 'none' if e.context_mark is None else mark(e.context_mark), mark(e.problem_mark)))
    except yaml.YAMLError as e: out.append('END Yaml %s' % type(e).__name__)
    except Exception as e: out.append('END Crash %s' % type(e).__name__)
    return out

def model_lines(cases): return [' '.join(str(ord(c)) for c in t) for t in cases]
def model_obs(block): return [re.sub(r'^END Crash.*', 'END Crash', x) for x in block]
def impl_obs(obs): return [re.sub(r'^END Crash.*', 'END Crash', x) for x in obs]

def num(n): return str(n) if n < (1 << 60) else 'b' + bin(n)[2:]

if __name__ == '__main__' and '--worker' in sys.argv:
    worker_main(run_impl_case)
