"""Direct property predicates evaluated on the real implementation (step 4 / the search of DESIGN section 6).
One worker, several kinds of case: ['c09', text]  ['c09p', [token kinds]]  ['c03', form, payload]  ['c07', text]
['rt', enc_value, opts]  ['c05', case_line] ...  Every handler returns {'bad': [ {kind, what, ...} ], ...stats}."""
import sys, io, codecs
from .base import *

BREAKS = '\n\x85  '
def positions(text):
    """(line, column) for every index 0..len(text), by counting breaks (CR LF once) and skipping U+FEFF for the column"""
    out = [(0, 0)]; line = col = 0; n = len(text)
    for i, ch in enumerate(text):
        if ch in BREAKS or (ch == '\r' and not (i + 1 < n and text[i + 1] == '\n')): line += 1; col = 0
        elif ch != '﻿': col += 1
        out.append((line, col))
    return out

def event_grammar_ok(evs):
    """stream := SS doc* SE ; doc := DS node DE ; node := AL | SC | QS node* QE | MS (node node)* ME"""
    import yaml
    pos = [0]
    def peek(): return evs[pos[0]] if pos[0] < len(evs) else None
    def take(cls):
        e = peek()
        if isinstance(e, cls): pos[0] += 1; return True
        return False
    def node():
        if take(yaml.AliasEvent) or take(yaml.ScalarEvent): return True
        if take(yaml.SequenceStartEvent):
            while not isinstance(peek(), yaml.SequenceEndEvent):
                if peek() is None or not node(): return False
            return take(yaml.SequenceEndEvent)
        if take(yaml.MappingStartEvent):
            while not isinstance(peek(), yaml.MappingEndEvent):
                if peek() is None or not node() or not node(): return False
            return take(yaml.MappingEndEvent)
        return False
    if not take(yaml.StreamStartEvent): return False
    while isinstance(peek(), yaml.DocumentStartEvent):
        pos[0] += 1
        if not node() or not take(yaml.DocumentEndEvent): return False
    return take(yaml.StreamEndEvent) and pos[0] == len(evs)

def token_balance_ok(toks, parsed):
    import yaml
    if not toks or not isinstance(toks[0], yaml.StreamStartToken) or not isinstance(toks[-1], yaml.StreamEndToken): return 'stream brackets'
    if sum(isinstance(t, (yaml.StreamStartToken, yaml.StreamEndToken)) for t in toks) != 2: return 'stream brackets'
    depth = 0; flow = 0
    for t in toks:
        if isinstance(t, (yaml.BlockSequenceStartToken, yaml.BlockMappingStartToken)): depth += 1
        elif isinstance(t, yaml.BlockEndToken):
            depth -= 1
            if depth < 0: return 'BLOCK-END without start'
        elif isinstance(t, (yaml.FlowSequenceStartToken, yaml.FlowMappingStartToken)): flow += 1
        elif isinstance(t, (yaml.FlowSequenceEndToken, yaml.FlowMappingEndToken)): flow -= 1
        if parsed and flow < 0: return 'flow end without start'
    if parsed and flow != 0: return 'unbalanced flow brackets'
    if parsed and depth != 0: return 'unbalanced block brackets'
    return None

def token_grammar_ok(kinds):
    """independent recogniser of the token grammar documented in the header of parser.py, over token kind names:
    stream ::= STREAM-START implicit_document? explicit_document* STREAM-END ; implicit_document ::= block_node DOCUMENT-END* ;
    explicit_document ::= DIRECTIVE* DOCUMENT-START block_node? DOCUMENT-END* ; properties ::= TAG ANCHOR? | ANCHOR TAG? ;
    block_node ::= ALIAS | properties block_content? | block_content ; flow_node likewise with flow_content ;
    block_sequence ::= BLOCK-SEQUENCE-START (BLOCK-ENTRY block_node?)* BLOCK-END ; indentless_sequence ::= (BLOCK-ENTRY block_node?)+ ;
    block_mapping ::= BLOCK-MAPPING-START ((KEY bnois?)? (VALUE bnois?)?)* BLOCK-END ;
    flow_sequence / flow_mapping ::= START (entry FLOW-ENTRY)* entry? END ; entry ::= flow_node | KEY flow_node? (VALUE flow_node?)?
    Returns None when the sequence is in the language, else a short description of where it leaves it."""
    pos = [0]; n = len(kinds)
    FLOW_CONTENT = ('FlowSequenceStart', 'FlowMappingStart', 'Scalar')
    BLOCK_CONTENT = FLOW_CONTENT + ('BlockSequenceStart', 'BlockMappingStart')
    FIRST_FLOW = ('Alias', 'Tag', 'Anchor') + FLOW_CONTENT
    FIRST_BLOCK = ('Alias', 'Tag', 'Anchor') + BLOCK_CONTENT
    class No(Exception): pass
    def pk(): return kinds[pos[0]] if pos[0] < n else None
    def take(k):
        if pk() == k: pos[0] += 1; return True
        return False
    def need(k):
        if not take(k): raise No('token #%d: expected %s, found %s' % (pos[0], k, pk()))
    def properties():
        if take('Tag'): take('Anchor'); return True
        if take('Anchor'): take('Tag'); return True
        return False
    def flow_coll():
        end = 'FlowSequenceEnd' if kinds[pos[0]] == 'FlowSequenceStart' else 'FlowMappingEnd'
        pos[0] += 1
        while True:
            if take(end): return
            if take('Key'):
                if pk() in FIRST_FLOW: flow_node()
                if take('Value'):
                    if pk() in FIRST_FLOW: flow_node()
            else: flow_node()
            if take(end): return
            need('FlowEntry')
    def flow_node():
        if take('Alias'): return
        had = properties()
        if pk() in ('FlowSequenceStart', 'FlowMappingStart'): flow_coll()
        elif take('Scalar'): pass
        elif not had: raise No('token #%d: expected a flow node, found %s' % (pos[0], pk()))
    def block_content():
        k = pk()
        if k in ('FlowSequenceStart', 'FlowMappingStart'): flow_coll()
        elif k == 'Scalar': pos[0] += 1
        elif k == 'BlockSequenceStart':
            pos[0] += 1
            while take('BlockEntry'):
                if pk() in FIRST_BLOCK: block_node(False)
            need('BlockEnd')
        elif k == 'BlockMappingStart':
            pos[0] += 1
            while pk() in ('Key', 'Value'):
                if take('Key'):
                    if pk() in FIRST_BLOCK + ('BlockEntry',): block_node(True)
                if take('Value'):
                    if pk() in FIRST_BLOCK + ('BlockEntry',): block_node(True)
            need('BlockEnd')
        else: raise No('token #%d: expected node content, found %s' % (pos[0], k))
    def block_node(indentless_ok):
        if take('Alias'): return
        had = properties()
        if indentless_ok and pk() == 'BlockEntry':
            while take('BlockEntry'):
                if pk() in FIRST_BLOCK: block_node(False)
        elif pk() in BLOCK_CONTENT: block_content()
        elif not had: raise No('token #%d: expected a block node, found %s' % (pos[0], pk()))
    try:
        need('StreamStart')
        if pk() in FIRST_BLOCK:
            block_node(False)
            while take('DocumentEnd'): pass
        while pk() in ('Directive', 'DocumentStart'):
            while take('Directive'): pass
            need('DocumentStart')
            if pk() in FIRST_BLOCK: block_node(False)
            while take('DocumentEnd'): pass
        need('StreamEnd')
        if pos[0] != n: raise No('tokens after STREAM-END')
    except No as e: return str(e)
    return None

def check_marks(items, text, pos, bad, what, exact=True, c_index_shift=0):
    last = -1; n = len(text)
    for it in items:
        s, e = it.start_mark, it.end_mark
        if not (0 <= s.index <= e.index <= n):
            bad.append(dict(kind='mark_range', what='%s %s has marks %d..%d outside 0..%d' % (what, type(it).__name__, s.index, e.index, n))); return
        if s.index < last:
            bad.append(dict(kind='mark_backwards', what='%s %s starts at %d after a start at %d' % (what, type(it).__name__, s.index, last))); return
        last = s.index
        if exact:
            for m in (s, e):
                if (m.line, m.column) != pos[m.index]:
                    bad.append(dict(kind='mark_linecol', what='%s %s mark index %d has line/column %d/%d, counting breaks gives %d/%d' % (what, type(it).__name__, m.index, m.line, m.column, pos[m.index][0], pos[m.index][1]))); return

def c09(text):
    import yaml
    bad = []; pos = positions(text); n = len(text)
    toks = evs = None; err = None
    try: toks = list(yaml.scan(text))
    except yaml.YAMLError as e: err = e
    except Exception as e: return dict(bad=[dict(kind='non_yaml_exception', what='scan raised %s' % type(e).__name__, exc=type(e).__name__)], outcome='crash')
    perr = None
    try: evs = list(yaml.parse(text))
    except yaml.YAMLError as e: perr = e
    except Exception as e: return dict(bad=[dict(kind='non_yaml_exception', what='parse raised %s' % type(e).__name__, exc=type(e).__name__)], outcome='crash')
    if toks is not None:
        # the token source driven by get_token() alone (no check_token / peek_token in between) must hand out the same tokens
        try:
            ld = yaml.SafeLoader(text); t2 = []
            try:
                while True:
                    t = ld.get_token()
                    if t is None: break
                    t2.append(t)
            finally: ld.dispose()
            sig = lambda ts: [(type(t).__name__, t.start_mark.index, t.end_mark.index, getattr(t, 'value', None)) for t in ts]
            if sig(t2) != sig(toks):
                k = next((i for i, (x, y) in enumerate(zip(sig(t2) + [None], sig(toks) + [None])) if x != y), 0)
                bad.append(dict(kind='get_token_only', what='tokens handed out by get_token() alone differ from yaml.scan at token %d: %s vs %s' % (k, (sig(t2) + [None])[k], (sig(toks) + [None])[k])))
        except yaml.YAMLError as e:
            bad.append(dict(kind='get_token_only', what='get_token() alone raises %s where yaml.scan returns tokens' % type(e).__name__))
        check_marks(toks, text, pos, bad, 'token')
        r = token_balance_ok(toks, evs is not None)
        if r: bad.append(dict(kind='token_grammar', what='token sequence: ' + r))
        if evs is not None:
            g = token_grammar_ok([type(t).__name__[:-5] for t in toks])
            if g: bad.append(dict(kind='token_grammar', what='the input parses but its token sequence is not in the documented token grammar (%s): %s' % (g, ' '.join(type(t).__name__[:-5] for t in toks)[:600])))
        for t in toks:
            s, e = t.start_mark, t.end_mark
            if not (0 <= s.index <= e.index <= n): break
            if isinstance(t, yaml.ScalarToken) and t.plain and s.line == e.line and text[s.index:e.index] != t.value:
                bad.append(dict(kind='span', what='single-line plain scalar %r spans %r' % (t.value, text[s.index:e.index]))); break
            if isinstance(t, (yaml.AnchorToken, yaml.AliasToken)) and text[s.index + 1:e.index] != t.value:
                bad.append(dict(kind='span', what='anchor/alias %r spans %r' % (t.value, text[s.index:e.index]))); break
    if evs is not None:
        check_marks(evs, text, pos, bad, 'event')
        if not event_grammar_ok(evs): bad.append(dict(kind='event_grammar', what='event sequence does not conform to the event grammar'))
    for e in (err, perr):
        if isinstance(e, yaml.MarkedYAMLError):
            for m in (e.context_mark, e.problem_mark):
                if m is None: continue
                if not (0 <= m.index <= n): bad.append(dict(kind='error_mark_range', what='error mark index %d outside 0..%d' % (m.index, n)))
                elif (m.line, m.column) != pos[m.index]: bad.append(dict(kind='error_mark_linecol', what='error mark index %d line/column %d/%d, counting gives %d/%d' % (m.index, m.line, m.column, pos[m.index][0], pos[m.index][1])))
    # LibYAML: range / monotonicity / grammar only (its index does not count a BOM)
    try:
        import yaml._yaml
        ctoks = cevs = None
        try: ctoks = list(yaml.scan(text, Loader=yaml.CLoader))
        except yaml.YAMLError: pass
        try: cevs = list(yaml.parse(text, Loader=yaml.CLoader))
        except yaml.YAMLError: pass
        if ctoks is not None: check_marks(ctoks, text, pos, bad, 'C token', exact=False)
        if cevs is not None:
            check_marks(cevs, text, pos, bad, 'C event', exact=False)
            if not event_grammar_ok(cevs): bad.append(dict(kind='event_grammar', what='C event sequence does not conform to the event grammar'))
    except ImportError: pass
    except Exception as e: bad.append(dict(kind='non_yaml_exception', what='LibYAML scan/parse raised %s' % type(e).__name__, exc=type(e).__name__))
    return dict(bad=bad, outcome='ok' if evs is not None else ('scan_ok' if toks is not None else 'error'))

TOKEN_KINDS = ['Directive', 'DocumentStart', 'DocumentEnd', 'BlockSequenceStart', 'BlockMappingStart', 'BlockEnd', 'FlowSequenceStart', 'FlowMappingStart',
               'FlowSequenceEnd', 'FlowMappingEnd', 'BlockEntry', 'FlowEntry', 'Key', 'Value', 'Alias', 'Anchor', 'Tag', 'Scalar', 'StreamStart', 'StreamEnd']
def c09p(kinds):
    """the parser alone, fed the given token kinds between STREAM-START and STREAM-END through a stub token source"""
    import yaml
    from yaml.tokens import StreamStartToken, StreamEndToken
    M = lambda i: yaml.Mark('<stub>', i, 0, i, None, None)
    def mk(k, i):
        s, e = M(i), M(i + 1)
        cls = getattr(yaml.tokens, k + 'Token')
        if k == 'Directive': return cls('YAML', (1, 1), s, e)
        if k in ('Alias', 'Anchor'): return cls('a', s, e)
        if k == 'Tag': return cls(('!', 'x'), s, e)
        if k == 'Scalar': return cls('v', True, s, e)
        return cls(s, e)
    toks = [StreamStartToken(M(0), M(0))] + [mk(k, i + 1) for i, k in enumerate(kinds)] + [StreamEndToken(M(len(kinds) + 1), M(len(kinds) + 1))]
    class Src:
        def __init__(self): self.t = list(toks)
        def check_token(self, *choices):
            if self.t:
                if not choices: return True
                for c in choices:
                    if isinstance(self.t[0], c): return True
            return False
        def peek_token(self): return self.t[0] if self.t else None
        def get_token(self): return self.t.pop(0) if self.t else None
    class P(Src, yaml.parser.Parser):
        def __init__(self): Src.__init__(self); yaml.parser.Parser.__init__(self)
    p = P(); evs = []
    try:
        while p.check_event(): evs.append(p.get_event())
    except yaml.parser.ParserError as e:
        bad = []
        for m in (e.context_mark, e.problem_mark):
            if m is not None and not (0 <= m.index <= len(kinds) + 1): bad.append(dict(kind='error_mark_range', what='parser error mark outside the token marks'))
        return dict(bad=bad, outcome='ParserError')
    except Exception as e:
        return dict(bad=[dict(kind='non_yaml_exception', what='the parser fed a token list raised %s' % type(e).__name__, exc=type(e).__name__)], outcome='crash')
    bad = []
    if not event_grammar_ok(evs): bad.append(dict(kind='event_grammar', what='parser accepted the tokens but produced an ungrammatical event list'))
    g = token_grammar_ok(['StreamStart'] + list(kinds) + ['StreamEnd'])
    if g: bad.append(dict(kind='token_grammar', what='the parser accepted a token list that is not in the documented token grammar (%s)' % g))
    last = -1
    for e in evs:
        if e.start_mark.index < last or e.start_mark.index > e.end_mark.index: bad.append(dict(kind='mark_backwards', what='event marks not ordered')); break
        last = e.start_mark.index
    return dict(bad=bad, outcome='ok')

HANDLERS = {'c09': c09, 'c09p': c09p}

# ---------------------------------------------------------------------------------------------------------------
# C03: reading never fails with anything but a YAML error
# ---------------------------------------------------------------------------------------------------------------
class _Hang(Exception): pass
def _alarm(sig, frm): raise _Hang()
def _src(form, payload, sizes=None):
    """build the input object for a delivery form"""
    if form == 'str': return ''.join(map(chr, payload))
    if form == 'bytes': return bytes(payload)
    if form == 'tstream': return _Stream(''.join(map(chr, payload)), sizes)
    if form == 'bstream': return _Stream(bytes(payload), sizes)
class _Stream:
    def __init__(s, data, sizes): s.d = data; s.sizes = list(sizes or []); s.n = 0; s.asked = []
    def read(s, n=-1):
        if n is None or n < 0: n = len(s.d)
        k = s.sizes.pop(0) if s.sizes else n
        k = max(1, min(k, n)); r = s.d[:k]; s.d = s.d[k:]; s.n += 1; s.asked.append(n); return r

def c03(form, payload, sizes=None):
    import yaml, signal
    bad = []; outcomes = []
    n_units = len(payload)
    loaders = [('py', yaml.SafeLoader)]
    if hasattr(yaml, 'CSafeLoader'): loaders.append(('c', yaml.CSafeLoader))
    for be, L in loaders:
        for api in ('scan', 'parse', 'compose_all'):
            src = _src(form, payload, sizes)
            signal.signal(signal.SIGALRM, _alarm); signal.alarm(20)
            try:
                for _ in getattr(yaml, api)(src, Loader=L): pass
                outcomes.append('ok')
            except yaml.YAMLError as e:
                outcomes.append(type(e).__name__)
                if isinstance(e, yaml.MarkedYAMLError):
                    for m in (e.context_mark, e.problem_mark):
                        if m is not None and not (0 <= m.index <= n_units + 1 and 0 <= m.line <= n_units and 0 <= m.column <= n_units):
                            bad.append(dict(kind='error_mark_outside', what='%s/%s: error mark index %d line %d column %d outside an input of %d units' % (be, api, m.index, m.line, m.column, n_units), backend=be, api=api))
                if isinstance(e, yaml.reader.ReaderError) and not (0 <= e.position <= n_units):
                    bad.append(dict(kind='error_mark_outside', what='%s/%s: ReaderError position %d outside an input of %d units' % (be, api, e.position, n_units), backend=be, api=api))
            except RecursionError:
                outcomes.append('RecursionError')
            except _Hang:
                bad.append(dict(kind='hang', what='%s/%s did not return within 20 s' % (be, api), backend=be, api=api)); outcomes.append('hang')
            except Exception as e:
                outcomes.append('CRASH ' + type(e).__name__)
                bad.append(dict(kind='non_yaml_exception', what='%s/%s raised %s: %s' % (be, api, type(e).__name__, str(e)[:80]), exc=type(e).__name__, backend=be, api=api))
            finally:
                signal.alarm(0)
    return dict(bad=bad, outcome=outcomes[2] if len(outcomes) > 2 else 'none', outcomes=outcomes)

# ---------------------------------------------------------------------------------------------------------------
# C07: the result does not depend on how the input is delivered
# ---------------------------------------------------------------------------------------------------------------
def _observe(src, L, with_index):
    """tokens / events (kind, value, line, column) and objects or the error, for one delivery"""
    import yaml
    from tools.values import show
    from tools.layers import scan as LS, parse as LP
    def mk(m): return (m.index if with_index else -1, m.line, m.column)
    out = []
    def err(e):
        if isinstance(e, yaml.reader.ReaderError):
            ch = e.character if isinstance(e.character, int) else ord(e.character)
            return ('ReaderError', ch, e.reason, e.position if with_index else -1)
        if isinstance(e, yaml.MarkedYAMLError):
            return (type(e).__name__, e.context, e.problem, None if e.context_mark is None else mk(e.context_mark), None if e.problem_mark is None else mk(e.problem_mark))
        return (type(e).__name__, str(e)[:100])
    for api in ('scan', 'parse', 'load_all'):
        s = src()
        items = []
        try:
            for x in (getattr(yaml, api)(s, Loader=L)):
                if api == 'scan': items.append((LS.kind(x), mk(x.start_mark), mk(x.end_mark)))
                elif api == 'parse': items.append((LP.kind(x), mk(x.start_mark), mk(x.end_mark)))
                else: items.append(show(x))
            items.append('END ok')
        except yaml.YAMLError as e: items.append(('END',) + err(e))
        except Exception as e: items.append(('END CRASH', type(e).__name__))
        out.append(items)
    return out

def _first_diff(a, b):
    """None if the two observations agree.  A delivery may hand out items earlier than another (streams are read lazily,
    in-memory input is validated eagerly), so when an error ends either run the delivered items must agree on their common
    prefix and the final errors must be equal; two complete runs must be equal item for item."""
    for api, x, y in zip(('scan', 'parse', 'load_all'), a, b):
        ex, ey = x[-1], y[-1]
        if ex == 'END ok' and ey == 'END ok':
            if x != y:
                for k, (p, q) in enumerate(zip(x + ['<end>'], y + ['<end>'])):
                    if p != q: return ('items', '%s item %d: %r vs %r' % (api, k, p, q))
            continue
        n = min(len(x), len(y)) - 1
        for k in range(n):
            if x[k] != y[k]: return ('items', '%s item %d: %r vs %r' % (api, k, x[k], y[k]))
        if ex != ey:
            def cls(e):
                if isinstance(e, str): return e
                if e[1] == 'ReaderError': return 'ReaderError/' + ('unprintable' if 'characters are not allowed' in str(e[3]) else 'decode')
                return e[1]
            cx = cls(ex); cy = cls(ey)
            return ('error', '%s ends with %r vs %r' % (api, ex, ey), cx, cy)
    return None
def _bad(be, name, d):
    b = dict(kind='form_dependent_' + d[0], what='%s: str/bytes vs %s differ: %s' % (be, name, d[1][:300]), backend=be, form=name)
    if d[0] == 'error': b['ends'] = [d[2], d[3]]
    return b

def c07t(text, schedules):
    """a str document through every delivery form; line/column of everything and the error must agree.  The index is
    compared within forms that have the same units and BOM (str / text stream; utf-8 bytes / byte streams)."""
    import yaml, codecs
    bad = []
    has_bom = text.startswith('\ufeff')      # the document's own BOM *is* the encoding mark: never add a second one
    try: u8 = text.encode('utf-8'); u16le = (b'' if has_bom else codecs.BOM_UTF16_LE) + text.encode('utf-16-le'); u16be = (b'' if has_bom else codecs.BOM_UTF16_BE) + text.encode('utf-16-be')
    except UnicodeEncodeError: return dict(bad=[], outcome='unencodable')
    for be, L in [('py', yaml.SafeLoader)] + ([('c', yaml.CSafeLoader)] if hasattr(yaml, 'CSafeLoader') else []):
        ref = _observe(lambda: text, L, False)
        forms = [('utf-8 bytes', lambda: u8), ('utf-8+BOM bytes', lambda: (b'' if has_bom else codecs.BOM_UTF8) + u8), ('utf-16-le+BOM', lambda: u16le), ('utf-16-be+BOM', lambda: u16be),
                 ('StringIO', lambda: io.StringIO(text)), ('BytesIO', lambda: io.BytesIO(u8))]
        for sz in schedules:
            forms.append(('text stream %s' % sz[:6], lambda sz=sz: _Stream(text, sz)))
            forms.append(('byte stream %s' % sz[:6], lambda sz=sz: _Stream(u8, sz)))
            forms.append(('utf-16 byte stream %s' % sz[:6], lambda sz=sz: _Stream(u16le, sz)))
        for name, f in forms:
            o = _observe(f, L, False)
            d = _first_diff(ref, o)
            if d: bad.append(_bad(be, name, d)); break
        # exact index within same-unit groups
        if be == 'py':
            r1 = _observe(lambda: text, L, True)
            for sz in schedules[:3]:
                d = _first_diff(r1, _observe(lambda: _Stream(text, sz), L, True))
                if d: bad.append(_bad(be, 'text stream %s (index compared)' % sz[:6], d)); break
            r2 = _observe(lambda: u8, L, True)
            for sz in schedules[:3]:
                d = _first_diff(r2, _observe(lambda: _Stream(u8, sz), L, True))
                if d: bad.append(_bad(be, 'byte stream %s (index compared)' % sz[:6], d)); break
    return dict(bad=bad, outcome=str(ref[2][-1] if isinstance(ref[2][-1], str) else ref[2][-1][1]))

def c07b(payload, schedules):
    """arbitrary bytes (possibly invalid in the detected encoding): bytes vs byte streams under every schedule"""
    import yaml
    bad = []; data = bytes(payload)
    for be, L in [('py', yaml.SafeLoader)] + ([('c', yaml.CSafeLoader)] if hasattr(yaml, 'CSafeLoader') else []):
        ref = _observe(lambda: data, L, be == 'py')
        for sz in [[]] + schedules:
            o = _observe(lambda: _Stream(data, sz) if sz else io.BytesIO(data), L, be == 'py')
            d = _first_diff(ref, o)
            if d: bad.append(_bad(be, 'byte stream %s' % sz[:6], d)); break
    last = ref[2][-1]
    return dict(bad=bad, outcome=str(last if isinstance(last, str) else last[1]))

HANDLERS.update({'c03': c03, 'c07t': c07t, 'c07b': c07b})

# ---------------------------------------------------------------------------------------------------------------
# C02 / C12 / C16: dump -> load round trips
# ---------------------------------------------------------------------------------------------------------------
def _dump_opts(o):
    o = dict(o)
    if o.get('version') is not None: o['version'] = tuple(o['version'])
    return o
_PATH_CLASSES = {}
def _path_classes(be):
    """subclasses of the safe dumper / loader with path resolvers (the experimental add_path_resolver API), once per worker"""
    import yaml
    if be not in _PATH_CLASSES:
        D0, L0 = _classes(be)
        if D0 is None or L0 is None: _PATH_CLASSES[be] = (None, None)
        else:
            class PathD(D0): pass
            class PathL(L0): pass
            for K in (PathD, PathL):
                K.add_path_resolver('!top', [], dict)
                K.add_path_resolver('!leaf', ['a', 'b'], str)
                K.add_path_resolver('!item', [None, 0], str)
                K.add_path_resolver('!deep', [(dict, 'k0'), (list, None)], None)
            PathL.add_constructor('!top', lambda l, n: ('TOP', l.construct_mapping(n, deep=True)))
            PathL.add_constructor('!leaf', lambda l, n: ('LEAF', n.value))
            PathL.add_constructor('!item', lambda l, n: ('ITEM', n.value))
            PathL.add_constructor('!deep', lambda l, n: ('DEEP', getattr(n, 'value', None) if isinstance(n, yaml.ScalarNode) else n.id))
            _PATH_CLASSES[be] = (PathD, PathL)
    return _PATH_CLASSES[be]
def _classes(be):
    import yaml
    if be.endswith('_path'): return _path_classes(be[:-5])
    return {'py': (yaml.SafeDumper, yaml.SafeLoader), 'c': (getattr(yaml, 'CSafeDumper', None), getattr(yaml, 'CSafeLoader', None))}[be]

def rt(enc, opts, dumper_be, loader_be):
    """safe_dump then safe_load of one value under one option set and one (dumper, loader) back-end pair"""
    import yaml
    from tools.values import decode, show
    D = _classes(dumper_be)[0]; L = _classes(loader_be)[1]
    if D is None or L is None: return dict(bad=[], outcome='no_c')
    v = decode(enc); o = _dump_opts(opts); bad = []
    if len(enc) % 2 == 0:
        from tools.values import share_dates
        v = share_dates(v)                       # equal dates as one shared object (anchor + aliases in the output)
    try:
        text = yaml.dump(v, Dumper=D, **o)
    except Exception as e:
        return dict(bad=[dict(kind='dump_raises', what='safe_dump raised %s: %s' % (type(e).__name__, str(e)[:80]), exc=type(e).__name__, dumper=dumper_be)], outcome='dump_raises')
    if (o.get('encoding') is None) != isinstance(text, str):
        bad.append(dict(kind='result_type', what='dump returned %s with encoding=%r' % (type(text).__name__, o.get('encoding')), dumper=dumper_be))
    try:
        back = yaml.load(text, Loader=L)
    except Exception as e:
        return dict(bad=bad + [dict(kind='dump_unreadable', what='safe_load rejects what safe_dump wrote (%s: %s)' % (type(e).__name__, str(e)[:100].replace('\n', ' ')), exc=type(e).__name__, text=text if isinstance(text, str) else text.decode(o['encoding'], 'replace'), dumper=dumper_be, loader=loader_be)], outcome='unreadable')
    canon = bool(o.get('sort_keys', True))
    a, b = show(v, canon), show(back, canon)
    if a != b:
        k = 0
        while k < min(len(a), len(b)) and a[k] == b[k]: k += 1
        bad.append(dict(kind='roundtrip_differs', what='value differs after dump/load at canonical offset %d: %r vs %r' % (k, a[max(0, k - 30):k + 40], b[max(0, k - 30):k + 40]),
                        text=(text if isinstance(text, str) else text.decode(o['encoding'], 'replace'))[:6000], dumper=dumper_be, loader=loader_be))
    return dict(bad=bad, outcome='ok' if not bad else 'differs')

# ---------------------------------------------------------------------------------------------------------------
# C05: emit -> parse
# ---------------------------------------------------------------------------------------------------------------
def _ev_equiv(o, p):
    import yaml
    if type(o) is not type(p): return 'event types %s vs %s' % (type(o).__name__, type(p).__name__)
    if isinstance(o, yaml.DocumentStartEvent):
        if (o.version or None) != (p.version or None): return 'version %r vs %r' % (o.version, p.version)
        if (o.tags or {}) != (p.tags or {}): return '%%TAG directives %r vs %r' % (o.tags, p.tags)
    if isinstance(o, (yaml.AliasEvent, yaml.ScalarEvent, yaml.SequenceStartEvent, yaml.MappingStartEvent)):
        if o.anchor != p.anchor: return 'anchor %r vs %r' % (o.anchor, p.anchor)
    if isinstance(o, yaml.ScalarEvent):
        if o.value != p.value: return 'scalar %r vs %r' % (o.value, p.value)
        if o.tag != p.tag and not (p.tag is None and (o.implicit[0] or o.implicit[1])) and not (o.tag is None and p.tag == '!'):
            return 'scalar tag %r vs %r (implicit %r)' % (o.tag, p.tag, o.implicit)
        # an elided tag must be licensed by the flag for the style that was written
        if o.tag is not None and p.tag is None:
            plain = p.implicit[0]
            if (plain and not o.implicit[0]) or (not plain and not o.implicit[1]): return 'tag %r elided although not implicit for the written style' % (o.tag,)
    if isinstance(o, (yaml.SequenceStartEvent, yaml.MappingStartEvent)):
        if o.tag != p.tag and not (p.tag is None and o.implicit): return 'collection tag %r vs %r' % (o.tag, p.tag)
    return None

def c05(line, be, wf=True):
    import yaml
    from tools.events import dec_case, to_yaml_events
    evs, o = dec_case(line)
    yevs = to_yaml_events(evs)
    D = yaml.Dumper if be == 'py' else getattr(yaml, 'CDumper', None)
    L = yaml.Loader if be == 'py' else getattr(yaml, 'CLoader', None)
    if D is None: return dict(bad=[], outcome='no_c')
    try:
        text = yaml.emit(yevs, Dumper=D, **o)
    except yaml.emitter.EmitterError: return dict(bad=[], outcome='EmitterError')
    except yaml.YAMLError as e: return dict(bad=[], outcome=type(e).__name__)
    except Exception as e:
        return dict(bad=[dict(kind='emit_non_yaml_exception', what='emit raised %s: %s' % (type(e).__name__, str(e)[:80]), exc=type(e).__name__, backend=be)], outcome='crash')
    if not wf: return dict(bad=[], outcome='accepted_illformed_or_unknown')
    try:
        back = list(yaml.parse(text, Loader=L))
    except Exception as e:
        return dict(bad=[dict(kind='emit_unparsable', what='the emitted text does not parse (%s: %s)' % (type(e).__name__, str(e)[:100].replace('\n', ' ')), exc=type(e).__name__, text=text[:6000], backend=be)], outcome='unparsable')
    bad = []
    if len(back) != len(yevs): bad.append(dict(kind='emit_parse_differs', what='%d events emitted, %d parsed back' % (len(yevs), len(back)), text=text[:6000], backend=be))
    else:
        for k, (a, b2) in enumerate(zip(yevs, back)):
            d = _ev_equiv(a, b2)
            if d: bad.append(dict(kind='emit_parse_differs', what='event %d: %s' % (k, d), text=text[:6000], backend=be)); break
    return dict(bad=bad, outcome='ok' if not bad else 'differs')

HANDLERS.update({'rt': rt, 'c05': c05})

# ---------------------------------------------------------------------------------------------------------------
# C01 / C04: confinement of the safe and full loaders, observed with audit + profile hooks
# ---------------------------------------------------------------------------------------------------------------
_AUDIT = {'on': False, 'imports': []}
def _audit(ev, args):
    if _AUDIT['on'] and ev == 'import': _AUDIT['imports'].append(str(args[0]))
_AUDIT_INSTALLED = [False]
CORE12 = ['tag:yaml.org,2002:' + x for x in ('null', 'bool', 'int', 'float', 'binary', 'timestamp', 'omap', 'pairs', 'set', 'str', 'seq', 'map')]
ALLOWED_PY = ('<frozen abc>', '<frozen _collections_abc>', '<frozen codecs>', '/re/', '/base64.py', '/datetime.py', '/_pydatetime.py', '/codecs.py', '/encodings/', '/enum.py', '/functools.py', '/types.py', '/collections/', '/_strptime.py', '/copyreg.py', '/binascii')
ALLOWED_C_MODULES = {'builtins', '_sre', 're', 'binascii', 'base64', 'datetime', '_datetime', '_codecs', 'codecs', '_struct', 'sys', 'time', 'itertools', '_collections', 'collections', '_functools', '_operator', '_abc', 'math', '_thread', '_weakref', 'gc', 'yaml._yaml', '_yaml', 'unicodedata', '_string', 'atexit', 'errno', '_locale', '_io', 'io', 'types', 'enum', '_warnings', 'warnings', 'array', '_bisect', '_heapq', '_random', '_sha2', 'zlib', '_stat'}
FORBIDDEN_BUILTINS = {'__import__', 'eval', 'exec', 'compile', 'open', 'setattr', 'delattr', 'input', 'breakpoint', 'globals', 'locals', 'vars'}

def _confined_load(text, loader_name, allow_getattr):
    import yaml, types as _t
    if not _AUDIT_INSTALLED[0]: sys.addaudithook(_audit); _AUDIT_INSTALLED[0] = True
    L = getattr(yaml, loader_name, None)
    if L is None: return None
    yaml_dir = os.path.dirname(yaml.__file__)
    calls = []
    def prof(frame, ev, arg):
        if ev == 'call':
            fn = frame.f_code.co_filename
            if fn.startswith(yaml_dir) or fn.startswith('<frozen') and False: return
            if any(a in fn for a in ALLOWED_PY): return
            calls.append('python call into %s:%s' % (fn, frame.f_code.co_name))
        elif ev == 'c_call':
            owner = getattr(arg, '__self__', None)
            name = getattr(arg, '__name__', '?')
            if isinstance(owner, _t.ModuleType):
                if owner.__name__ not in ALLOWED_C_MODULES: calls.append('C call %s.%s' % (owner.__name__, name))
                elif owner.__name__ == 'builtins' and (name in FORBIDDEN_BUILTINS or (name == 'getattr' and not allow_getattr)): calls.append('builtin %s()' % name)
    before = set(sys.modules)
    _AUDIT['imports'] = []; _AUDIT['on'] = True
    docs = None; exc = None
    sys.setprofile(prof)
    try:
        docs = list(yaml.load_all(text, Loader=L))
    except BaseException as e:
        exc = e
    finally:
        sys.setprofile(None); _AUDIT['on'] = False
    new_modules = sorted(set(sys.modules) - before)
    return docs, exc, calls, list(_AUDIT['imports']), new_modules
import os

def _node_tags(text, c_backend=False):
    """tags of all nodes of all documents as composed by the safe loader of the back-end under test (the composer/resolver are not what C01 is
    about; the two scanners differ on a tag glued to a flow indicator, `!!str,`)"""
    import yaml
    tags = set(); seen = set()
    def walk(n):
        if id(n) in seen: return
        seen.add(id(n)); tags.add(n.tag)
        if isinstance(n, yaml.SequenceNode):
            for x in n.value: walk(x)
        elif isinstance(n, yaml.MappingNode):
            for k, v in n.value: walk(k); walk(v)
    try:
        keep = []
        for n in yaml.compose_all(text, Loader=(getattr(yaml, 'CSafeLoader', None) if c_backend else None) or yaml.SafeLoader):
            keep.append(n)                                   # ids in `seen` are unique only while the nodes are alive
            if n is not None: walk(n)
    except Exception: return None
    # ... and, independently of parser and composer, the tags written in the text: every TAG token of a document that loads belongs to one of its nodes
    for L in ((getattr(yaml, 'CSafeLoader', None), yaml.SafeLoader) if c_backend else (yaml.SafeLoader, getattr(yaml, 'CSafeLoader', None))):
        if L is None: continue
        try:
            handles = {'!': '!', '!!': 'tag:yaml.org,2002:'}; in_content = False
            for tok in yaml.scan(text, Loader=L):
                if isinstance(tok, (yaml.DirectiveToken, yaml.DocumentStartToken, yaml.DocumentEndToken)) and in_content:
                    handles = {'!': '!', '!!': 'tag:yaml.org,2002:'}; in_content = False      # the directives of a document end with it
                if isinstance(tok, yaml.DirectiveToken):
                    if tok.name == 'TAG' and tok.value: handles[tok.value[0]] = tok.value[1]
                elif isinstance(tok, yaml.DocumentStartToken): in_content = True
                elif isinstance(tok, yaml.TagToken):
                    h, sfx = tok.value
                    if h is None:
                        if sfx != '!': tags.add(sfx)
                    elif h in handles: tags.add(handles[h] + sfx)
            break
        except Exception: continue
    return tags

def c01(text, loader_name, warm=None):
    import yaml
    from tools.values import show
    if warm is not None and hasattr(yaml, warm):
        # history probe: the same document is first loaded by a *full* loader (which never imports, calls or instantiates: C04),
        # so that anything the loader classes share by mistake (memo tables, caches) is filled before the safe load
        try: list(yaml.load_all(text, Loader=getattr(yaml, warm)))
        except Exception: pass
    r = _confined_load(text, loader_name, allow_getattr=True)     # hasattr/getattr on library objects is used by the loader itself; named-object access shows up as calls / types
    if r is None: return dict(bad=[], outcome='no_class')
    docs, exc, calls, imports, new_modules = r
    bad = []
    for c in calls[:3]: bad.append(dict(kind='foreign_call', what='%s: %s while loading' % (loader_name, c), loader=loader_name))
    if imports or new_modules: bad.append(dict(kind='import', what='%s: import of %s during the load' % (loader_name, (imports + new_modules)[:3]), loader=loader_name))
    if exc is not None:
        if isinstance(exc, yaml.YAMLError): return dict(bad=bad, outcome=type(exc).__name__)
        if isinstance(exc, RecursionError): return dict(bad=bad, outcome='RecursionError')
        bad.append(dict(kind='non_yaml_exception', what='%s raised %s: %s' % (loader_name, type(exc).__name__, str(exc)[:80]), exc=type(exc).__name__, loader=loader_name))
        return dict(bad=bad, outcome='crash')
    for d in docs:
        s = show(d)
        if '?' in s.replace('S', '') and ('=?' in s or s.startswith('R0=?')) or 'TUP(' in s or '=C(' in s:
            bad.append(dict(kind='non_plain_object', what='%s returned an object outside the plain-data universe: %s' % (loader_name, s[:160]), loader=loader_name)); break
    if 'Base' not in loader_name:
        tags = _node_tags(text, loader_name.startswith('C'))
        if tags is not None:
            foreign = [t for t in tags if t not in CORE12 and t not in ('tag:yaml.org,2002:merge', 'tag:yaml.org,2002:value')]
            if foreign: bad.append(dict(kind='unknown_tag_accepted', what='%s loaded a document carrying the non-core tag %r' % (loader_name, foreign[0]), loader=loader_name))
    return dict(bad=bad, outcome='ok')

def c04(text, loader_name, named, warm=None):
    """FullLoader / CFullLoader: no import, no call into code named by the document, result universe = plain + tuple + complex +
    attributes of already-imported modules named by python/name tags (`named` = dotted names occurring in the document)"""
    import yaml, types as _t
    from tools.values import show
    if warm is not None and getattr(yaml, warm, None) is not None:
        try: yaml.load(text, Loader=getattr(yaml, warm))          # harmless documents only (see tools/props/c04.py)
        except Exception: pass
    allowed_ids = set(); import tools.c04names as _names
    probes = {}
    for nm in named:
        mod, _, attr = nm.rpartition('.')
        if not mod: mod, attr = 'builtins', nm
        m = sys.modules.get(mod)
        if m is not None and hasattr(m, attr):
            allowed_ids.add(id(getattr(m, attr))); probes[nm] = getattr(m, attr)
    calls_before = {nm: o._c04_calls for nm, o in probes.items() if hasattr(type(o), '__next__') and hasattr(o, '_c04_calls') or type(o).__name__ == 'Lazy'}
    lens_before = {nm: o.__length_hint__() for nm, o in probes.items() if hasattr(o, '__length_hint__') and hasattr(type(o), '__next__')}
    r = _confined_load(text, loader_name, allow_getattr=True)
    if r is None: return dict(bad=[], outcome='no_class')
    docs, exc, calls, imports, new_modules = r
    bad = []
    for c in calls[:3]: bad.append(dict(kind='foreign_call', what='%s: %s while loading' % (loader_name, c), loader=loader_name))
    if imports or new_modules: bad.append(dict(kind='import', what='%s: import of %s during the load' % (loader_name, (imports + new_modules)[:3]), loader=loader_name))
    if exc is not None:
        if isinstance(exc, yaml.YAMLError): return dict(bad=bad, outcome=type(exc).__name__)
        if isinstance(exc, RecursionError): return dict(bad=bad, outcome='RecursionError')
        bad.append(dict(kind='non_yaml_exception', what='%s raised %s: %s' % (loader_name, type(exc).__name__, str(exc)[:80]), exc=type(exc).__name__, loader=loader_name))
        return dict(bad=bad, outcome='crash')
    for nm, n0 in calls_before.items():
        if probes[nm]._c04_calls != n0: bad.append(dict(kind='named_object_used', what='%s called / advanced the object named by python/name:%s (%d use(s))' % (loader_name, nm, probes[nm]._c04_calls - n0), loader=loader_name))
    for nm, n0 in lens_before.items():
        if probes[nm].__length_hint__() != n0: bad.append(dict(kind='named_object_used', what='%s consumed %d item(s) of the iterator named by python/name:%s' % (loader_name, n0 - probes[nm].__length_hint__(), nm), loader=loader_name))
    import re as _re0
    m0 = _re0.match(r"^!!python/name:([A-Za-z0-9_.]+)(?: ''| \"\")?\s*$", text)
    if m0 and m0.group(1) in probes and len(docs) == 1 and docs[0] is not probes[m0.group(1)]:
        bad.append(dict(kind='named_object_replaced', what='%s: python/name:%s gives %s, not the named attribute itself' % (loader_name, m0.group(1), type(docs[0]).__name__), loader=loader_name))
    import datetime
    plain = (type(None), bool, int, float, str, bytes, datetime.date, datetime.datetime, complex)
    seen = set()
    def walk(o):
        if type(o) in plain: return None
        if id(o) in seen: return None
        seen.add(id(o))
        if type(o) in (list, tuple, set):
            for x in o:
                r = walk(x)
                if r: return r
            return None
        if type(o) is dict:
            for k, v in o.items():
                r = walk(k) or walk(v)
                if r: return r
            return None
        if id(o) in allowed_ids: return None
        return '%s.%s' % (type(o).__module__, type(o).__name__)
    for d in docs:
        w = walk(d)
        if w: bad.append(dict(kind='foreign_object', what='%s returned an object of type %s that is not an attribute of an already-imported module named by the document' % (loader_name, w), loader=loader_name)); break
    # object-construction tags must have been rejected
    import re as _re
    if _re.search(r'python/(object|module)[:/]', text) or _re.search(r'!!python/(object|module)', text):
        tags = _node_tags(text, loader_name.startswith('C'))
        if tags is not None and any(t.startswith(('tag:yaml.org,2002:python/object', 'tag:yaml.org,2002:python/module')) for t in tags):
            bad.append(dict(kind='object_tag_accepted', what='%s loaded a document carrying an object-construction tag' % loader_name, loader=loader_name))
    return dict(bad=bad, outcome='ok')

HANDLERS.update({'c01': c01, 'c04': c04})

# ---------------------------------------------------------------------------------------------------------------
# C13 / C14: identity and mapping rules, against oracles computed from the generator's AST (tools/cgen.py)
# ---------------------------------------------------------------------------------------------------------------
def c13(text, ast, expect, loader_name, prefix=None):
    """prefix: an optional first list item (a deep, stateful construction) put in front of the generated document: the rules for the rest must not change"""
    import yaml, signal
    from tools import cgen, c17classes
    L = getattr(yaml, loader_name, None)
    if L is None: return dict(bad=[], outcome='no_class')
    wrapped = False
    if prefix is not None:
        if 'Unsafe' in loader_name or loader_name in ('Loader', 'CLoader'):
            ptext = '!!python/object:tools.c17classes.GetSet {x: &zz1 [1, 2], y: *zz1}'
        else:
            class L(L): pass
            def mk(loader, node):
                o = c17classes.GetSet(); yield o
                o.__setstate__(loader.construct_mapping(node, deep=True))
            L.add_constructor('!stateful', mk)
            ptext = '!stateful {x: &zz1 [1, 2], y: *zz1}'
        text = '- ' + ptext + '\n- ' + text + '\n'
        wrapped = True
    signal.signal(signal.SIGALRM, _alarm); signal.alarm(20)
    try:
        if text.startswith('--- '): obj = list(yaml.load_all(text, Loader=L))
        else: obj = yaml.load(text, Loader=L)
        got = 'ok'
    except yaml.YAMLError as e: got = type(e).__name__
    except RecursionError: got = 'RecursionError'
    except _Hang: got = 'hang'
    except Exception as e: got = 'CRASH ' + type(e).__name__
    finally: signal.alarm(0)
    bad = []
    if got != expect:
        bad.append(dict(kind='anchor_rule', what='%s: expected %s, got %s' % (loader_name, expect, got), loader=loader_name, exc=got.replace('CRASH ', '')))
    elif got == 'ok':
        r = cgen.check13(ast, obj[1] if wrapped else obj)
        if r: bad.append(dict(kind='identity', what='%s: %s' % (loader_name, r), loader=loader_name))
    return dict(bad=bad, outcome=got)

def c14(text, expect_kind, exp_canon, exp_ordered, loader_name):
    import yaml
    from tools.values import show
    L = getattr(yaml, loader_name, None)
    if L is None: return dict(bad=[], outcome='no_class')
    try:
        obj = yaml.load(text, Loader=L); got = 'ok'
    except yaml.YAMLError as e: got = type(e).__name__
    except RecursionError: got = 'RecursionError'
    except Exception as e: got = 'CRASH ' + type(e).__name__
    bad = []
    if got != expect_kind:
        bad.append(dict(kind='shape_rule', what='%s: expected %s, got %s' % (loader_name, expect_kind, got), loader=loader_name, exc=got.replace('CRASH ', '')))
    elif got == 'ok':
        a = show(obj, canon=True, ident=False)
        if a != exp_canon:
            k = 0
            while k < min(len(a), len(exp_canon)) and a[k] == exp_canon[k]: k += 1
            bad.append(dict(kind='merge_rule', what='%s: loaded %r, the YAML 1.1 mapping/merge rules give %r (canonical offset %d)' % (loader_name, a[max(0, k - 40):k + 40], exp_canon[max(0, k - 40):k + 40], k), loader=loader_name))
        elif exp_ordered is not None and show(obj, ident=False) != exp_ordered:
            bad.append(dict(kind='key_order', what='%s: key order differs from document order' % loader_name, loader=loader_name))
    return dict(bad=bad, outcome=got)

def c13x(kind, text, loader_name):
    """hand-shaped identity probes the AST generator cannot express: (scalar) an anchored scalar whose construction yields a
    fresh object every time (float, timestamp, binary, big int) - every alias must be THE object built for the anchor;
    (selfkey) an object that refers to itself and is first reached as a mapping key / set member - buildable, so it must
    load, and the reference must be the object itself."""
    import yaml
    L = getattr(yaml, loader_name, None)
    if L is None: return dict(bad=[], outcome='no_class')
    if kind == 'unhashable':
        try: obj = yaml.load(text, Loader=L)
        except yaml.constructor.ConstructorError: return dict(bad=[], outcome='rejected')
        except Exception as e:
            return dict(bad=[dict(kind='non_yaml_exception' if not isinstance(e, yaml.YAMLError) else 'anchor_rule', what='%s: a container in key / set-member position must be rejected with a ConstructorError, got %s: %s' % (loader_name, type(e).__name__, str(e)[:60].replace('\n', ' ')), loader=loader_name, exc=type(e).__name__)], outcome='crash')
        return dict(bad=[dict(kind='anchor_rule', what='%s: a container in key / set-member position was accepted: %r' % (loader_name, repr(obj)[:80]), loader=loader_name)], outcome='accepted')
    try: obj = yaml.load(text, Loader=L)
    except yaml.YAMLError as e:
        return dict(bad=[dict(kind='anchor_rule', what='%s: a valid document with %s is rejected (%s: %s)' % (loader_name, kind, type(e).__name__, str(e)[:80].replace('\n', ' ')), loader=loader_name, exc=type(e).__name__)], outcome='rejected')
    except Exception as e:
        return dict(bad=[dict(kind='non_yaml_exception', what='%s raised %s' % (loader_name, type(e).__name__), loader=loader_name, exc=type(e).__name__)], outcome='crash')
    bad = []
    if kind == 'scalar':
        items = obj if isinstance(obj, list) else list(obj.values())
        if not all(x is items[0] for x in items):
            bad.append(dict(kind='identity', what='%s: aliases of an anchored scalar are not the object built for the anchor (ids differ) in %r' % (loader_name, text[:80]), loader=loader_name))
    else:
        k = next(iter(obj)) if not isinstance(obj, list) else next(iter(obj[0]))
        if getattr(k, 'me', None) is not k: bad.append(dict(kind='identity', what='%s: the self-reference of an object used as a key is not the object itself' % loader_name, loader=loader_name))
    return dict(bad=bad, outcome='ok')

HANDLERS.update({'c13': c13, 'c13m': c13, 'c14': c14, 'c13x': c13x})

# ---------------------------------------------------------------------------------------------------------------
# C16: dumping is deterministic and stable
# ---------------------------------------------------------------------------------------------------------------
def _permuted(o, rng, memo):
    """same graph (sharing and cycles kept) with every dict / set rebuilt in a shuffled insertion order"""
    if id(o) in memo: return memo[id(o)]
    if isinstance(o, list):
        n = []; memo[id(o)] = n
        n.extend(_permuted(x, rng, memo) for x in o); return n
    if isinstance(o, dict):
        n = {}; memo[id(o)] = n
        items = list(o.items()); rng.shuffle(items)
        for k, v in items: n[k] = _permuted(v, rng, memo)
        return n
    if isinstance(o, set):
        items = list(o); rng.shuffle(items)
        n = set()
        for x in items: n.add(x)
        memo[id(o)] = n; return n
    return o

def _same_order(a, b, memo):
    """a was dumped, b loaded back: every dict of b lists its keys in the insertion order of the corresponding dict of a"""
    if (id(a), id(b)) in memo: return None
    memo.add((id(a), id(b)))
    if isinstance(a, dict) and isinstance(b, dict):
        ka, kb = list(a), list(b)
        if len(ka) != len(kb): return None                                   # not a faithful round trip: other clauses
        kr = lambda k: (type(k).__name__, repr(k))
        if sorted(map(kr, ka)) != sorted(map(kr, kb)): return None                # some key did not survive the round trip: not an order matter (C02 / other clauses)
        for x, y in zip(ka, kb):
            if not (type(x) is type(y) and (x == y or (x != x and y != y))): return 'insertion order %r, document order %r' % (ka[:8], kb[:8])
        for x, y in zip(ka, kb):
            r = _same_order(a[x], b[y], memo)
            if r: return r
    elif isinstance(a, list) and isinstance(b, list) and len(a) == len(b):
        for x, y in zip(a, b):
            r = _same_order(x, y, memo)
            if r: return r
    return None

def _c16_classes(be):
    import yaml
    if be == 'py': return [(yaml.SafeDumper, yaml.SafeLoader, 'SafeDumper'), (yaml.Dumper, yaml.SafeLoader, 'Dumper')]
    if not hasattr(yaml, 'CSafeDumper'): return []
    return [(yaml.CSafeDumper, yaml.CSafeLoader, 'CSafeDumper'), (yaml.CDumper, yaml.CSafeLoader, 'CDumper')]

def c16(enc, opts, be, perm_seed):
    import yaml, random, hashlib
    from tools.values import decode
    classes = _c16_classes(be)
    if not classes: return dict(bad=[], outcome='no_c')
    v = decode(enc); o = _dump_opts(opts); bad = []; digest = None; texts = {}
    if perm_seed % 2 == 0:
        from tools.values import share_dates
        v = share_dates(v)                       # equal dates as ONE object: written with an anchor and aliases, read back as one object
    for D, L, dname in classes:
        try:
            t1 = yaml.dump(v, Dumper=D, **o)
        except Exception as e:
            return dict(bad=[dict(kind='dump_raises', what='%s raised %s' % (dname, type(e).__name__), exc=type(e).__name__, dumper=be, cls=dname)], outcome='dump_raises')
        texts[dname] = t1
        t1b = yaml.dump(v, Dumper=D, **o)
        if t1b != t1: bad.append(dict(kind='not_deterministic', what='two dumps of the same object differ', dumper=be, cls=dname))
        if o.get('sort_keys', True):
            w = _permuted(v, random.Random(perm_seed), {})
            t2 = yaml.dump(w, Dumper=D, **o)
            if t2 != t1:
                k = 0
                while k < min(len(t1), len(t2)) and t1[k] == t2[k]: k += 1
                bad.append(dict(kind='order_dependent', what='with sort_keys the text depends on the insertion order: %r vs %r' % (t1[max(0, k - 30):k + 30], t2[max(0, k - 30):k + 30]), dumper=be, cls=dname))
        try:
            back = yaml.load(t1, Loader=L)
            t3 = yaml.dump(back, Dumper=D, **o)
            if t3 != t1:
                k = 0
                while k < min(len(t1), len(t3)) and t1[k] == t3[k]: k += 1
                txt = t1 if isinstance(t1, str) else t1.decode(o['encoding'], 'replace')
                bad.append(dict(kind='not_fixed_point', what='dump(load(dump(x))) differs from dump(x) at offset %d: %r vs %r' % (k, t1[max(0, k - 30):k + 30], t3[max(0, k - 30):k + 30]), text=txt[:6000], dumper=be, cls=dname))
            if o.get('sort_keys', True) is False:
                r = _same_order(v, back, set())
                if r:
                    txt = t1 if isinstance(t1, str) else t1.decode(o['encoding'], 'replace')
                    bad.append(dict(kind='order_not_kept', what='%s with sort_keys=False does not keep the insertion order of a mapping: %s' % (dname, r), text=txt[:3000], dumper=be, cls=dname))
        except Exception as e:
            txt = t1 if isinstance(t1, str) else t1.decode(o['encoding'], 'replace')
            bad.append(dict(kind='dump_unreadable', what='the dumped text is not loadable (%s)' % type(e).__name__, exc=type(e).__name__, text=txt[:6000], dumper=be, cls=dname))
        if digest is None: digest = hashlib.sha256(t1.encode('utf-8', 'surrogatepass') if isinstance(t1, str) else t1).hexdigest()
        if bad: break
    return dict(bad=bad, outcome='ok' if not bad else 'bad', digest=digest)

_c16h_n = [100000]
def c16h(template, be, o1, o2):
    """history independence: the text dumped for a value is a function of the value and of the options of THAT call.  Scalars that
    differ only in a unique six-digit token are dumped (a) under options o2 after the same scalars were dumped under o1, (b) under
    o2 with nothing before; the two outputs must agree up to the token."""
    import yaml
    classes = _c16_classes(be)
    if not classes: return dict(bad=[], outcome='no_c')
    bad = []
    for D, L, dname in classes:
        _c16h_n[0] += 2; k1 = '%06d' % _c16h_n[0]; k2 = '%06d' % (_c16h_n[0] + 1)
        mk = lambda k: {template.replace('{}', k): [template.replace('{}', k), 'x'], 'k': template.replace('{}', k)}
        try:
            yaml.dump(mk(k1), Dumper=D, **_dump_opts(o1))
            after = yaml.dump(mk(k1), Dumper=D, **_dump_opts(o2))
            fresh = yaml.dump(mk(k2), Dumper=D, **_dump_opts(o2))
        except Exception as e:
            bad.append(dict(kind='dump_raises', what='%s: dump raised %s' % (dname, type(e).__name__), exc=type(e).__name__, dumper=dname)); continue
        conv = (lambda t: t.decode(o2['encoding']) if isinstance(t, bytes) else t)
        if conv(after).replace(k1, k2) != conv(fresh):
            bad.append(dict(kind='history_dependent', what='%s: the text dumped under %s depends on an earlier dump of the same scalars under %s: %r vs %r' % (dname, {k: v for k, v in o2.items() if v is not None}, {k: v for k, v in o1.items() if v is not None}, conv(after)[:120], conv(fresh)[:120]), dumper=dname))
    return dict(bad=bad, outcome='ok' if not bad else 'bad')
HANDLERS.update({'c16': c16, 'c16h': c16h})

# ---------------------------------------------------------------------------------------------------------------
# C12: multi-document streams keep their boundaries ; C15: output honours the formatting options
# ---------------------------------------------------------------------------------------------------------------
def _as_text(t, o): return t if isinstance(t, str) else t.decode(o['encoding'], 'surrogatepass')

def c12(encs, opts, be):
    import yaml
    from tools.values import decode, show
    D, L = _classes(be)
    if D is None: return dict(bad=[], outcome='no_c')
    docs = [decode(e) for e in encs]; o = _dump_opts(opts); bad = []
    try:
        text = yaml.dump_all(docs, Dumper=D, **o)
    except Exception as e:
        return dict(bad=[dict(kind='dump_raises', what='dump_all raised %s' % type(e).__name__, exc=type(e).__name__, dumper=be)], outcome='dump_raises')
    txt = _as_text(text, o)
    try:
        back = list(yaml.load_all(text, Loader=L))
    except Exception as e:
        return dict(bad=[dict(kind='dump_unreadable', what='load_all rejects what dump_all wrote (%s: %s)' % (type(e).__name__, str(e)[:80].replace('\n', ' ')), exc=type(e).__name__, text=txt[:6000], dumper=be)], outcome='unreadable')
    canon = bool(o.get('sort_keys', True))
    if len(back) != len(docs):
        bad.append(dict(kind='count_differs', what='%d documents dumped, %d loaded' % (len(docs), len(back)), text=txt[:6000], dumper=be))
    else:
        for k, (a, b2) in enumerate(zip(docs, back)):
            if show(a, canon) != show(b2, canon):
                bad.append(dict(kind='roundtrip_differs', what='document %d of %d differs after dump_all/load_all' % (k, len(docs)), text=txt[:6000], dumper=be)); break
    # the text of a document does not depend on the documents that follow it (the only text written on behalf of a predecessor is '...')
    lb = o.get('line_break') if o.get('line_break') in ('\r', '\n', '\r\n') else '\n'
    for k in range(1, len(docs)):
        tk = _as_text(yaml.dump_all(docs[:k], Dumper=D, **o), o)
        if txt.startswith(tk): continue
        if tk.endswith('...' + lb) and txt.startswith(tk[:-len('...' + lb)]): continue
        j = 0
        while j < min(len(tk), len(txt)) and tk[j] == txt[j]: j += 1
        bad.append(dict(kind='depends_on_followers', what='the text of the first %d document(s) changes when more follow: %r vs %r' % (k, tk[max(0, j - 30):j + 30], txt[max(0, j - 30):j + 30]), text=txt[:6000], dumper=be)); break
    # each document is written exactly as it is written on its own (anchor names, directives, markers are a function of the document alone):
    # with explicit start and end markers forced the stream must be the concatenation of the single-document dumps
    if len(docs) >= 2 and not bad:
        o2 = dict(o); o2['explicit_start'] = True; o2['explicit_end'] = True
        try:
            full = _as_text(yaml.dump_all(docs, Dumper=D, **o2), o2)
            parts = [_as_text(yaml.dump_all([d], Dumper=D, **o2), o2) for d in docs]
            if o2.get('encoding') in ('utf-16-le', 'utf-16-be'): parts = [parts[0]] + [p.lstrip('\ufeff') for p in parts[1:]]
            if ''.join(parts) != full:
                j = 0; cat = ''.join(parts)
                while j < min(len(cat), len(full)) and cat[j] == full[j]: j += 1
                bad.append(dict(kind='depends_on_predecessors', what='a document is written differently inside a stream than alone: %r (alone) vs %r (in the stream)' % (cat[max(0, j - 30):j + 30], full[max(0, j - 30):j + 30]), text=full[:6000], dumper=be))
        except Exception as e:
            pass
    # dump_all accepts any iterable: documents that are short-lived temporaries (their ids may be recycled) and one object
    # updated in place between the documents must be written exactly like the same values held in a list
    if len(encs) >= 2 and not bad:
        try:
            lazy = _as_text(yaml.dump_all((decode(e) for e in encs), Dumper=D, **o), o)
            if lazy != txt:
                j = 0
                while j < min(len(lazy), len(txt)) and lazy[j] == txt[j]: j += 1
                bad.append(dict(kind='depends_on_predecessors', what='dump_all of a generator of temporaries differs from dump_all of the list of the same values: %r vs %r' % (lazy[max(0, j - 30):j + 30], txt[max(0, j - 30):j + 30]), text=lazy[:6000], dumper=be))
            acc = {'seq': 0, 'items': []}
            def growing():
                for i, d in enumerate(docs[:4]):
                    acc['seq'] = i; acc['items'].append(d)
                    yield acc
            grown = _as_text(yaml.dump_all(growing(), Dumper=D, **o), o)
            snaps = [{'seq': i, 'items': [decode(e) for e in encs[:i + 1]]} for i in range(min(4, len(encs)))]
            want = _as_text(yaml.dump_all(snaps, Dumper=D, **o), o)
            if grown != want:
                j = 0
                while j < min(len(grown), len(want)) and grown[j] == want[j]: j += 1
                bad.append(dict(kind='depends_on_predecessors', what='one object updated in place between the documents of dump_all is not written in its current state (stale copy of an earlier document?): %r vs %r' % (grown[max(0, j - 40):j + 40], want[max(0, j - 40):j + 40]), text=grown[:6000], dumper=be))
        except Exception as e:
            pass
    return dict(bad=bad, outcome='ok' if not bad else 'bad')

def c12n(text, be):
    """serialize_all(compose_all(text)) composes back to the same number of equal node graphs"""
    import yaml
    D = yaml.SafeDumper if be == 'py' else getattr(yaml, 'CSafeDumper', None); L = yaml.SafeLoader if be == 'py' else getattr(yaml, 'CSafeLoader', None)
    if D is None: return dict(bad=[], outcome='no_c')
    try: nodes = list(yaml.compose_all(text, Loader=L))
    except yaml.YAMLError: return dict(bad=[], outcome='invalid_input')
    except Exception: return dict(bad=[], outcome='invalid_input')
    nodes = [n for n in nodes if n is not None]
    def canon(n, seen):
        if id(n) in seen: return ('ref', seen[id(n)])
        seen[id(n)] = len(seen)
        if isinstance(n, yaml.ScalarNode): return ('s', n.tag, n.value)
        if isinstance(n, yaml.SequenceNode): return ('q', n.tag, [canon(x, seen) for x in n.value])
        return ('m', n.tag, [(canon(k, seen), canon(v, seen)) for k, v in n.value])
    try:
        out = yaml.serialize_all(nodes, Dumper=D)
        back = list(yaml.compose_all(out, Loader=L))
    except Exception as e:
        return dict(bad=[dict(kind='dump_unreadable', what='serialize_all/compose_all failed: %s: %s' % (type(e).__name__, str(e)[:80].replace('\n', ' ')), exc=type(e).__name__, dumper=be)], outcome='unreadable')
    bad = []
    if len(back) != len(nodes): bad.append(dict(kind='count_differs', what='%d node graphs serialized, %d composed back' % (len(nodes), len(back)), out_text=out[:3000], dumper=be))
    else:
        for k, (a, b2) in enumerate(zip(nodes, back)):
            if canon(a, {}) != canon(b2, {}): bad.append(dict(kind='roundtrip_differs', what='node graph %d differs after serialize_all/compose_all' % k, out_text=out[:3000], dumper=be)); break
    return dict(bad=bad, outcome='ok' if not bad else 'bad')

def c15(encs, opts, be, simple):
    """text-level checks of what dump_all writes under the given options"""
    import yaml, re, codecs
    from tools.values import decode
    D, L = _classes(be)
    if D is None: return dict(bad=[], outcome='no_c')
    docs = [decode(e) for e in encs]; o = _dump_opts(opts); bad = []
    try:
        out = yaml.dump_all(docs, Dumper=D, **o)
    except Exception as e:
        return dict(bad=[dict(kind='dump_raises', what='dump_all raised %s' % type(e).__name__, exc=type(e).__name__, dumper=be)], outcome='dump_raises')
    enc = o.get('encoding')
    if (enc is None) != isinstance(out, str):
        bad.append(dict(kind='result_type', what='dump_all returned %s with encoding=%r' % (type(out).__name__, enc), dumper=be))
        return dict(bad=bad, outcome='bad')
    if enc is not None:
        bom = {'utf-16-le': codecs.BOM_UTF16_LE, 'utf-16-be': codecs.BOM_UTF16_BE}.get(enc)
        if bom is not None and not out.startswith(bom): bad.append(dict(kind='bom', what='%s output does not start with the BOM' % enc, dumper=be))
        try: text = out.decode(enc)
        except Exception as e: return dict(bad=bad + [dict(kind='encoding', what='output is not valid %s' % enc, dumper=be)], outcome='bad')
        if text.startswith('﻿'): text = text[1:]
    else: text = out
    # accepted by the library's own reader
    try: yaml.reader.Reader(text)
    except yaml.YAMLError as e: bad.append(dict(kind='unreadable_chars', what='the output contains characters the reader rejects: %s' % str(e)[:80], text=text[:3000], dumper=be))
    lb = o.get('line_break') if o.get('line_break') in ('\r', '\n', '\r\n') else '\n'
    if not o.get('allow_unicode'):
        m = re.search('[^\x20-\x7e\r\n]', text)
        if m: bad.append(dict(kind='non_ascii', what='without allow_unicode the output contains %r' % m.group(0), text=text[:3000], dumper=be))
    rest = text.replace(lb, '')
    if '\r' in rest or '\n' in rest: bad.append(dict(kind='line_break', what='a CR/LF in the output is not the requested line break %r' % lb, text=text[:3000], dumper=be))
    lines = text.split(lb)
    if o.get('explicit_start') and sum(1 for l in lines if l.startswith('---')) < len(docs): bad.append(dict(kind='marker', what='explicit_start: fewer --- markers than documents', text=text[:3000], dumper=be))
    if o.get('explicit_end') and sum(1 for l in lines if l == '...') < len(docs): bad.append(dict(kind='marker', what='explicit_end: fewer ... markers than documents', text=text[:3000], dumper=be))
    if o.get('version') and sum(1 for l in lines if l.startswith('%YAML ')) < len(docs): bad.append(dict(kind='marker', what='version: fewer %YAML directives than documents', text=text[:3000], dumper=be))
    if o.get('tags') and sum(1 for l in lines if l.startswith('%TAG ')) < len(docs) * len(o['tags']): bad.append(dict(kind='marker', what='tags: fewer %TAG directives than documents', text=text[:3000], dumper=be))
    if simple:
        # values made of short plain scalars in block style: every line is the start of a block collection entry
        ind = o.get('indent'); best = ind if isinstance(ind, int) and 1 < ind < 10 else 2
        for l in lines:
            if not l or l.startswith(('---', '...', '%')): continue
            n = len(l) - len(l.lstrip(' '))
            if n % best: bad.append(dict(kind='indent', what='line %r is indented by %d, not a multiple of the effective indent %d' % (l[:40], n, best), text=text[:3000], dumper=be)); break
            # entries that start on the same line as a `- ` indicator (compact nesting): each nested entry starts at a multiple too
            col = n; rest_ = l[n:]; off = None
            while rest_.startswith('- '):
                k = len(rest_) - len(rest_[1:].lstrip(' ')); col += k; rest_ = rest_[k:]
                if (rest_.startswith('- ') or re.match(r'k\d+:', rest_)) and col % best: off = col; break
            if off is not None:
                bad.append(dict(kind='indent', what='line %r has a nested entry at column %d, not a multiple of the effective indent %d' % (l[:40], off, best), text=text[:3000], dumper=be)); break
        try: list(yaml.parse(out, Loader=L))
        except yaml.YAMLError as e: bad.append(dict(kind='unparsable', what='the output is not accepted by the library\'s own parser: %s' % str(e)[:120].replace('\n', ' '), text=text[:3000], dumper=be))
    if o.get('canonical') and be == 'py' and not o.get('tags'):      # the helper parser knows no %TAG directive
        try:
            sys.path.insert(0, os.path.join(os.path.dirname(os.path.dirname(os.path.dirname(yaml.__file__))), 'tests', 'legacy_tests'))
            import canonical as _canon
            ctext = '\n'.join(l for l in text.split(lb) if l != '...')        # the repo's canonical parser (a test helper) only knows LF breaks and no '...' marker
            ev1 = list(_canon.canonical_parse(ctext))
            ev2 = list(yaml.parse(ctext))
            if len(ev1) != len(ev2) or any(type(a) is not type(b2) or getattr(a, 'value', None) != getattr(b2, 'value', None) or getattr(a, 'anchor', None) != getattr(b2, 'anchor', None) for a, b2 in zip(ev1, ev2)):
                bad.append(dict(kind='canonical', what='the independent canonical parser reads different events from the canonical output', text=text[:3000], dumper=be))
        except ImportError: pass
        except Exception as e:
            bad.append(dict(kind='canonical', what='the independent canonical parser rejects the canonical output: %s: %s' % (type(e).__name__, str(e)[:80]), exc=type(e).__name__, text=text[:3000], dumper=be))
    return dict(bad=bad, outcome='ok' if not bad else 'bad')

HANDLERS.update({'c12': c12, 'c12n': c12n, 'c15': c15})

# ---------------------------------------------------------------------------------------------------------------
# C11: every call stands alone
# ---------------------------------------------------------------------------------------------------------------
def _api_call(call):
    """one API call -> canonical result (or the error class and text); generators may be abandoned after k items"""
    import yaml, io
    from tools.values import show, decode
    from tools.layers import scan as LS, parse as LP
    from tools.events import dec_case, to_yaml_events
    kind = call[0]
    be = call[-1]
    SL = yaml.SafeLoader if be == 'py' else yaml.CSafeLoader; SD = yaml.SafeDumper if be == 'py' else yaml.CSafeDumper
    FL = yaml.Loader if be == 'py' else yaml.CLoader; FD = yaml.Dumper if be == 'py' else yaml.CDumper
    try:
        if kind == 'load': return 'ok ' + show(yaml.load(call[1], Loader=SL))
        if kind == 'load_all':
            out = []
            g = yaml.load_all(call[1], Loader=SL)
            for i, d in enumerate(g):
                out.append(show(d))
                if call[2] is not None and i + 1 >= call[2]: break       # abandon the generator half-way
            return 'ok ' + ' | '.join(out)
        if kind == 'scan': return 'ok ' + ' | '.join(LS.kind(t) for t in yaml.scan(call[1], Loader=FL))
        if kind == 'parse': return 'ok ' + ' | '.join(LP.kind(e) for e in yaml.parse(call[1], Loader=FL))
        if kind == 'compose':
            def canon(n, seen):
                if id(n) in seen: return '*%d' % seen[id(n)]
                seen[id(n)] = len(seen)
                if isinstance(n, yaml.ScalarNode): return '%s(%s)' % (n.tag, n.value)
                if isinstance(n, yaml.SequenceNode): return '%s[%s]' % (n.tag, ','.join(canon(x, seen) for x in n.value))
                return '%s{%s}' % (n.tag, ','.join(canon(k, seen) + ':' + canon(v, seen) for k, v in n.value))
            return 'ok ' + ' | '.join(canon(n, {}) if n is not None else 'None' for n in yaml.compose_all(call[1], Loader=SL))
        if kind == 'dump':
            r = yaml.dump(decode(call[1]), Dumper=SD, **_dump_opts(call[2]))
            return 'ok ' + (r if isinstance(r, str) else repr(r))
        if kind == 'dump_all':
            r = yaml.dump_all([decode(x) for x in call[1]], Dumper=SD, **_dump_opts(call[2]))
            return 'ok ' + (r if isinstance(r, str) else repr(r))
        if kind == 'emit':
            evs, o = dec_case(call[1]); return 'ok ' + yaml.emit(to_yaml_events(evs), Dumper=FD, **o)
        if kind == 'serialize':
            nodes = [n for n in yaml.compose_all(call[1], Loader=SL) if n is not None]
            return 'ok ' + yaml.serialize_all(nodes, Dumper=SD)
        if kind.startswith('custom_'):
            from tools import c11custom as CC
            K = CC.classes(be)
            if kind == 'custom_dump_object': return 'ok ' + yaml.dump([CC.Point(1, 2), CC.Sub(8), {'k': CC.Point(3, 4)}], Dumper=K[call[1]])
            if kind == 'custom_dump_env': return 'ok ' + yaml.dump(decode(call[1]), Dumper=K['EnvDumper'])
            if kind == 'custom_load': return 'ok ' + show(yaml.load(call[2], Loader=K[call[1]]), ident=False)
    except yaml.YAMLError as e: return 'YAMLError %s %s' % (type(e).__name__, str(e)[:200])
    except RecursionError: return 'RecursionError'
    except Exception as e: return 'EXC %s %s' % (type(e).__name__, str(e)[:100])
    return 'unknown call'

def _global_snapshot():
    """deep, order-sensitive picture of every module- and class-level container of the library"""
    import yaml, types
    out = []
    mods = [m for n, m in sorted(sys.modules.items()) if n == 'yaml' or n.startswith('yaml.')]
    def canon(v, depth=0):
        if isinstance(v, dict): return '{' + ','.join('%s:%s' % (canon(k, depth + 1), canon(x, depth + 1)) for k, x in v.items()) + '}'
        if isinstance(v, (list, tuple)): return '[' + ','.join(canon(x, depth + 1) for x in v) + ']'
        if isinstance(v, (set, frozenset)): return 's{' + ','.join(sorted(canon(x, depth + 1) for x in v)) + '}'
        if isinstance(v, (str, int, float, bytes, bool, type(None))): return repr(v)
        if isinstance(v, type): return 'T:' + v.__name__
        if callable(v): return 'F:' + getattr(v, '__qualname__', repr(type(v)))
        if hasattr(v, 'pattern'): return 'R:' + v.pattern
        return 'O:' + type(v).__name__
    for m in mods:
        if not isinstance(m, types.ModuleType) or not getattr(m, '__file__', '') : continue
        for n, v in sorted(vars(m).items()):
            if n.startswith('__'): continue
            if isinstance(v, (dict, list, set)): out.append('%s.%s=%s' % (m.__name__, n, canon(v)))
            elif isinstance(v, type) and v.__module__ == m.__name__:
                for a, x in sorted(vars(v).items()):
                    if isinstance(x, (dict, list, set)): out.append('%s.%s.%s=%s' % (m.__name__, v.__name__, a, canon(x)))
    from tools import c11custom as CC
    for n, c in CC.all_custom_classes():                   # customised subclasses: the tables they own
        for a, x in sorted(vars(c).items()):
            if isinstance(x, (dict, list, set)): out.append('custom.%s.%s=%s' % (n, a, canon(x)))
    return out

def _in_child(fn):
    import json as _json
    r, w = os.pipe(); pid = os.fork()
    if pid == 0:
        os.close(r)
        try: out = _json.dumps(fn())
        except BaseException as e: out = _json.dumps('CHILD-EXC %s: %s' % (type(e).__name__, e))
        with os.fdopen(w, 'w') as f: f.write(out)
        os._exit(0)
    os.close(w)
    with os.fdopen(r) as f: data = f.read()
    os.waitpid(pid, 0)
    import json as _json
    return _json.loads(data) if data else 'CHILD-DIED'

def c11(calls):
    """the sequence of calls inside one interpreter vs each call alone in a fresh fork; library-global state before/after"""
    import yaml
    from tools import c11custom as CC
    CC.classes('py')
    if hasattr(yaml, 'CSafeLoader'): CC.classes('c')
    ref = [_in_child(lambda c=c: _api_call(c)) for c in calls]
    def seq():
        before = _global_snapshot()
        got = [_api_call(c) for c in calls]
        import gc; gc.collect()
        after = _global_snapshot()
        again = [_api_call(c) for c in calls[:3]]
        return dict(got=got, changed=[(a, b) for a, b in zip(before, after) if a != b][:3] + ([['<different number of containers>', '']] if len(before) != len(after) else []), again=again)
    r = _in_child(seq)
    bad = []
    if not isinstance(r, dict): return dict(bad=[dict(kind='harness', what=str(r)[:200])], outcome='harness')
    for i, (a, b2) in enumerate(zip(ref, r['got'])):
        if a != b2:
            bad.append(dict(kind='history_dependent', what='call %d (%s) gives %r after the preceding calls but %r in a fresh interpreter' % (i, calls[i][0], b2[:120], a[:120]), index=i)); break
    for i, (a, b2) in enumerate(zip(ref, r['again'])):
        if a != b2: bad.append(dict(kind='history_dependent', what='call %d (%s) repeated after the whole sequence gives %r, fresh %r' % (i, calls[i][0], b2[:120], a[:120]), index=i)); break
    if r['changed']: bad.append(dict(kind='global_state_changed', what='library-global container changed by the calls: %s -> %s' % (str(r['changed'][0][0])[:150], str(r['changed'][0][1])[:150])))
    return dict(bad=bad, outcome='ok' if not bad else 'bad')

def c11s(texts, be, seps=None):
    """loading a stream gives the list of what each document gives on its own (up to and including the first document that is an error on its own)"""
    import yaml
    from tools.values import show
    L = yaml.SafeLoader if be == 'py' else getattr(yaml, 'CSafeLoader', None)
    FL = yaml.Loader if be == 'py' else getattr(yaml, 'CLoader', None)
    if L is None: return dict(bad=[], outcome='no_c')
    bad = []
    class _Slow:
        """file-like object whose read() hands out one to three units at a time: every position of the stream is a refill boundary once"""
        def __init__(self, data, sizes): self.d = data; self.i = 0; self.k = 0; self.sizes = sizes
        def read(self, size=-1):
            n = self.sizes[self.k % len(self.sizes)]; self.k += 1
            r = self.d[self.i:self.i + n]; self.i += len(r); return r
    for what, run in (('objects', lambda t, multi: [show(d) for d in (yaml.load_all(t, Loader=L) if multi else [yaml.load(t, Loader=L)])]),
                      ('node tags', lambda t, multi: [_node_sig(n, {}) for n in (yaml.compose_all(t, Loader=L) if multi else [yaml.compose(t, Loader=L)])]),
                      ('objects from a slow text stream', lambda t, multi: [show(d) for d in (yaml.load_all(_Slow(t, [1, 2, 1, 3]), Loader=L) if multi else [yaml.load(t, Loader=L)])]),
                      ('objects from a slow byte stream', lambda t, multi: [show(d) for d in (yaml.load_all(_Slow(t.encode('utf-8'), [2, 1, 1, 3, 1]), Loader=L) if multi else [yaml.load(t, Loader=L)])])):
        single = []; err = None
        for t in texts:
            try: single += run(t, False)
            except yaml.YAMLError as e: err = type(e).__name__; break
            except Exception as e: err = 'NONYAML ' + type(e).__name__; break
        stream = ''.join((sp or '') + t for sp, t in zip(seps or [''] * len(texts), texts))
        got = []; gerr = None
        try:
            src = stream if what in ('objects', 'node tags') else _Slow(stream, [1, 2, 1, 3]) if 'text' in what else _Slow(stream.encode('utf-8'), [2, 1, 1, 3, 1])
            for x in (yaml.compose_all(src, Loader=L) if what == 'node tags' else yaml.load_all(src, Loader=L)):
                got.append(_node_sig(x, {}) if what == 'node tags' else show(x))
        except yaml.YAMLError as e: gerr = type(e).__name__
        except Exception as e: gerr = 'NONYAML ' + type(e).__name__
        if got[:len(single)] != single or (err is None) != (gerr is None) or (err is None and len(got) != len(single)):
            bad.append(dict(kind='stream_not_list_of_docs', what='%s: the stream gives %r%s but the documents alone give %r%s' % (what, got[:4], ' then ' + gerr if gerr else '', single[:4], ' then ' + err if err else ''), backend=be)); break
    return dict(bad=bad, outcome='ok' if not bad else 'bad')

# ---------------------------------------------------------------------------------------------------------------
# C10: the shipped entry classes are mutually isolated (independent of the model: snapshots of the live tables)
# ---------------------------------------------------------------------------------------------------------------
ENTRY_CLASSES = ['BaseLoader', 'SafeLoader', 'FullLoader', 'UnsafeLoader', 'Loader', 'CBaseLoader', 'CSafeLoader', 'CFullLoader', 'CUnsafeLoader', 'CLoader',
                 'BaseDumper', 'SafeDumper', 'Dumper', 'CBaseDumper', 'CSafeDumper', 'CDumper']
TABLE_ATTRS = ['yaml_constructors', 'yaml_multi_constructors', 'yaml_representers', 'yaml_multi_representers', 'yaml_implicit_resolvers', 'yaml_path_resolvers']
_c10_n = [0]
def c10x(kind, cname, probe_text=None):
    """register something of `kind` on the shipped class `cname`; no effective table of any OTHER shipped entry class may change, and
    a probe document / value must load / dump with every other class exactly as before"""
    import yaml, re
    classes = {n: getattr(yaml, n, None) for n in ENTRY_CLASSES}
    C = classes.get(cname)
    if C is None or not hasattr(C, {'ctor': 'add_constructor', 'multi_ctor': 'add_multi_constructor', 'repr': 'add_representer', 'multi_repr': 'add_multi_representer', 'implicit': 'add_implicit_resolver', 'path': 'add_path_resolver'}[kind]):
        return dict(bad=[], outcome='not_applicable')
    def freeze(attr, t):
        if attr == 'yaml_implicit_resolvers': return {k: tuple((tag, rx.pattern) for tag, rx in v) for k, v in t.items()}
        if attr == 'yaml_path_resolvers': return {repr(k): v for k, v in t.items()}
        return {k: id(v) for k, v in t.items()}
    def snap(): return {n: {a: freeze(a, getattr(K, a)) for a in TABLE_ATTRS if hasattr(K, a)} for n, K in classes.items() if K is not None}
    _c10_n[0] += 1; u = '!c10x%d' % _c10_n[0]
    class Probe: pass
    text = '- %s v\n- %sabc w\n- zq%d\n- {top: {leaf: v}}\n' % (u, u, _c10_n[0])
    def behaviour():
        out = {}
        for n, K in classes.items():
            if K is None: continue
            try:
                if 'Loader' in n: out[n] = repr(yaml.load(text, Loader=K))[:300]
                else: out[n] = yaml.dump([Probe.__name__, 'zq%d' % _c10_n[0]], Dumper=K)
            except yaml.YAMLError as e: out[n] = 'YAMLError ' + type(e).__name__
            except Exception as e: out[n] = 'EXC ' + type(e).__name__
        return out
    before = snap(); bb = behaviour()
    if kind == 'ctor': C.add_constructor(u, lambda l, n: ('probe', n.value))
    elif kind == 'multi_ctor': C.add_multi_constructor(u, lambda l, s, n: ('multi', s, n.value))
    elif kind == 'repr': C.add_representer(type('T%d' % _c10_n[0], (), {}), lambda d, o: d.represent_scalar(u, 'x'))
    elif kind == 'multi_repr': C.add_multi_representer(type('M%d' % _c10_n[0], (), {}), lambda d, o: d.represent_scalar(u, 'x'))
    elif kind == 'implicit': C.add_implicit_resolver(u, re.compile('^zq%d$' % _c10_n[0]), ['z'])
    elif kind == 'path': C.add_path_resolver(u, ['top', 'leaf'], str)
    after = snap(); ba = behaviour(); bad = []
    for n in before:
        if n == cname: continue
        for a in before[n]:
            if before[n][a] != after[n].get(a):
                new = [k for k in after[n][a] if k not in before[n][a]]
                bad.append(dict(kind='leak', what='%s on %s changed %s.%s (new keys: %s)' % (kind, cname, n, a, [str(k)[:40] for k in new][:3]), target=cname, other=n, table=a)); break
        if bb.get(n) != ba.get(n):
            bad.append(dict(kind='behaviour_leak', what='%s on %s changed what %s does with a probe: %s -> %s' % (kind, cname, n, bb.get(n, '')[:80], ba.get(n, '')[:80]), target=cname, other=n))
    return dict(bad=bad[:4], outcome='ok' if not bad else 'bad')
HANDLERS.update({'c10x': c10x})

HANDLERS.update({'c11': c11, 'c11s': c11s})

# ---------------------------------------------------------------------------------------------------------------
# C19: failures of the caller's stream or callbacks pass through cleanly
# ---------------------------------------------------------------------------------------------------------------
class _Boom(Exception): pass
def _fault(i):
    """a unique exception object for fault point i; the class rotates over a bespoke class and every class the library itself catches somewhere"""
    import binascii
    classes = [_Boom, TypeError, ValueError, KeyError, IndexError, AttributeError, ImportError, binascii.Error, OSError, RuntimeError,
               lambda m: UnicodeDecodeError('utf-8', b'x', 0, 1, m), lambda m: UnicodeEncodeError('ascii', 'x', 0, 1, m), AssertionError, LookupError]
    return classes[i % len(classes)]('fault %d' % i)
class _WStream:
    """records writes/flushes; raises the given exception object at the k-th write (or flush)"""
    def __init__(s, fail_at=None, exc=None, on='write', binary=False):
        s.log = []; s.n = 0; s.fail_at = fail_at; s.exc = exc; s.on = on
        if not binary: s.encoding = None if False else 'utf-8'
    def _tick(s, kind):
        if kind == s.on:
            if s.fail_at is not None and s.n == s.fail_at: s.n += 1; raise s.exc
            s.n += 1
    def write(s, d): s._tick('write'); s.log.append(d)
    def flush(s): s._tick('flush')

_REF = {}
def _ref_calls():
    """reference calls through the stock classes and through customised classes (path resolvers), both back-ends"""
    import yaml
    out = []
    for be in ('py', 'c'):
        for D, L in (_classes(be), _path_classes(be)):
            if D is None or L is None: continue
            for text in ('a: {b: x, c: [y]}\nk0: [p, {q: r}]\n', '[[u, v], {a: {b: w}}]'):
                try: out.append(repr(yaml.load(text, Loader=L)))
                except Exception as e: out.append('EXC %s: %s' % (type(e).__name__, str(e)[:60]))
            for v in ({'a': {'b': 'x'}, 'k0': ['p', 1]}, [['u', 'v'], {'a': {'b': 'w'}}]):
                try: out.append(yaml.dump(v, Dumper=D))
                except Exception as e: out.append('EXC %s: %s' % (type(e).__name__, str(e)[:60]))
    return out
def _ref_ok():
    import yaml
    if 'ref' not in _REF: _REF['ref'] = _ref_calls()           # first use in this worker: before any fault was injected
    return yaml.safe_load(yaml.safe_dump({'a': [1, 'x', None]})) == {'a': [1, 'x', None]} and yaml.safe_dump([1, 2]) == '- 1\n- 2\n' and _ref_calls() == _REF['ref']

def c19(kind, payload, be, max_points, k0=0):
    import yaml, random
    from tools.values import decode
    bad = []; points = 0
    _ref_ok()
    rng = random.Random(len(str(payload)))
    def pick(n):
        idx = list(range(n))
        if n > max_points: idx = sorted(rng.sample(idx, max_points - 2) + [0, n - 1])
        return idx
    if kind == 'dump':
        enc, opts = payload
        D = _classes(be)[0]
        if D is None: return dict(bad=[], outcome='no_c')
        v = decode(enc); o = _dump_opts(opts); binary = o.get('encoding') is not None and be == 'c'
        for on in ('write', 'flush'):
            w0 = _WStream(on=on)
            if 'encoding' in o and o['encoding'] is not None and hasattr(w0, 'encoding'): pass
            try: yaml.dump(v, w0, Dumper=D, **o)
            except Exception as e: return dict(bad=[], outcome='dump_raises')
            total = w0.n
            for i in pick(total):
                exc = _fault(i + k0); w = _WStream(fail_at=i, exc=exc, on=on)
                points += 1
                try:
                    yaml.dump(v, w, Dumper=D, **o)
                    bad.append(dict(kind='fault_swallowed', what='%s: the exception raised by stream.%s() call %d did not reach the caller' % (be, on, i), point=i, backend=be)); continue
                except BaseException as e:
                    if e is not exc:
                        bad.append(dict(kind='fault_changed', what='%s: stream.%s() call %d raised the injected exception, the caller got %s: %s' % (be, on, i, type(e).__name__, str(e)[:60]), point=i, backend=be, exc=type(e).__name__)); continue
                if w.log != w0.log[:len(w.log)]:
                    bad.append(dict(kind='writes_not_prefix', what='%s: what was written before the fault at %s %d is not a prefix of the fault-free writes' % (be, on, i), point=i, backend=be))
                if not _ref_ok(): bad.append(dict(kind='not_usable_after', what='%s: the library misbehaves after a failed dump' % be, point=i, backend=be)); break
    elif kind == 'load':
        text, sizes, binary = payload
        L = _classes(be)[1]
        if L is None: return dict(bad=[], outcome='no_c')
        data = text.encode('utf-8') if binary else text
        class RS(_Stream):
            def __init__(s, d, sz, fail_at, exc): _Stream.__init__(s, d, sz); s.fail_at = fail_at; s.exc = exc; s.k = 0
            def read(s, n=-1):
                if s.fail_at is not None and s.k == s.fail_at: s.k += 1; raise s.exc
                s.k += 1; return _Stream.read(s, n)
        r0 = RS(data, sizes, None, None)
        try:
            for _ in yaml.load_all(r0, Loader=L): pass
        except yaml.YAMLError: pass
        except Exception: return dict(bad=[], outcome='load_crash')
        for i in pick(r0.k):
            exc = _fault(i + k0); points += 1
            try:
                for _ in yaml.load_all(RS(data, sizes, i, exc), Loader=L): pass
                bad.append(dict(kind='fault_swallowed', what='%s: the exception raised by read() call %d did not reach the caller' % (be, i), point=i, backend=be))
            except BaseException as e:
                if e is not exc: bad.append(dict(kind='fault_changed', what='%s: read() call %d raised the injected exception, the caller got %s: %s' % (be, i, type(e).__name__, str(e)[:60]), point=i, backend=be, exc=type(e).__name__))
            if not _ref_ok(): bad.append(dict(kind='not_usable_after', what='%s: the library misbehaves after a failed load' % be, point=i, backend=be)); break
    elif kind == 'ctor':
        n_nodes = payload
        Lb = _classes(be)[1]
        if Lb is None: return dict(bad=[], outcome='no_c')
        text = '\n'.join('- !f {k%d: [!f x, *a], d%d: !f y, ? !f z : w}' % (i, i) if i else '- &a !f 1' for i in range(n_nodes)) + '\ntop: !f t\n'.replace('top', '- top')
        def run(fail_at, exc):
            cnt = [0]
            class L(Lb): pass
            def cb(loader, node):
                if fail_at is not None and cnt[0] == fail_at: cnt[0] += 1; raise exc
                cnt[0] += 1
                return 'v'
            L.add_constructor('!f', cb)
            yaml.load(text, Loader=L); return cnt[0]
        total = run(None, None)
        for i in pick(total):
            exc = _fault(i + k0); points += 1
            try:
                run(i, exc); bad.append(dict(kind='fault_swallowed', what='%s: the exception raised by the user constructor call %d did not reach the caller' % (be, i), point=i, backend=be))
            except BaseException as e:
                if e is not exc: bad.append(dict(kind='fault_changed', what='%s: the user constructor call %d raised the injected exception, the caller got %s: %s' % (be, i, type(e).__name__, str(e)[:60]), point=i, backend=be, exc=type(e).__name__))
            if not _ref_ok() or '!f' in Lb.yaml_constructors: bad.append(dict(kind='not_usable_after', what='%s: library state changed after a failing user constructor' % be, point=i, backend=be)); break
    elif kind == 'repr':
        n_objs = payload
        Db = _classes(be)[0]
        if Db is None: return dict(bad=[], outcome='no_c')
        class T:
            def __init__(s, i): s.i = i
        objs = [T(i) for i in range(n_objs)]
        value = {'k': objs, 'again': objs[:1], 'nested': [[o] for o in objs]}
        def run(fail_at, exc, stream):
            cnt = [0]
            class D(Db): pass
            def rp(dumper, data):
                if fail_at is not None and cnt[0] == fail_at: cnt[0] += 1; raise exc
                cnt[0] += 1
                return dumper.represent_scalar('!t', str(data.i))
            D.add_representer(T, rp)
            yaml.dump(value, stream, Dumper=D); return cnt[0]
        w0 = _WStream(); total = run(None, None, w0)
        for i in pick(total):
            exc = _fault(i + k0); points += 1; w = _WStream()
            try:
                run(i, exc, w); bad.append(dict(kind='fault_swallowed', what='%s: the exception raised by the user representer call %d did not reach the caller' % (be, i), point=i, backend=be))
            except BaseException as e:
                if e is not exc: bad.append(dict(kind='fault_changed', what='%s: the user representer call %d raised the injected exception, the caller got %s: %s' % (be, i, type(e).__name__, str(e)[:60]), point=i, backend=be, exc=type(e).__name__))
            if w.log != w0.log[:len(w.log)]: bad.append(dict(kind='writes_not_prefix', what='%s: writes before the representer fault %d are not a prefix of the fault-free writes' % (be, i), point=i, backend=be))
            if not _ref_ok() or T in Db.yaml_representers: bad.append(dict(kind='not_usable_after', what='%s: library state changed after a failing user representer' % be, point=i, backend=be)); break
    return dict(bad=bad[:5], outcome='ok' if not bad else 'bad', points=points)

HANDLERS.update({'c19': c19})

# ---------------------------------------------------------------------------------------------------------------
# C18: streams are consumed incrementally
# ---------------------------------------------------------------------------------------------------------------
def c18(docs, sizes, binary, api, be, bad_at):
    """docs: list of document texts (each starts with '---'); the stream delivers them under the read schedule.  After the k-th
    document has been delivered at most a fixed number of units beyond its end may have been requested."""
    import yaml
    Lb = _classes(be)[1]
    if Lb is None: return dict(bad=[], outcome='no_c')
    disposed = []
    class L(Lb):
        def dispose(self):
            disposed.append(1)
            return Lb.dispose(self)
    text = ''.join(docs)
    data = text.encode('utf-8') if binary else text
    ends = []; pos = 0
    for d in docs:
        pos += len(d.encode('utf-8')) if binary else len(d)
        ends.append(pos)
    st = _Stream(data, sizes)
    consumed = lambda: len(data) - len(st.d)
    BOUND = (2 * 4096 + 8) if be == "py" else (2 * 16384 + 8)
    bad = []; k = 0; worst = 0
    try:
        if api in ('load_all', 'compose_all'):
            for item in getattr(yaml, api)(st, Loader=L):
                over = consumed() - ends[k] if k < len(ends) else 0
                worst = max(worst, over)
                if over > BOUND and len(data) - ends[k] > BOUND:
                    bad.append(dict(kind='read_ahead', what='%s/%s: when document %d was delivered %d units beyond its end had been consumed (bound %d, %d units follow)' % (be, api, k, over, BOUND, len(data) - ends[k]), backend=be)); break
                k += 1
        else:
            for ev in yaml.parse(st, Loader=L):
                if isinstance(ev, yaml.DocumentEndEvent):
                    over = consumed() - ends[k] if k < len(ends) else 0
                    worst = max(worst, over)
                    if over > BOUND + 4096 and len(data) - ends[k] > BOUND + 4096:
                        bad.append(dict(kind='read_ahead', what='%s/parse: at the end event of document %d, %d units beyond its end had been consumed' % (be, k, over), backend=be)); break
                    k += 1
        outcome = 'ok'
    except yaml.YAMLError as e:
        outcome = type(e).__name__
        if bad_at is not None and k < bad_at:
            bad.append(dict(kind='not_delivered_before_error', what='%s/%s: the error of malformed document %d was raised after only %d of the %d preceding documents were delivered' % (be, api, bad_at, k, bad_at), backend=be))
        if bad_at is None: bad.append(dict(kind='unexpected_error', what='%s/%s raised %s on a well-formed stream' % (be, api, type(e).__name__), backend=be, exc=type(e).__name__))
    except Exception as e:
        return dict(bad=[dict(kind='non_yaml_exception', what='%s/%s raised %s' % (be, api, type(e).__name__), exc=type(e).__name__, backend=be)], outcome='crash')
    if bad_at is not None and outcome == 'ok': bad.append(dict(kind='malformed_accepted', what='the malformed document %d did not raise' % bad_at, backend=be))
    # abandoning the iteration releases the loader
    if api == 'load_all' and len(docs) >= 2 and bad_at is None:
        disposed[:] = []
        g = yaml.load_all(_Stream(data, sizes), Loader=L)
        next(g); g.close()
        if not disposed: bad.append(dict(kind='not_released', what='%s: closing the load_all generator after one document did not dispose the loader' % be, backend=be))
        # ... and nothing keeps the loader or the caller's stream alive afterwards
        import weakref, gc
        refs = {}
        class L2(Lb):
            def __init__(self, stream):
                Lb.__init__(self, stream); refs['loader'] = weakref.ref(self)
        for api2 in ('load_all', 'compose_all'):
            refs.clear()
            st2 = _Stream(data, sizes); refs['stream'] = weakref.ref(st2)
            was_enabled = gc.isenabled(); gc.disable()
            try:
                g = getattr(yaml, api2)(st2, Loader=L2)
                next(g); g.close(); del g
                # dispose() must have cut the loader's references to itself (the parser's state is a bound method): without a run of the cyclic
                # collector the loader goes away with its last outside reference
                if be == 'py' and 'loader' in refs and refs['loader']() is not None:
                    bad.append(dict(kind='kept_alive', what='%s/%s: after the abandoned iteration the loader is still alive although nothing refers to it any more (only a run of the cyclic garbage collector would free it: dispose() left a reference cycle)' % (be, api2), backend=be)); break
            finally:
                if was_enabled: gc.enable()
            del st2
            gc.collect()
            alive = [n for n in ('loader', 'stream') if n in refs and refs[n]() is not None]
            if alive:
                bad.append(dict(kind='kept_alive', what='%s/%s: after the abandoned iteration and a full gc pass the %s still alive' % (be, api2, ' and the '.join(alive) + (' are' if len(alive) > 1 else ' is')), backend=be)); break
    return dict(bad=bad, outcome=outcome, worst=worst)

HANDLERS.update({'c18': c18})

# ---------------------------------------------------------------------------------------------------------------
# C20: work grows linearly (interpreter-level function calls, sys.setprofile)
# ---------------------------------------------------------------------------------------------------------------
def _count_calls(fn):
    cnt = [0]
    def prof(frame, ev, arg):
        if ev == 'call' or ev == 'c_call': cnt[0] += 1          # Python-level and builtin-level calls alike
    sys.setprofile(prof)
    try: fn()
    finally: sys.setprofile(None)
    return cnt[0]

def c20(side, family, n, opts):
    import yaml
    from tools import catalogue
    sys.setrecursionlimit(20000)
    counts = []; sizes = []
    for k in (n, 2 * n, 4 * n):
        try:
            if side == 'custom':
                from tools import c11custom as CC
                kind, cname, fn = catalogue.CUSTOM[family]; C = CC.classes('py')[cname]
                if kind == 'load':
                    text = fn(k); sizes.append(len(text))
                    counts.append(_count_calls(lambda: list(yaml.load_all(text, Loader=C))))
                elif kind == 'dump':
                    v = fn(k); out = []
                    counts.append(_count_calls(lambda: out.append(yaml.dump(v, Dumper=C, **(opts or {})))))
                    sizes.append(len(out[0]))
                elif kind == 'calls':
                    doc = '- foo\n- far\n- 1x\n- nab\n- ${HOME}\n'; sizes.append(k * len(doc))
                    counts.append(_count_calls(lambda: [yaml.load(doc, Loader=C) for _ in range(k)]))
                else:
                    objs = [CC.Sub(1), CC.Sub(2)]; out = []
                    counts.append(_count_calls(lambda: [out.append(yaml.dump(objs, Dumper=C)) for _ in range(k)]))
                    sizes.append(sum(len(x) for x in out))
            elif side == 'load':
                text = catalogue.LOAD[family](k); sizes.append(len(text))
                counts.append(_count_calls(lambda: list(yaml.safe_load_all(text))))
            else:
                v = catalogue.DUMP[family](k); out = []
                counts.append(_count_calls(lambda: out.append(yaml.safe_dump(v, **(opts or {})))))
                sizes.append(len(out[0]))
        except Exception as e:
            return dict(bad=[dict(kind='family_fails', what='%s family %s at size %d raised %s: %s' % (side, family, k, type(e).__name__, str(e)[:80]), exc=type(e).__name__)], outcome='error')
    bad = []
    # size = length of the document read / written (a family's text may grow faster than its parameter, e.g. nested indentation);
    # work may grow at most in proportion to the size: 15% tolerance (+400 calls) at BOTH doublings, 30% at any single one.
    # (A one-off change of regime - e.g. the scanner stops looking ahead for a simple key after 1024 characters and then pays a
    # constant factor more per token - shows as one doubling slightly above 2 followed by one at 2; growth that is really
    # super-linear exceeds the tolerance at both doublings, or grossly at one.)
    over = []
    for j in (0, 1):
        a, b2 = counts[j], counts[j + 1]; sa, sb = max(sizes[j], 1), max(sizes[j + 1], 1)
        over.append((b2 * sa * 100 > 115 * a * sb + 40000 * sa, b2 * sa * 100 > 130 * a * sb + 40000 * sa, b2 * sa * 100 > 108 * a * sb + 40000 * sa, (b2 * sa) / max(a * sb, 1)))
    # ... or a growth that accelerates: 8% at the first doubling, more than that and more than 15% at the second (a quadratic term with a small coefficient)
    accelerating = over[0][2] and over[1][0] and over[1][3] > over[0][3]
    if (over[0][0] and over[1][0]) or over[0][1] or over[1][1] or accelerating:
        j = 0 if (over[0][1] or not over[1][1]) else 1
        a, b2 = counts[j], counts[j + 1]; sa, sb = max(sizes[j], 1), max(sizes[j + 1], 1)
        bad.append(dict(kind='superlinear', what='%s family %s: %d calls for %d characters but %d calls for %d characters (calls per character grow by more than 15%% at both doublings, 30%% at one, or 8%% then more than 15%% accelerating; counts %s for sizes %s)' % (side, family, a, sa, b2, sb, counts, sizes), counts=counts, sizes=sizes))
    return dict(bad=bad, outcome='ok' if not bad else 'superlinear', counts=counts, sizes=sizes)

def c20prof(text):
    """calls of the four reader primitives while yaml.scan runs (for the cost correspondence with Model/CostScan.v)"""
    import yaml
    names = ('peek', 'prefix', 'forward', 'get_mark'); c = dict.fromkeys(names, 0)
    def prof(frame, ev, arg):
        if ev == 'call':
            nm = frame.f_code.co_name
            if nm in c and frame.f_code.co_filename.endswith('reader.py'): c[nm] += 1
    toks = 0; st = 'ok'
    sys.setprofile(prof)
    try:
        for t in yaml.scan(text): toks += 1
    except yaml.YAMLError: st = 'err'
    except Exception: st = 'crash'
    finally: sys.setprofile(None)
    return dict(bad=[], outcome=st, tokens=toks, counts=[c[n] for n in names])

HANDLERS.update({'c20': c20, 'c20prof': c20prof})

# ---------------------------------------------------------------------------------------------------------------
# C17: objects survive dump / unsafe load as they survive pickle protocol 2
# ---------------------------------------------------------------------------------------------------------------
def c17(seed, depth, cycle, be):
    import yaml, pickle, random
    from tools import c17classes as K
    rng = random.Random(seed)
    pool = []
    obj = K.build(rng, depth, pool)
    ckind = None
    if cycle: obj, ckind = K.add_cycle(rng, obj, pool)
    D = yaml.Dumper if be == 'py' else getattr(yaml, 'CDumper', None)
    UL = yaml.UnsafeLoader if be == 'py' else getattr(yaml, 'CUnsafeLoader', None)
    if D is None: return dict(bad=[], outcome='no_c')
    try: pk = pickle.loads(pickle.dumps(obj, 2)); want = K.canon(pk)
    except Exception as e: return dict(bad=[], outcome='unpicklable')
    bad = []
    try: text = yaml.dump(obj, Dumper=D)
    except Exception as e:
        return dict(bad=[dict(kind='dump_raises', what='yaml.dump of a picklable graph raised %s: %s' % (type(e).__name__, str(e)[:80]), exc=type(e).__name__, backend=be, cycle=ckind)], outcome='dump_raises')
    try:
        back = yaml.load(text, Loader=UL); got = K.canon(back); outcome = 'ok'
    except yaml.constructor.ConstructorError as e:
        outcome = 'ConstructorError'; got = None
        if ckind not in ('reduce_state', 'reduce_items'):
            bad.append(dict(kind='rejected', what='unsafe_load rejects the dump of a graph pickle rebuilds (%s)' % str(e)[:100].replace('\n', ' '), text=text[:1500], backend=be, cycle=ckind))
    except Exception as e:
        return dict(bad=[dict(kind='load_raises', what='unsafe_load raised %s: %s' % (type(e).__name__, str(e)[:80]), exc=type(e).__name__, text=text[:1500], backend=be, cycle=ckind)], outcome='load_raises')
    if got is not None and ckind in ('reduce_state', 'reduce_items') and got != want:
        bad.append(dict(kind='cycle_misbuilt', what='a cycle through the state/items of a reduce tuple was neither rejected nor rebuilt as pickle does', text=text[:1500], backend=be, cycle=ckind))
    elif got is not None and got != want:
        k = 0
        while k < min(len(got), len(want)) and got[k] == want[k]: k += 1
        bad.append(dict(kind='rebuild_differs', what='YAML rebuilds %r where pickle protocol 2 rebuilds %r' % (got[max(0, k - 40):k + 60], want[max(0, k - 40):k + 60]), text=text[:1500], backend=be, cycle=ckind))
    # the full loader accepts exactly the tuple / complex / name subset
    FL = yaml.FullLoader if be == 'py' else getattr(yaml, 'CFullLoader', None)
    needs_unsafe = any(t in text for t in ('python/object', 'python/module'))
    try:
        fb = yaml.load(text, Loader=FL)
        if needs_unsafe: bad.append(dict(kind='full_accepts_object', what='the full loader accepted a document with object-construction tags', text=text[:1500], backend=be))
        elif K.canon(fb) != want: bad.append(dict(kind='full_differs', what='the full loader rebuilds a tuple/complex/name document differently', text=text[:1500], backend=be))
    except yaml.YAMLError as e:
        if not needs_unsafe and ckind != 'args': bad.append(dict(kind='full_rejects_subset', what='the full loader rejects a document of the tuple/complex/name subset: %s' % str(e)[:100].replace('\n', ' '), text=text[:1500], backend=be))
    except Exception as e:
        bad.append(dict(kind='load_raises', what='full loader raised %s' % type(e).__name__, exc=type(e).__name__, text=text[:1500], backend=be))
    return dict(bad=bad, outcome=outcome, cycle=ckind)

def c17special(name, be):
    """the two shapes where the YAML rebuild is known to differ from pickle (kept as known findings)"""
    import yaml, pickle
    from tools import c17classes as K
    if name == 'limitlist':
        o = K.LimitList(); o.extend([1, 2, 3, 4]); o.limit = 2
    elif name in ('copyreg_handle', 'copyreg_shared', 're_pattern', 're_pattern_bytes'):
        # objects reduced through copyreg.dispatch_table: pickle consults it before __reduce_ex__
        import re as _re
        o = K.dispatch_table_objects()[name]
        show = lambda x: K.canon(x) if not name.startswith('re_') else repr([(p.pattern, p.flags) for p in (x if isinstance(x, list) else [x])])
        D = yaml.Dumper if be == 'py' else yaml.CDumper; UL = yaml.UnsafeLoader if be == 'py' else yaml.CUnsafeLoader
        want = show(pickle.loads(pickle.dumps(o, 2)))
        try: text = yaml.dump(o, Dumper=D)
        except Exception as e: return dict(bad=[dict(kind='dump_raises', what='yaml.dump of a picklable object (reduced through copyreg.dispatch_table) raised %s: %s' % (type(e).__name__, str(e)[:80]), exc=type(e).__name__, backend=be, special=name)], outcome='dump_raises')
        try: got = show(yaml.load(text, Loader=UL))
        except Exception as e: return dict(bad=[dict(kind='load_raises', what='unsafe_load raised %s: %s' % (type(e).__name__, str(e)[:80]), exc=type(e).__name__, text=text[:600], backend=be, special=name)], outcome='load_raises')
        bad = []
        if got != want: bad.append(dict(kind='rebuild_differs', what='YAML rebuilds %r where pickle protocol 2 rebuilds %r' % (got[:160], want[:160]), text=text[:600], backend=be, special=name))
        return dict(bad=bad, outcome='ok' if not bad else 'differs')
    else: o = K.GetSetFalsy()
    D = yaml.Dumper if be == 'py' else yaml.CDumper; UL = yaml.UnsafeLoader if be == 'py' else yaml.CUnsafeLoader
    want = K.canon(pickle.loads(pickle.dumps(o, 2))); text = yaml.dump(o, Dumper=D)
    got = K.canon(yaml.load(text, Loader=UL))
    bad = []
    if got != want: bad.append(dict(kind='rebuild_differs', what='YAML rebuilds %r where pickle protocol 2 rebuilds %r' % (got[:120], want[:120]), text=text[:600], backend=be, special=name))
    return dict(bad=bad, outcome='ok' if not bad else 'differs')

HANDLERS.update({'c17': c17, 'c17special': c17special})

def c17probe(shape, be):
    """protocol calls observed while YAML and pickle-2 rebuild an instrumented object with the given reduce tuple"""
    import yaml, pickle
    from tools import c17classes as K
    K.Probe.shape = tuple(shape)
    D = yaml.Dumper if be == 'py' else yaml.CDumper; UL = yaml.UnsafeLoader if be == 'py' else yaml.CUnsafeLoader
    K.LOG[:] = []; o = K.Probe()
    K.LOG[:] = []
    try: data = pickle.dumps(o, 2); K.LOG[:] = []; pickle.loads(data); plog = K.probe_ops(list(K.LOG))
    except Exception as e: return dict(bad=[], outcome='unpicklable ' + type(e).__name__)
    K.LOG[:] = []
    try: text = yaml.dump(o, Dumper=D); K.LOG[:] = []; yaml.load(text, Loader=UL); ylog = K.probe_ops(list(K.LOG))
    except Exception as e: return dict(bad=[], outcome='yaml_raises ' + type(e).__name__, pickle=plog)
    return dict(bad=[], outcome='ok', yaml=ylog, pickle=plog, text=text[:300])
HANDLERS.update({'c17probe': c17probe})

def c17state(cname, sname, be):
    """how YAML and pickle-2 apply a state of the given shape to an instance of the given kind (operations of coq/Model/PickleState.v)"""
    import yaml, pickle
    from tools import c17classes as K
    C = K.STATE_CLASSES[cname]; C.STATE = K.STATE_SHAPES[sname]
    D = yaml.Dumper if be == 'py' else yaml.CDumper; UL = yaml.UnsafeLoader if be == 'py' else yaml.CUnsafeLoader
    o = C.__new__(C)
    try: data = pickle.dumps(o, 2); text = yaml.dump(o, Dumper=D)
    except Exception as e: return dict(bad=[], outcome='dump_raises ' + type(e).__name__)
    p = K.observe_state(lambda: pickle.loads(data))
    try: y = K.observe_state(lambda: yaml.load(text, Loader=UL))
    except Exception as e: return dict(bad=[], outcome='ok', pickle=p, yaml=['Raised ' + type(e).__name__], text=text[:300], has_dict=hasattr(o, '__dict__'), has_setstate=hasattr(C, '__setstate__'))
    return dict(bad=[], outcome='ok', pickle=p, yaml=y, text=text[:300], has_dict=hasattr(o, '__dict__'), has_setstate=hasattr(C, '__setstate__'))
HANDLERS.update({'c17state': c17state})

# ---------------------------------------------------------------------------------------------------------------
# C06: the LibYAML back-end is a drop-in replacement
# ---------------------------------------------------------------------------------------------------------------
def _ev_sig(e):
    import yaml
    n = type(e).__name__
    if isinstance(e, yaml.DocumentStartEvent): return (n, bool(e.explicit), tuple(e.version) if e.version else None, tuple(sorted((e.tags or {}).items())))
    if isinstance(e, yaml.DocumentEndEvent): return (n, bool(e.explicit))
    if isinstance(e, yaml.AliasEvent): return (n, e.anchor)
    if isinstance(e, yaml.ScalarEvent): return (n, e.anchor, e.tag, tuple(e.implicit), e.value, e.style or None)
    if isinstance(e, (yaml.SequenceStartEvent, yaml.MappingStartEvent)): return (n, e.anchor, e.tag, bool(e.implicit), bool(e.flow_style))
    return (n,)
def _node_sig(n, seen):
    import yaml
    if n is None: return None
    if id(n) in seen: return ('ref', seen[id(n)])
    seen[id(n)] = len(seen)
    if isinstance(n, yaml.ScalarNode): return ('s', n.tag, n.value)
    if isinstance(n, yaml.SequenceNode): return ('q', n.tag, tuple(_node_sig(x, seen) for x in n.value))
    return ('m', n.tag, tuple((_node_sig(k, seen), _node_sig(v, seen)) for k, v in n.value))

def c06(text, pair, single, strict_errors=False):
    """Python vs LibYAML loader of one pair (Base/Safe/Full/Unsafe): events, node graphs, objects, error class"""
    import yaml
    from tools.values import show
    from tools import c17classes
    P = getattr(yaml, pair + 'Loader' if pair != 'Unsafe' else 'UnsafeLoader'); C = getattr(yaml, 'C' + pair + 'Loader' if pair != 'Unsafe' else 'CUnsafeLoader', None)
    if C is None: return dict(bad=[], outcome='no_c')
    def run(L):
        out = {}
        for name, f in (('events', lambda: [_ev_sig(e) for e in yaml.parse(text, Loader=L)]),
                        ('nodes', lambda: [_node_sig(n, {}) for n in yaml.compose_all(text, Loader=L)]),
                        ('objects', lambda: ([show(yaml.load(text, Loader=L))] if single else [show(d) for d in yaml.load_all(text, Loader=L)]))):
            try: out[name] = ('ok', f())
            except yaml.YAMLError as e: out[name] = ('error', type(e).__name__)
            except RecursionError: out[name] = ('error', 'RecursionError')
            except Exception as e: out[name] = ('error', 'NONYAML ' + type(e).__name__)
        return out
    a = run(P); b = run(C); bad = []
    for name in ('events', 'nodes', 'objects'):
        if a[name] != b[name]:
            x, y = a[name], b[name]
            if x[0] == 'error' and y[0] == 'error' and not strict_errors: continue      # which of several errors is met first is not compared; the class is, on the targeted malformed inputs
            if x[0] == 'ok' and y[0] == 'ok':
                k = 0
                while k < min(len(x[1]), len(y[1])) and x[1][k] == y[1][k]: k += 1
                d = '%s item %d: %r vs %r' % (name, k, (list(x[1]) + ['<end>'])[k], (list(y[1]) + ['<end>'])[k])
            else: d = '%s: %r vs %r' % (name, x if x[0] == 'error' else 'ok', y if y[0] == 'error' else 'ok')
            bad.append(dict(kind='backends_differ_' + name, what='%sLoader vs C%sLoader: %s' % (pair, pair, d[:300]), pair=pair, py=(x[1] if x[0] == 'error' else 'ok'), c=(y[1] if y[0] == 'error' else 'ok'))); break
    return dict(bad=bad, outcome=a['objects'][0] + ('' if a['objects'][0] == 'ok' else ' ' + str(a['objects'][1])))

def c06d(enc, opts):
    """what either dumper writes is read identically by both loaders"""
    import yaml
    from tools.values import decode, show
    if not hasattr(yaml, 'CSafeDumper'): return dict(bad=[], outcome='no_c')
    v = decode(enc); o = _dump_opts(opts); bad = []
    for D in (yaml.SafeDumper, yaml.CSafeDumper):
        try: text = yaml.dump(v, Dumper=D, **o)
        except Exception as e: continue
        res = []
        for L in (yaml.SafeLoader, yaml.CSafeLoader):
            try: res.append(('ok', show(yaml.load(text, Loader=L), bool(o.get('sort_keys', True)))))
            except yaml.YAMLError as e: res.append(('error', type(e).__name__))
            except Exception as e: res.append(('error', 'NONYAML ' + type(e).__name__))
        if res[0] != res[1]:
            t = text if isinstance(text, str) else text.decode(o['encoding'], 'replace')
            bad.append(dict(kind='dump_read_differently', what='output of %s is read as %s by SafeLoader and %s by CSafeLoader' % (D.__name__, str(res[0])[:100], str(res[1])[:100]), text=t[:3000], dumper=('py' if D is yaml.SafeDumper else 'c'))); break
    return dict(bad=bad, outcome='ok' if not bad else 'bad')

HANDLERS.update({'c06': c06, 'c06d': c06d})

def handle(case):
    return HANDLERS[case[0]](*case[1:])

if __name__ == '__main__' and '--worker' in sys.argv:
    worker_main(handle, dict_results=True)
