"""C08 direct predicate on the implementation: typing of plain/quoted scalars against the frozen YAML 1.1 reference."""
import sys, math, datetime
from .base import *

def _float_close(v, fr):
    """v (a float) is the correctly rounded value of the exact rational fr up to 1e-12 relative (the code adds sexagesimal parts in float arithmetic)"""
    try: w = float(fr)
    except OverflowError: w = float('inf') if fr > 0 else float('-inf')
    if v != v: return False
    if w in (float('inf'), float('-inf')) or v in (float('inf'), float('-inf')): return v == w
    return abs(v - w) <= 1e-12 * max(abs(w), 1e-300)
TYPES = {'null': type(None), 'bool': bool, 'int': int, 'float': float, 'timestamp': (datetime.date, datetime.datetime), 'str': str}
def run_impl_case(case):
    import yaml
    from tools import spec11
    from tools.values import decode, show
    bad = []
    if isinstance(case, list) and case[0] == 'dump':
        v = decode(case[1])
        # the scalar alone and inside block / flow sequences and mappings (value and key position): the style the emitter may
        # use differs per context (a ':' or ',' is an indicator only inside flow collections), the value read back must not
        WRAPS = [('root', lambda x: x, {}), ('block item', lambda x: [x, [x]], dict(default_flow_style=False)), ('flow item', lambda x: [x, x], dict(default_flow_style=True)),
                 ('leaf-flow value', lambda x: {'k': x, 'm': {'n': x}}, {}), ('flow value', lambda x: {'k': x}, dict(default_flow_style=True)),
                 ('flow key', lambda x: {x: 1}, dict(default_flow_style=True)), ('block key', lambda x: {x: [1]}, dict(default_flow_style=False))]
        for D, L in ((yaml.SafeDumper, yaml.SafeLoader), (yaml.CSafeDumper, yaml.CSafeLoader), (yaml.SafeDumper, yaml.CSafeLoader)):
            for wname, wrap, opts in WRAPS:
                try: w = wrap(v)
                except TypeError: continue
                if v != v and wname.endswith('key'): continue                     # nan keys are compared by identity
                try:
                    text = yaml.dump(w, Dumper=D, **opts)
                except Exception as e:
                    bad.append(dict(kind='dump_raises', what='safe_dump of a safe-universe scalar (%s) raised %s' % (wname, type(e).__name__), exc=type(e).__name__, dumper=D.__name__)); break
                try:
                    back = yaml.load(text, Loader=L)
                except Exception as e:
                    bad.append(dict(kind='dump_unreadable', what='a dumped scalar (%s) is not read back (%s)' % (wname, type(e).__name__), exc=type(e).__name__, text=text, dumper=D.__name__, loader=L.__name__)); break
                same = show(back, ident=False) == show(w, ident=False)
                if not same and wname == 'root' and isinstance(v, datetime.datetime) and isinstance(back, datetime.datetime) and v == back and (v.utcoffset() == back.utcoffset()): same = True
                if not same:
                    bad.append(dict(kind='dump_changes_value', what='a dumped scalar (%s) reads back as a different value' % wname, text=text, got=show(back, ident=False)[:100], dumper=D.__name__, loader=L.__name__)); break
        return dict(bad=bad)
    if isinstance(case, list) and case[0] == 'empty':
        # empty plain scalars (with and without node properties) are typed by the same rules: '' is a null unless a tag says otherwise
        text, expected = case[1], case[2]
        for L in (yaml.SafeLoader, yaml.CSafeLoader):
            try: got = repr(yaml.load(text, Loader=L))
            except Exception as e: got = 'EXC ' + type(e).__name__
            if got != expected:
                bad.append(dict(kind='empty_scalar_value', what='%s: %r loads as %s, the YAML 1.1 rules give %s' % (L.__name__, text, got[:80], expected[:80]), loader=L.__name__))
        return dict(bad=bad)
    if isinstance(case, list) and case[0] == 'hist':
        # history probe: once per worker, subclasses of the stock loader / dumper register implicit resolvers of their own (a
        # YAML 1.2 style float, on first characters the stock table already has; a wildcard one); the STOCK classes must go on
        # typing every text by the YAML 1.1 rules
        if not getattr(run_impl_case, '_hist', False):
            import re as _re
            class L2(yaml.SafeLoader): pass
            class D2(yaml.SafeDumper): pass
            for C in (L2, D2):
                C.add_implicit_resolver('tag:yaml.org,2002:float', _re.compile(r'^[-+]?[0-9]+[eE][-+]?[0-9]+$'), list('-+0123456789'))
                C.add_implicit_resolver('!any', _re.compile(r'^anything$'), None)
            yaml.add_implicit_resolver('!x', _re.compile(r'^xx$'), ['x'], Loader=L2, Dumper=D2)
            run_impl_case._hist = True
        case = case[1]
    s = case
    exp = spec11.spec_tag(s)
    short = exp.rsplit(':', 1)[1]
    for L in (yaml.SafeLoader, yaml.CSafeLoader):
        # plain: the composer's tag must be the reference tag
        if s.strip(' ') == s and s != '' and not s.startswith(('- ', '? ', ': ', '#', '%', '@', '`', '|', '>', '[', ']', '{', '}', ',', '!', '&', '*', "'", '"')) and ' #' not in s and ': ' not in s and not s.endswith(':') and s not in ('-', '?', ':', '---', '...'):
            doc = '- ' + s + '\n'
            try:
                node = yaml.compose(doc, Loader=L)
            except yaml.YAMLError:
                node = None
            if node is not None and isinstance(node, yaml.SequenceNode) and len(node.value) == 1 and isinstance(node.value[0], yaml.ScalarNode) and node.value[0].value == s:
                tag = node.value[0].tag
                if tag != exp:
                    bad.append(dict(kind='plain_tag', what='plain scalar typed %s, the YAML 1.1 rules say %s' % (tag, exp), loader=L.__name__))
                elif short in TYPES:
                    try:
                        v = yaml.load(doc, Loader=L)[0]
                        if not isinstance(v, TYPES[short]) or (short == 'int' and isinstance(v, bool)):
                            bad.append(dict(kind='plain_value_type', what='plain %s constructed as %s' % (short, type(v).__name__), loader=L.__name__))
                        elif short == 'int' and v != spec11.yaml11_int(s):
                            bad.append(dict(kind='int_value', what='int text constructed as %r, the rules give %r' % (v, spec11.yaml11_int(s)), loader=L.__name__))
                        elif short == 'float' and spec11.yaml11_float(s) is not None and not _float_close(v, spec11.yaml11_float(s)):
                            bad.append(dict(kind='float_value', what='float text constructed as %r, the rules give %s' % (v, float(spec11.yaml11_float(s))), loader=L.__name__))
                        elif short == 'float' and spec11.yaml11_float(s) is None and not (v != v or abs(v) == float('inf')):
                            bad.append(dict(kind='float_value', what='special float text constructed as %r' % v, loader=L.__name__))
                        elif short == 'float' and s.replace('_', '').lower().lstrip('+-') == '.inf' and (v > 0) != (not s.startswith('-')):
                            bad.append(dict(kind='float_value', what='signed infinity constructed as %r' % v, loader=L.__name__))
                        elif short == 'timestamp' and spec11.yaml11_timestamp(s) is not None and (type(v) is not type(spec11.yaml11_timestamp(s)) or v != spec11.yaml11_timestamp(s)
                                                                                                  or (isinstance(v, datetime.datetime) and (v.utcoffset() != spec11.yaml11_timestamp(s).utcoffset() or v.microsecond != spec11.yaml11_timestamp(s).microsecond))):
                            bad.append(dict(kind='timestamp_value', what='timestamp text constructed as %r, the rules give %r' % (v, spec11.yaml11_timestamp(s)), loader=L.__name__))
                        elif short == 'bool' and v != (s.lower() in ('yes', 'true', 'on')):
                            bad.append(dict(kind='bool_value', what='bool text constructed as %r' % v, loader=L.__name__))
                    except yaml.YAMLError as e:
                        bad.append(dict(kind='plain_rejected', what='a plain %s is rejected with %s' % (short, type(e).__name__), exc=type(e).__name__, loader=L.__name__))
                    except Exception as e:
                        bad.append(dict(kind='converter_crash', what='constructing a plain %s raises %s' % (short, type(e).__name__), exc=type(e).__name__, loader=L.__name__))
        # quoted: always str
        if '\\' not in s and '"' not in s:
            try:
                v = yaml.load('- "' + s + '"\n', Loader=L)[0]
                if type(v) is not str or v != s:
                    bad.append(dict(kind='quoted_not_str', what='a double-quoted scalar is constructed as %s' % type(v).__name__, loader=L.__name__))
            except yaml.YAMLError:
                pass
    # dump side: a str that looks like another type is written so that it reads back as the same str
    for D in (yaml.SafeDumper, yaml.CSafeDumper):
        for w, opts in (([s], {}), ([s, s], dict(default_flow_style=True)), ({'k': s}, dict(default_flow_style=True)), ({s: 1}, {}), ({s: 1}, dict(default_flow_style=True))):
            try:
                text = yaml.dump(w, Dumper=D, **opts)
                back = yaml.load(text, Loader=yaml.SafeLoader)
                if back != w or any(type(x) is not str for x in (back if isinstance(back, list) else list(back) + [v for v in back.values() if not isinstance(v, int)])):
                    bad.append(dict(kind='lookalike_not_quoted', what='str %r dumps to %r which reads back as %r' % (s, text, back), dumper=D.__name__)); break
            except Exception as e:
                bad.append(dict(kind='lookalike_dump_fails', what='dump/load of a str raised %s' % type(e).__name__, exc=type(e).__name__, dumper=D.__name__)); break
    return dict(bad=bad)

if __name__ == '__main__' and '--worker' in sys.argv:
    worker_main(run_impl_case, dict_results=True)
