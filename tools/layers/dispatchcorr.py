"""dispatch layer: the tag dispatch of BaseConstructor.construct_object ALONE.  The real construct_object runs on a fresh
constructor subclass whose yaml_constructors / yaml_multi_constructors are synthetic tables of recording handlers (insertion
order given by the case), on a node of a given tag and kind; observed = (name of the handler that was called, tag suffix it
received or None).  Model/Dispatch.v `dispatch` / `dispatch_suffix` are evaluated by vm_compute on the same tables.  This is the
behavioural tie of the model the C01/C04 closure theorems are stated on (the syntactic tie is gen_calls' frozen normal form)."""
import sys, os, re, subprocess
from .base import *

KINDS = {'scalar': 'construct_scalar', 'sequence': 'construct_sequence', 'mapping': 'construct_mapping'}

def run_impl_case(case):
    import yaml
    from yaml import constructor as C, nodes as N
    calls = []
    def handler(name, multi):
        if multi:
            def h(self, suffix, node): calls.append([name, suffix]); return name
        else:
            def h(self, node): calls.append([name, None]); return name
        return h
    class K(C.BaseConstructor):
        yaml_constructors = {}
        yaml_multi_constructors = {}
        def construct_scalar(self, node): calls.append(['construct_scalar', None]); return 's'
        def construct_sequence(self, node, deep=False): calls.append(['construct_sequence', None]); return 'q'
        def construct_mapping(self, node, deep=False): calls.append(['construct_mapping', None]); return 'm'
    for k, name in case['ctors']: K.yaml_constructors[k] = handler(name, False)
    for k, name in case['multi']: K.yaml_multi_constructors[k] = handler(name, True)
    tag = case['tag']
    node = {'scalar': lambda: N.ScalarNode(tag, 'v'), 'sequence': lambda: N.SequenceNode(tag, []), 'mapping': lambda: N.MappingNode(tag, [])}[case['kind']]()
    try:
        K().construct_object(node)
    except Exception as e:
        return ['ERROR %s' % type(e).__name__]
    if len(calls) != 1: return ['CALLS %d' % len(calls)]
    return calls[0]

def cstr(s):
    assert all(32 <= ord(c) < 127 for c in s)
    return '"' + s.replace('"', '""') + '"'
def ckey(k): return 'None' if k is None else '(Some %s)' % cstr(k)
def ctable(rows): return '[' + '; '.join('(%s, [%s])' % (ckey(k), cstr(v)) for k, v in rows) + ']'
def copt(v): return 'None' if v is None else '(Some %s)' % cstr(v)

HEAD = '''From Coq Require Import List String Bool.
Import ListNotations.
From YV Require Import Registry Dispatch.
Open Scope string_scope.
Definition oeq (a b : option string) : bool := match a, b with None, None => true | Some x, Some y => String.eqb x y | _, _ => false end.
Definition chk (ctors multi : table) (tag kd name : string) (suffix : option string) : bool :=
  String.eqb (dispatch ctors multi tag kd) name && oeq (dispatch_suffix ctors multi tag) suffix.
'''
def write_cases(path, cases, obs):
    out = [HEAD]; names = []
    for i, (c, o) in enumerate(zip(cases, obs)):
        out.append('Definition r%d : bool := chk %s %s %s %s %s %s.' % (i, ctable(c['ctors']), ctable(c['multi']), cstr(c['tag']), cstr(KINDS[c['kind']]), cstr(o[0]), copt(o[1])))
        names.append('r%d' % i)
    out.append('Eval vm_compute in [%s].' % '; '.join(names))
    open(path, 'w').write('\n'.join(out) + '\n')

def eval_cases(cases, obs, workdir, per_file=400):
    """returns (list of bool|None, logs)"""
    from tools import vlib
    from .registry import parse_bools
    os.makedirs(workdir, exist_ok=True)
    for f in os.listdir(workdir): os.remove(os.path.join(workdir, f))
    res = [None] * len(cases); logs = []; procs = []
    for i in range(0, len(cases), per_file):
        p = os.path.join(workdir, 'DispCases%d.v' % (i // per_file)); j = min(len(cases), i + per_file)
        write_cases(p, cases[i:j], obs[i:j])
        procs.append((i, j, subprocess.Popen(['timeout', '600', 'coqc', '-R', vlib.COQ, 'YV', '-w', vlib.COQ_WARN, p], cwd=workdir, stdout=subprocess.PIPE, stderr=subprocess.STDOUT)))
    for i, j, pr in procs:
        out = pr.communicate()[0].decode('utf-8', 'replace')
        bs = parse_bools(out) if pr.returncode == 0 else None
        if bs is None or len(bs) != j - i: logs.append(out[-800:])
        else: res[i:j] = bs
    return res, logs

# ---------------------------------------------------------------------------------------------------------------
POOL = ['', 'a', 'ab', 'abc', 'abcd', 'b', 'ba', '!', '!a', '!ab', 'tag:yaml.org,2002:', 'tag:yaml.org,2002:str', 'tag:yaml.org,2002:map', 'tag:yaml.org,2002:python/',
        'tag:yaml.org,2002:python/object:', 'tag:yaml.org,2002:python/object/apply:', 'tag:yaml.org,2002:python/object/new:', 'tag:yaml.org,2002:python/name:',
        'tag:yaml.org,2002:python/module:', 'tag:yaml.org,2002:python/tuple', 'tag:yaml.org,2002:python/object:os.system', 'tag:yaml.org,2002:python/name:os.path', 'None', 'x y']
def gen_cases(rng, n):
    cases = []
    for _ in range(n):
        def table(prefix, p_none):
            keys = rng.sample(POOL, rng.choice([0, 0, 1, 2, 3, 5, 8]))
            if rng.random() < p_none: keys.insert(rng.randrange(len(keys) + 1), None)
            return [[k, '%s%d' % (prefix, i)] for i, k in enumerate(keys)]
        ctors = table('c', 0.3); multi = table('m', 0.25)
        r = rng.random()
        keys = [k for k, _ in ctors + multi if k is not None]
        if r < 0.3 and keys: tag = rng.choice(keys)
        elif r < 0.5: tag = rng.choice(POOL)
        elif r < 0.85: tag = rng.choice(POOL) + rng.choice(['', 'x', 'os.system', ':', 'a', 'bcd'])
        else: tag = ''.join(rng.choice('ab!:') for _ in range(rng.choice([0, 1, 2, 3, 5])))
        cases.append(dict(ctors=ctors, multi=multi, tag=tag, kind=rng.choice(list(KINDS))))
    return cases

if __name__ == '__main__' and '--worker' in sys.argv:
    worker_main(run_impl_case)
