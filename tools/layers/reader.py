"""reader layer: yaml.reader.Reader driven by a demand script (peek/prefix/forward) over the four input forms and a read
schedule vs Model/Reader.v: every returned character/prefix, (index,line,column,stream_pointer,#reads) after each forward,
ReaderError (position, character, reason)."""
import sys, codecs
from .base import *
REASON = {'invalid start byte': 101, 'invalid continuation byte': 102, 'unexpected end of data': 103, 'illegal encoding': 104, 'illegal UTF-16 surrogate': 105, 'truncated data': 106}
class S:
    """a stream that serves what is asked for (never more), a scheduled size first; the sizes asked are recorded: the model asks
    for one 4096-unit block per refill, an implementation that asks for anything else is reported as outcome AskedSize"""
    def __init__(s, data, sizes): s.d = data; s.sizes = list(sizes); s.n = 0; s.asked = set()
    def read(s, n):
        s.asked.add(n)
        k = s.sizes.pop(0) if s.sizes else n
        k = max(1, min(k, n)); r = s.d[:k]; s.d = s.d[k:]; s.n += 1; return r

def run_impl_case(case):
    from yaml.reader import Reader, ReaderError
    form, payload, sizes, ops = case
    data = ''.join(map(chr, payload)) if form in ('str', 'tstream') else bytes(payload)
    obs = []; st = None
    try:
        if form in ('str', 'bytes'): r = Reader(data); src = None
        else: src = S(data, sizes); r = Reader(src)
        for op, k in ops:
            if op == 0: obs.append('c%d' % ord(r.peek(k)))
            elif op == 1: obs.append('s' + ','.join(str(ord(c)) for c in r.prefix(k)))
            else:
                r.forward(k); obs.append('p%d/%d/%d/%d/%d' % (r.index, r.line, r.column, r.stream_pointer, src.n if src else 0))
        st = 'ok'
        if src is not None and src.asked - {4096}: st = 'AskedSize ' + ','.join(map(str, sorted(src.asked)))
    except ReaderError as e:
        ch = e.character if isinstance(e.character, int) else ord(e.character)
        st = 'ReaderError %d %d %d' % (e.position, ch, REASON.get(e.reason, 0))
    except IndexError: st = 'Crash'
    except Exception as e: st = 'Other ' + type(e).__name__
    return [' '.join(obs) + ' | ' + st]

def model_lines(cases):
    return ['%s %s %s %s' % (form, ','.join(map(str, payload)) or '-', ','.join(map(str, sizes)) or '-', ','.join('%d,%d' % tuple(o) for o in ops)) for form, payload, sizes, ops in cases]

CHARS = list("ab \n\r\x85  é😀﻿\t:-") + ['\x01', '\x7f', '\ud800', '￾']
def gen_case(rng, corpus):
    r = rng.random()
    if r < 0.3: t = rng.choice(corpus)
    elif r < 0.45: t = rng.choice(corpus) * rng.choice([3, 10, 30])
    else: t = ''.join(rng.choice(CHARS[:-4] if rng.random() < 0.8 else CHARS) for _ in range(rng.choice([0, 1, 2, 3, 7, 50, 5000, 9000])))
    form = rng.choice(['str', 'bytes', 'tstream', 'bstream'])
    sizes = rng.choice([[], [1] * 40, [2] * 40, [3, 1, 4096], [4095], [4096, 1], [rng.randint(1, 9) for _ in range(30)], [1] * 3 + [4096]])
    if form in ('str', 'tstream'):
        payload = [ord(c) for c in t]
    else:
        enc = rng.choice(['utf-8', 'utf-8', 'utf-8-sig', 'utf-16-le', 'utf-16-be'])
        try:
            if enc == 'utf-16-le': data = codecs.BOM_UTF16_LE + t.encode('utf-16-le', 'surrogatepass')
            elif enc == 'utf-16-be': data = codecs.BOM_UTF16_BE + t.encode('utf-16-be', 'surrogatepass')
            elif enc == 'utf-8-sig': data = codecs.BOM_UTF8 + t.encode('utf-8', 'surrogatepass')
            else: data = t.encode('utf-8', 'surrogatepass')
        except Exception: return None
        b = bytearray(data)
        for _ in range(rng.choice([0, 0, 0, 1, 2])):
            if not b: break
            i = rng.randrange(len(b)); op = rng.random()
            if op < 0.5: b[i] = rng.choice([0xff, 0x80, 0xc0, 0xe2, 0xed, 0xf0, 0xd8, 0xdc, 0x00, 0xa0])
            elif op < 0.8: del b[i]
            else: b.insert(i, rng.choice([0xff, 0x80, 0xe2, 0xf0, 0xd8, 0x20]))
        payload = list(b)
    ops = []; budget = len(t) + 1 if rng.random() < 0.85 else 10 ** 9; used = 0
    for _ in range(rng.choice([3, 10, 40, 200])):
        op = rng.choice([0, 0, 1, 2, 2, 2]); k = rng.choice([0, 1, 1, 2, 3, 5, 20, 100, 3000, 5000])
        if op == 2:
            if used + k >= budget: k = max(0, min(k, budget - used - 1))
            used += k
        elif op == 0 and used + k >= budget: k = max(0, budget - used - 1)
        ops.append([op, k])
    return [form, payload, sizes, ops]

if __name__ == '__main__' and '--worker' in sys.argv:
    worker_main(run_impl_case)
