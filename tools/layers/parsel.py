"""parsel layer: the parser ALONE.  yaml.parser.Parser driven by a stub token source over a given list of token kinds
vs Model/ParseL.v parse_all on the same token list (the model the parser-safety theorems of C03 are stated on): events with
all attributes and marks, ParserError with marks, and the class of outcome when the token list is not well delimited
(no STREAM-END: `None.start_mark` -> AttributeError in Python, Crash in the model)."""
import sys, re
from .base import *
from .parse import kind

NAMES = ['StreamStart', 'StreamEnd', 'DocumentStart', 'DocumentEnd', 'BlockSequenceStart', 'BlockMappingStart', 'BlockEnd', 'FlowSequenceStart', 'FlowMappingStart',
         'FlowSequenceEnd', 'FlowMappingEnd', 'BlockEntry', 'FlowEntry', 'Key', 'Value', 'Alias', 'Anchor', 'Tag', 'TagSecondary', 'TagUndef', 'TagVerbatim', 'TagBang',
         'Scalar', 'ScalarQuoted', 'Directive', 'DirectiveV2', 'DirectiveTag', 'DirectiveFoo']

def make_tokens(names):
    import yaml
    from yaml import tokens as T
    M = lambda i: yaml.Mark('<stub>', i, 0, i, None, None)
    out = []
    for i, n in enumerate(names):
        s, e = M(i), M(i + 1)
        if n == 'Alias': t = T.AliasToken('a', s, e)
        elif n == 'Anchor': t = T.AnchorToken('a', s, e)
        elif n == 'Tag': t = T.TagToken(('!', 'x'), s, e)
        elif n == 'TagSecondary': t = T.TagToken(('!!', 'str'), s, e)
        elif n == 'TagUndef': t = T.TagToken(('!e!', 'y'), s, e)
        elif n == 'TagVerbatim': t = T.TagToken((None, 'tag:v'), s, e)
        elif n == 'TagBang': t = T.TagToken((None, '!'), s, e)
        elif n == 'Scalar': t = T.ScalarToken('v', True, s, e)
        elif n == 'ScalarQuoted': t = T.ScalarToken('q', False, s, e, style='"')
        elif n == 'Directive': t = T.DirectiveToken('YAML', (1, 1), s, e)
        elif n == 'DirectiveV2': t = T.DirectiveToken('YAML', (2, 0), s, e)
        elif n == 'DirectiveTag': t = T.DirectiveToken('TAG', ('!e!', 'tag:e:'), s, e)
        elif n == 'DirectiveFoo': t = T.DirectiveToken('FOO', None, s, e)
        elif n == 'StreamStart': t = T.StreamStartToken(s, e)
        else: t = getattr(T, n + 'Token')(s, e)
        out.append(t)
    return out

def stub_parser(names):
    import yaml
    toks = make_tokens(names)
    class Src:
        def __init__(self): self.t = list(toks)
        def check_token(self, *choices):
            if self.t:
                if not choices: return True
                for c in choices:
                    if isinstance(self.t[0], c): return True
            return False
        def peek_token(self): return self.t[0] if self.t else None
        def get_token(self): return self.t.pop(0) if self.t else None
    class P(Src, yaml.parser.Parser):
        def __init__(self): Src.__init__(self); yaml.parser.Parser.__init__(self)
    return P()

def run_impl_case(names):
    import yaml
    out = []
    try:
        p = stub_parser(names)
        while p.check_event():
            e = p.get_event(); out.append('E %s | %s | %s' % (kind(e), mark(e.start_mark), mark(e.end_mark)))
        out.append('END ok')
    except yaml.MarkedYAMLError as e:
        out.append('END %s %s | %s' % (type(e).__name__, 'none' if e.context_mark is None else mark(e.context_mark), mark(e.problem_mark)))
    except yaml.YAMLError as e: out.append('END Yaml %s' % type(e).__name__)
    except Exception as e: out.append('END Crash %s' % type(e).__name__)
    return out

def model_lines(cases): return [' '.join(c) for c in cases]
def model_obs(block): return [re.sub(r'^END Crash.*', 'END Crash', x) for x in block]
def impl_obs(obs): return [re.sub(r'^END Crash.*', 'END Crash', x) for x in obs]

if __name__ == '__main__' and '--worker' in sys.argv:
    worker_main(run_impl_case)
