"""resolve layer: the regenerated Coq regexes (derivative matcher, extracted) vs re.match of the live resolver regexes,
Resolver.resolve, the constructor's timestamp_regexp and Reader.NON_PRINTABLE, on the same strings."""
import sys
from .base import *

def live_table():
    import yaml
    seen = []; out = []
    for ch, lst in yaml.resolver.Resolver.yaml_implicit_resolvers.items():
        for tag, rx in lst:
            if id(rx) not in seen: seen.append(id(rx)); out.append((tag, rx))
    return out
_T = None
def run_impl_case(text):
    import yaml
    global _T
    if _T is None:
        _T = (live_table(), yaml.resolver.Resolver())
    table, res = _T
    bits = {tag: ('1' if rx.match(text) else '0') for tag, rx in table}
    ts = '1' if yaml.constructor.SafeConstructor.timestamp_regexp.match(text) else '0'
    np = ''.join('1' if yaml.reader.Reader.NON_PRINTABLE.match(c) else '0' for c in text)
    tag = res.resolve(yaml.ScalarNode, text, (True, False))
    qtag = res.resolve(yaml.ScalarNode, text, (False, True))
    return [bits, ts, np, tag, qtag]

if __name__ == '__main__' and '--worker' in sys.argv:
    worker_main(run_impl_case)
