"""represent+serialize layer: the events a recording SafeDumper's emit() receives for yaml.dump(value, **opts)
vs Model/Represent.v dump_doc."""
import sys
from .base import *

def o2(s):
    from tools.values import cps
    return '-' if s is None else cps(s)
def show(e):
    from tools.values import cps
    n = type(e).__name__
    if n == 'DocumentStartEvent': return 'DS'
    if n == 'DocumentEndEvent': return 'DE'
    if n == 'AliasEvent': return 'AL ' + cps(e.anchor)
    if n == 'ScalarEvent': return 'SC %s %s %s%s %s %s' % (o2(e.anchor), cps(e.tag), b(e.implicit[0]), b(e.implicit[1]), cps(e.value), '-' if e.style is None else ord(e.style))
    if n == 'SequenceStartEvent': return 'QS %s %s %s %s' % (o2(e.anchor), cps(e.tag), b(e.implicit), b(e.flow_style))
    if n == 'SequenceEndEvent': return 'QE'
    if n == 'MappingStartEvent': return 'MS %s %s %s %s' % (o2(e.anchor), cps(e.tag), b(e.implicit), b(e.flow_style))
    if n == 'MappingEndEvent': return 'ME'
    return None

def run_impl_case(case):
    import yaml
    from tools.values import decode, encode
    ds, df, sk, enc = case
    v = decode(enc)
    rec = []
    class Rec(yaml.SafeDumper):
        def emit(self, event): rec.append(event)
    try:
        yaml.dump(v, Dumper=Rec, default_style=ds, default_flow_style=df, sort_keys=sk)
        return [' ; '.join(x for x in map(show, rec) if x), encode(v)]
    except yaml.YAMLError as e: return [type(e).__name__, encode(v)]
    except Exception as e: return [type(e).__name__, encode(v)]

def model_lines(cases):
    return ['%s %s %d %s' % ('-' if ds is None else ord(ds), '-' if df is None else int(df), sk, enc) for ds, df, sk, enc in cases]

if __name__ == '__main__' and '--worker' in sys.argv:
    worker_main(run_impl_case)
