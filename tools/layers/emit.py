"""emit layer: yaml.emit(events, stream, **opts) vs Model/Emit.v emit_all: the exact text written (also what was written
before an error) and the outcome class (OK / EmitterError / the non-YAML exception the real code leaks)."""
import sys
from .base import *

class W:
    def __init__(s): s.c = []
    def write(s, d): s.c.append(d)

def run_impl_case(line):
    import yaml
    from tools.events import dec_case, to_yaml_events
    evs, o = dec_case(line)
    w = W()
    try:
        yaml.emit(to_yaml_events(evs), w, **o); st = 'OK'
    except yaml.emitter.EmitterError: st = 'ERR'
    except yaml.YAMLError as e: st = 'YAML ' + type(e).__name__
    except Exception as e: st = 'CRASH ' + type(e).__name__
    return [','.join(str(ord(c)) for c in ''.join(w.c)) + '|' + st]

if __name__ == '__main__' and '--worker' in sys.argv:
    worker_main(run_impl_case)
