"""Attributes of an already-imported module that C04 documents name with !!python/name: iterator objects of several kinds.  The
full loaders may return them (getattr on an imported module) but must not call, advance or otherwise use them."""
import itertools
class Ticker:
    def __init__(self): self._c04_calls = 0
    def __iter__(self): return self
    def __next__(self):
        self._c04_calls += 1
        return 'ticket-%d' % self._c04_calls
class Lazy:
    """not an iterator: an object with a __call__ and a __getattr__ that record use"""
    def __init__(self): object.__setattr__(self, '_c04_calls', 0)
    def __call__(self, *a, **k): object.__setattr__(self, '_c04_calls', self._c04_calls + 1); return self
ticker = Ticker()
lazy = Lazy()
counter = itertools.count(5)
letters = iter('abc')
mapped = map(str, [1, 2, 3])
def gen():
    yield 1
    yield 2
generator = gen()
