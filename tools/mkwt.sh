#!/bin/sh
# scratch worktree of /repo for seeded-change experiments: mkwt.sh <dir>   (remove with: git -C /repo worktree remove --force <dir>)
set -e
git -C /repo worktree add -q "$1" HEAD
cp /repo/lib/yaml/_yaml*.so "$1/lib/yaml/" 2>/dev/null || true
echo "$1"
