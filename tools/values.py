"""Safe-universe value graphs: generator, the line encoding shared with ocaml/represent_driver.ml (heap cells + root),
its decoder (so implementation workers rebuild the same graph, sharing and cycles included), and the type-strict
canonical form `show` used to compare object graphs (identity numbering, floats bit-exact, sets sorted)."""
import math, datetime, struct

def zb(z):
    if z == 0: return '0'
    return ('-' if z < 0 else '') + bin(abs(z))[2:]
def zs(z):
    if z == 0: return '0'
    return ('-' if z < 0 else '') + 'b' + bin(abs(z))[2:]
def cps(s): return 'e' if len(s) == 0 else ','.join(str(ord(c) if isinstance(c, str) else c) for c in s)
def cps0(s): return ','.join(str(ord(c)) for c in s)

STRS = ['', 'a', 'yes', 'No', '1', '1.5', '1:30', '~', 'null', '<<', '=', '0x1F', '1e3', '.inf', '2001-01-01', 'a b', ' a', 'a\n', 'é', '---', 'x' * 40, '- a', 'k: v', '!t', '&a',
        '*a', '12e03', '1_000', '0b1', '+.5', '08', '2001-12-14 21:59:43.10 -5', 'a\nb', 'a\n\nb ', '\ta', 'a\tb', "it's", '"q"', 'a: b', '# c', 'a #b', '\x85', 'a\x85b', ' ', '﻿',
        'a﻿b', '\x07', '\x1b[0m', '\U0001F600', '퟿', '', '�', ' a a', 'a  b', 'word ' * 20, '...', '%x', '@x', '`x', '[x', '{x', ']', '}', ',', '?', '? x', '-', '- ', ':', 'a:', ':a',
        'tru', 'True', 'OFF', '0o17', '1__0', '._', '.5', '5.', '1e5', '+1', '-0', '0.0', 'nan', '.NaN', 'inf', '1:2:3', '60:00', '2001-1-1', '2001-12-14T21:59:43Z',
        # indicator characters inside a word: only some positions / contexts make them indicators (the dumper's analysis and the scanners of both back-ends must agree)
        # lines of a multi-line string that look like document markers or other structure once the emitter has indented them
        'title\n---\nbody', 'a\n...\nb', 'x\n--- y\nz', 'a\n---', '\n---\n', 'k\n...', 'p\n- q\nr', 'p\n? q\n: r', 'a\n# b\nc', 'a\n%TAG\nb', "it's\n---\nhere", 'a\n --- \nb',
        'a?b', 'what?no', 'x?y=z', 'a,b', 'a[b', 'a]b', 'a{b}', 'a#b', 'a:b', 'a-b', 'a|b', 'a>b', 'a&b', 'a*b', 'a!b', 'a%b', 'a@b', 'a`b', 'x- y', 'x? y', 'http://a.b/c?d=e&f']
def rfloat(rng):
    r = rng.random()
    if r < 0.15: return rng.choice([0.0, -0.0, 1.0, -1.5, 1e16, 1e15, 1e17, 1e-4, 1e-5, 123456789012345680.0, 0.1, 0.2 + 0.1, 1 / 3, 2.5e-324, 1.7976931348623157e308, float('inf'), float('-inf'), float('nan'), 1e22, 1e23, 5e-324, 9007199254740993.0, 0.30000000000000004, 100.0, 1e21, 123e-7])
    if r < 0.6: return struct.unpack('<d', struct.pack('<Q', rng.getrandbits(64)))[0]
    return rng.choice([rng.random(), rng.uniform(-1e6, 1e6), rng.randint(-10 ** 6, 10 ** 6) / rng.choice([1, 2, 4, 8, 10, 100, 1000]), 10.0 ** rng.randint(-30, 30) * rng.random()])
def rdate(rng):
    if rng.random() < 0.3: return datetime.date(2001, 12, 14 + rng.choice([0, 0, 1]))          # a small pool, so that equal dates recur inside one value
    return datetime.date(rng.randint(1, 9999), rng.randint(1, 12), rng.randint(1, 28))
def rdt(rng, odd_tz=True):
    tzs = [None, None, datetime.timezone.utc, datetime.timezone(datetime.timedelta(hours=rng.randint(-12, 12), minutes=rng.choice([0, 30, 45])))]
    if odd_tz: tzs.append(datetime.timezone(datetime.timedelta(seconds=rng.randint(-80000, 80000))))
    return datetime.datetime(rng.randint(1, 9999), rng.randint(1, 12), rng.randint(1, 28), rng.randint(0, 23), rng.randint(0, 59), rng.randint(0, 59), rng.choice([0, 0, 1, 500000, 123456, 999999, rng.randrange(1000000), rng.randrange(1000000), rng.randrange(2000)]), tzinfo=rng.choice(tzs))
def rstr(rng):
    if rng.random() < 0.75: return rng.choice(STRS)
    alpha = "ab \n\n  :-#'\"\\\t\x85  é☺﻿,[]{}&*!|>%@`?0 1.~<=\r"
    return ''.join(rng.choice(alpha) for _ in range(rng.choice([1, 2, 3, 5, 8, 20, 90])))
def leaf(rng, odd_tz=True):
    return rng.choice([lambda: None, lambda: True, lambda: False, lambda: rng.choice([0, 1, -1, 7, 10 ** 20, -10 ** 30, 2 ** 64, 10 ** 300, 10 ** 40, 255]), lambda: rfloat(rng), lambda: rstr(rng), lambda: rstr(rng),
                       lambda: bytes(rng.getrandbits(8) for _ in range(rng.choice([0, 1, 2, 3, 56, 57, 58, 120]))), lambda: rdate(rng), lambda: rdt(rng, odd_tz)])()
def key(rng, odd_tz=True):
    if rng.random() < 0.012: return rng.choice(['', 'k', ' ']) + rng.choice(['\U0001F600', '\U0001F600', '\x07', '\u263a']) * rng.choice([90, 101, 102, 103, 120, 126, 127, 128, 129])   # keys that grow when escaped
    return rng.choice([lambda: rstr(rng), lambda: rstr(rng), lambda: rng.choice([0, 1, 2, -5, 10 ** 20]), lambda: rng.choice([1.5, 2.0, -0.0, 1e300]), lambda: rng.choice([True, False, None]), lambda: rdate(rng), lambda: b'k', lambda: rdt(rng, odd_tz)])()
def build(rng, d, pool, odd_tz=True):
    r = rng.random()
    if pool and r < 0.12: return rng.choice(pool)
    if d <= 0 or r < 0.5: return leaf(rng, odd_tz)
    if r < 0.72:
        l = []; pool.append(l)
        for _ in range(rng.choice([0, 1, 2, 3, 4])): l.append(build(rng, d - 1, pool, odd_tz))
        return l
    if r < 0.93:
        m = {}; pool.append(m)
        for _ in range(rng.choice([0, 1, 2, 3, 4])):
            try: m[key(rng, odd_tz)] = build(rng, d - 1, pool, odd_tz)
            except TypeError: pass
        return m
    s = set()
    for _ in range(rng.choice([0, 1, 2, 3])):
        k = key(rng, odd_tz)
        if k == k:
            try: s.add(k)
            except TypeError: pass
    pool.append(s); return s

def encode(root):
    addr = {}; cells = []
    def val(o):
        if o is None: return 'N'
        if o is True: return 'B1'
        if o is False: return 'B0'
        if isinstance(o, int): return 'I ' + zb(o)
        if isinstance(o, float):
            if o != o: return 'Fnan'
            if o == float('inf'): return 'Finf'
            if o == float('-inf'): return 'F-inf'
            sign = '-' if math.copysign(1, o) < 0 else '+'
            num, den = abs(o).as_integer_ratio(); k = den.bit_length() - 1
            if num == 0: return 'F %s 0 0' % sign
            while num % 2 == 0: num //= 2; k -= 1
            return 'F %s %s %s' % (sign, zb(num), zb(-k))
        if isinstance(o, str): return 'S ' + cps(o)
        if isinstance(o, bytes): return 'Y ' + cps(o)
        if isinstance(o, datetime.datetime):
            off = o.utcoffset()
            return 'T %s %s %s %s %s %s %s %s' % (zb(o.year), zb(o.month), zb(o.day), zb(o.hour), zb(o.minute), zb(o.second), zb(o.microsecond), 'None' if off is None else zb(int(off.total_seconds())))
        if isinstance(o, datetime.date): return 'D %s %s %s' % (zb(o.year), zb(o.month), zb(o.day))
        if id(o) in addr: return 'R %d' % addr[id(o)]
        a = len(cells); addr[id(o)] = a; cells.append(None)
        if isinstance(o, list): c = 'L %d ' % len(o) + ' '.join(val(x) for x in o)
        elif isinstance(o, dict): c = 'M %d ' % len(o) + ' '.join(val(k) + ' ' + val(v) for k, v in o.items())
        else: c = 'E %d ' % len(o) + ' '.join(val(k) for k in o)
        cells[a] = c.strip(); return 'R %d' % a
    r = val(root)
    return ' '.join(cells + ['ROOT', r])

def share_dates(root):
    """the same graph with equal date / datetime leaves (list items, dict values, set members stay as they are) replaced by ONE
    object each: the representer anchors an object that occurs twice unless ignore_aliases says otherwise, and dates are the
    only safe-universe scalars for which it does not."""
    canon = {}; seen = set()
    def c(o):
        if isinstance(o, datetime.date): return canon.setdefault((type(o), o, o.utcoffset() if isinstance(o, datetime.datetime) else None), o)
        return o
    def walk(o):
        if id(o) in seen: return
        seen.add(id(o))
        if isinstance(o, list):
            for i, x in enumerate(o): o[i] = c(x); walk(o[i])
        elif isinstance(o, dict):
            for k in list(o): o[k] = c(o[k]); walk(o[k])
    root = c(root); walk(root); return root

def decode(text):
    """inverse of encode (same sharing / cycles).  Containers are created first, then filled."""
    toks = text.split(' ')
    pos = [0]
    def zi(s):
        if s == '0': return 0
        return -int(s[1:], 2) if s[0] == '-' else int(s, 2)
    def st(s): return '' if s == 'e' else ''.join(chr(int(x)) for x in s.split(','))
    # first pass: cell kinds
    cells = []; specs = []
    def skip_val():
        t = toks[pos[0]]; pos[0] += 1
        if t in ('N', 'B1', 'B0', 'Fnan', 'Finf', 'F-inf'): return (t,)
        n = {'I': 1, 'F': 3, 'S': 1, 'Y': 1, 'D': 3, 'T': 8, 'R': 1}[t]
        v = (t,) + tuple(toks[pos[0]:pos[0] + n]); pos[0] += n; return v
    root = None
    while pos[0] < len(toks):
        t = toks[pos[0]]; pos[0] += 1
        if t == 'ROOT': root = skip_val(); break
        n = int(toks[pos[0]]); pos[0] += 1
        if t == 'L': cells.append([]); specs.append(('L', [skip_val() for _ in range(n)]))
        elif t == 'E': cells.append(set()); specs.append(('E', [skip_val() for _ in range(n)]))
        elif t == 'M': cells.append({}); specs.append(('M', [skip_val() for _ in range(2 * n)]))
    def mk(v):
        t = v[0]
        if t == 'N': return None
        if t == 'B1': return True
        if t == 'B0': return False
        if t == 'I': return zi(v[1])
        if t == 'Fnan': return float('nan')
        if t == 'Finf': return float('inf')
        if t == 'F-inf': return float('-inf')
        if t == 'F':
            m = zi(v[2]); e = zi(v[3]); x = math.ldexp(m, e) if m else 0.0
            return -x if v[1] == '-' else x
        if t == 'S': return st(v[1])
        if t == 'Y': return bytes(int(x) for x in v[1].split(',')) if v[1] != 'e' else b''
        if t == 'D': return datetime.date(zi(v[1]), zi(v[2]), zi(v[3]))
        if t == 'T':
            tz = None if v[8] == 'None' else datetime.timezone(datetime.timedelta(seconds=zi(v[8])))
            return datetime.datetime(zi(v[1]), zi(v[2]), zi(v[3]), zi(v[4]), zi(v[5]), zi(v[6]), zi(v[7]), tzinfo=tz)
        if t == 'R': return cells[int(v[1])]
    for c, (k, vs) in zip(cells, specs):
        if k == 'L': c.extend(mk(v) for v in vs)
        elif k == 'E':
            for v in vs: c.add(mk(v))
        else:
            for i in range(0, len(vs), 2): c[mk(vs[i])] = mk(vs[i + 1])
    return mk(root)

def fl(x):
    if x != x: return 'Fnan'
    if x in (float('inf'), float('-inf')): return 'Finf' if x > 0 else 'F-inf'
    sign = '-' if math.copysign(1, x) < 0 else '+'
    num, den = abs(x).as_integer_ratio(); k = den.bit_length() - 1
    if num == 0: return 'F%s0_0' % sign
    while num % 2 == 0: num //= 2; k -= 1
    return 'F%s%s_%s' % (sign, zs(num), zs(-k))

def show(root, canon=False, ident=True):
    """type-strict canonical text of an object graph with identity numbering (shared by load layer and round trips);
    canon=True lists dict entries sorted by the text of their key (for comparisons that must ignore key order)"""
    seen = {}
    def v(o):
        if o is None: return 'N'
        if o is True: return 'B1'
        if o is False: return 'B0'
        if type(o) is int: return 'I' + zs(o)
        if type(o) is float: return fl(o)
        if type(o) is str: return 'S' + cps0(o)
        if type(o) is bytes: return 'Y' + ','.join(str(b) for b in o)
        if type(o) is datetime.datetime:
            off = o.utcoffset()
            return 'T%s/%s/%s/%s/%s/%s/%s/%s' % (zs(o.year), zs(o.month), zs(o.day), zs(o.hour), zs(o.minute), zs(o.second), zs(o.microsecond), 'None' if off is None else zs(int(off.total_seconds())))
        if type(o) is datetime.date: return 'D%s/%s/%s' % (zs(o.year), zs(o.month), zs(o.day))
        if ident:
            if id(o) in seen: return 'R%d' % seen[id(o)]
            k = len(seen); seen[id(o)] = k
        else: k = 0          # tree form: sharing is not shown (only for acyclic graphs)
        if type(o) is list: body = 'L[' + ';'.join(v(x) for x in o) + ']'
        elif type(o) is dict:
            parts = []
            items = list(o.items())
            if canon:
                try: items.sort(key=lambda kv: show(kv[0], ident=ident))
                except Exception: pass
            for a, b in items:
                ka = v(a); parts.append(ka + '=>' + v(b))
            body = 'M{' + ';'.join(parts) + '}'
        elif type(o) is set: body = 'E{' + ';'.join(sorted(v(x) for x in o)) + '}'
        elif type(o) is tuple and len(o) == 2: x = v(o[0]); body = 'U(' + x + ';' + v(o[1]) + ')'
        elif type(o) is tuple: body = 'TUP(' + ';'.join(v(x) for x in o) + ')'
        elif type(o) is complex: body = 'C(%s;%s)' % (fl(o.real), fl(o.imag))
        else: body = '?' + type(o).__module__ + '.' + type(o).__name__
        return 'R%d=%s' % (k, body)
    return v(root)
