"""Re-run checks against an already confirmed seeded change and refresh its meta.json:  python3 tools/reseed.py <seed-id> <props...>
(applies seeded/<id>/patch.diff to /repo, runs the quick checks, undoes it)."""
import sys, os, subprocess, json, time
sid = sys.argv[1]; run = sys.argv[2:]
V = '/verif'; d = os.path.join(V, 'seeded', sid); mp = os.path.join(d, 'meta.json')
def sh(cmd): return subprocess.run(cmd, shell=True, stdout=subprocess.PIPE, stderr=subprocess.STDOUT)
assert sh('git -C /repo status --porcelain').stdout.decode().strip() == '', '/repo not clean'
r = sh('git -C /repo apply %s' % os.path.join(d, 'patch.diff'))
if r.returncode != 0: print('patch does not apply:', r.stdout.decode()); sys.exit(3)
meta = json.load(open(mp)); results = meta.setdefault('checks', {})
try:
    for p in run:
        t = time.time()
        o = sh('cd %s && ./check %s --tier quick' % (V, p)).stdout.decode()
        viol = [l for l in o.split('\n') if l.startswith('VIOLATION')]; done = [l for l in o.split('\n') if 'done:' in l]
        rep = None
        if viol:
            try:
                j = json.load(open(viol[0].split('replay=')[1].split()[0])); rep = dict(kind=j.get('kind'), what=(j.get('what') or j.get('obligation')), n=j.get('n_violations'), broken=j.get('broken_obligations') or [x['obligation'] for x in j.get('all_broken', [])])
            except Exception: pass
        results[p] = dict(alarm=bool(viol), line=viol[0] if viol else None, summary=done[-1] if done else o[-300:], replay=rep, wall_s=round(time.time() - t, 1))
        print(sid, p, 'ALARM' if viol else 'quiet', '|', (viol[0] if viol else '')[:120])
finally:
    sh('git -C /repo checkout -- .')
json.dump(meta, open(mp, 'w'), indent=1)
