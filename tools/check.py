"""Entry point: ./check Cxx --tier quick|thorough [--replay path] ; ./check setup ; ./check all --tier quick"""
import sys, os, argparse, importlib, json, time, traceback
from tools import vlib

def main():
    ap = argparse.ArgumentParser()
    ap.add_argument('prop')
    ap.add_argument('--tier', default=os.environ.get('VERIF_TIER', 'quick'), choices=['quick', 'thorough'])
    ap.add_argument('--replay', default=None)
    ap.add_argument('--seed', type=int, default=int(os.environ.get('VERIF_SEED', '20260930')))
    a = ap.parse_args()
    if a.prop == 'setup':
        return setup()
    if a.prop == 'all':
        rc = 0
        for m in json.load(open(os.path.join(vlib.VERIF, 'MANIFEST.json')))['checks']:
            r = os.system('./check %s --tier %s' % (m['property_id'], a.tier))
            rc = rc or (r >> 8)
        return rc
    prop = a.prop.upper()
    mod = importlib.import_module('tools.props.' + prop.lower())
    ctx = vlib.Ctx(prop, a.tier, a.seed, replay=a.replay)
    try:
        if a.replay:
            return mod.replay(ctx, a.replay)
        return mod.run(ctx)
    except Exception as e:
        # an internal failure of the machinery is never reported as a pass
        traceback.print_exc()
        ctx.broken.append(('machinery', '%s: %s' % (type(e).__name__, e)))
        return ctx.finish() or 1

def setup():
    t0 = time.time()
    errs, meta = vlib.regenerate()
    for g, m in errs: print('translate error:', g, m)
    rc, out = vlib.coq_make_all()
    print(out[-3000:])
    if rc != 0:
        print('coq build failed'); return 1
    fails = vlib.need_models(list(vlib.MODELS))
    for n, log in fails: print('model build failed:', n, log)
    print('setup done in %.0fs' % (time.time() - t0))
    return 1 if (fails or errs) else 0

if __name__ == '__main__':
    sys.exit(main())
