"""Regenerates MANIFEST.json from the table below (keeps it valid: every property is either claimed or listed not_applicable)."""
import json, os
V = os.path.dirname(os.path.dirname(os.path.abspath(__file__)))
TB = 'Trusted: Coq 8.16.1 kernel + vm_compute (no native_compute), tools/translate (ast -> coq/Gen, fail-closed), ExtrOcamlBasic extraction + ocamlopt, the correspondence harness and CPython 3.12.1. '
CHECKS = {
 'C01': dict(
   text='Theorems over the regenerated class world and call graph: for EVERY tag string outside the 12 core tags SafeLoader/CSafeLoader dispatch to construct_undefined and BaseLoader/CBaseLoader to the node-kind default (all strings, via the effective tables computed from the regenerated import-time registration program and the dispatch block checked against its normal form); the closure of the regenerated call graph of constructor.py from the loader entry points (through the effective tables, self.*/super() edges along each MRO, `if unsafe:` branches included) reaches no name-resolving or instantiating method and makes no __import__/getattr-on-named/setattr/eval/dynamic call; the C loaders inherit exactly the same constructor classes. Value-level confinement (every built object is plain, nothing is imported or called, non-core tags rejected in every nesting/alias/merge context) is decided by the construct correspondence and by a direct run of all four safe/base loader classes under audit and profile hooks over the whole registered tag vocabulary. FULL only-YAML-errors is refuted (converter crashes, known findings).',
   note=TB + 'The LibYAML parsing half of CSafeLoader/CBaseLoader is observed only. Policy of allowed leaf calls is frozen in coq/Spec/Confinement.v. C-level instantiation is detected through result types.',
   technique='Coq proof (dispatch closure over all tag strings + call-graph closure on regenerated tables) + construct correspondence + direct run under audit/profile hooks', ref='DESIGN.md section 8 C01'),
 'C04': dict(
   text='Theorems over the regenerated class world and call graph: for EVERY suffix the tags python/object:, python/object/new:, python/object/apply:, python/module: dispatch to construct_undefined on FullLoader/CFullLoader (string-prefix reasoning over the regenerated exact and multi tables); an instantiating multi-constructor is effective exactly on the unsafe classes (all shipped classes enumerated); with `if unsafe:` branches dead (no reachable call site passes unsafe=) the call-graph closure of the full loaders contains no __import__, no make_python_instance/set_python_instance_state/find_python_module and no dynamic call - beyond plain data only getattr/hasattr, tuple() and complex(). Effects and the value universe are decided by a direct run of FullLoader/CFullLoader under audit + profile hooks and a sys.modules snapshot over the python/* vocabulary x dotted names.',
   note=TB + 'The FullConstructor value semantics are not modelled (constructor model covers Safe/Base). Module __getattr__ hooks and C-level instantiation are outside what is observed except through result types.',
   technique='Coq proof (prefix-closed dispatch + call-graph closure on regenerated tables) + direct run under audit/profile hooks', ref='DESIGN.md section 8 C04'),
 'C02': dict(
   text='Theorem (all texts over printable ASCII + the single-letter and \\xHH escapes, any length, any scanner state): what write_double_quoted writes without folding is scanned back by scan_flow_scalar to exactly the same text and consumes exactly the quoted span - the universal fallback style of the dumper. FULL round trip (value graph -> text -> value graph, all options) is NOT a theorem: it is decided by the exact correspondence of every pipeline stage (represent+serialize events, emitter text, scanner tokens, parser events, composer+constructor graphs) between the Coq model and the implementation, and by a direct dump/load run over generated value graphs x a sampled option product x all four Python/LibYAML dumper-loader pairs.',
   note=TB + 'Partial: one scalar style without folding is proved; the remaining layers rest on correspondence + direct runs. float repr/parse is CPython. LibYAML is observed only.',
   technique='Coq proof (double-quoted writer/scanner round trip) + model/implementation correspondence of all pipeline stages + direct round-trip run', ref='DESIGN.md section 8 C02'),
 'C03': dict(
   text='Theorems on the models with explicit Crash/OutOfFuel outcomes: Reader.forward never crashes inside the buffer, the UTF-8 decoder terminates within |bytes|+1 steps with characters or a positioned error, anchor scanning under the NUL-sentinel invariant ends in a token or a ScannerError positioned inside the buffer, the parser over any token list ending in its only STREAM-END does not crash in its first and document-end steps; the full statement is refuted on the model by the \\UFFFFFFFF witness (known finding). scanner_total/parser_total/composer_total are not proved: the outcome class (including the class of any non-YAML exception) of reader, scanner, parser and composer is compared with the model on a malformed-input stream, and the implementation is run on the same stream in all delivery forms under a watchdog (result or YAMLError only, marks inside the input), Python and LibYAML.',
   note=TB + 'Partial: totality is proved for the listed pieces only. Nesting below the recursion limit. LibYAML is observed only.',
   technique='Coq proof (safety lemmas on models with explicit crash outcomes) + outcome-class correspondence + direct watchdog run', ref='DESIGN.md section 8 C03'),
 'C05': dict(
   text='Theorem: the double-quoted scalar writer/scanner round trip (as C02). The emitter model (all of emitter.py: states, analysis, style choice, five writers) is compared with yaml.emit on the exact text, including text written before an error, over generated well-formed and ill-formed event streams x options; the direct run emits and re-parses on both back-ends comparing structure, anchors, scalar text, tags (elision only when licensed by the implicit flag of the written style) and directives, and checks that ill-formed streams (exhaustive up to a bounded length) only raise EmitterError.',
   note=TB + 'Partial: structural emit/parse theorems are not proved; exact-text correspondence and the direct run decide them. LibYAML is observed only.',
   technique='Coq proof (scalar layer) + exact-text emitter correspondence + direct emit/parse run', ref='DESIGN.md section 8 C05'),
 'C07': dict(
   text='Theorems on the reader model\'s incremental UTF-8 decoder (CPython\'s exact error offsets and lazy ED A0 behaviour included): feeding ANY list of reads non-finally with the undecoded tail carried over equals one final decode of the concatenation (characters, or error offset/byte/reason), hence any two chunkings of the same bytes agree; the decoder\'s fuel is irrelevant. UTF-16, encoding detection and line/column equality across forms are decided by the reader correspondence (four input forms x schedules x demand scripts incl. the read() log) and by a direct run over str / UTF-8 / UTF-8+BOM / UTF-16-LE/BE+BOM / StringIO / BytesIO / short-read streams with every split position for small documents. FULL same-error-for-every-delivery is refuted when an input has two competing errors (known finding).',
   note=TB + 'Partial as stated. A read() returning an empty result is EOF. LibYAML is observed only (line/column).',
   technique='Coq proof (chunking independence of the incremental decoder) + reader correspondence + direct all-splits run', ref='DESIGN.md section 8 C07'),
 'C09': dict(
   text='Theorems on the scanner model: after forward over ANY consumed prefix the index grew by its length and (line, column) are the ones obtained by classifying each character (CR LF once, U+FEFF not advancing the column), no crash, nothing else moved; the line equals the number of breaks consumed. Every mark of the model is such a snapshot. Monotonicity, bracket balance, the event grammar for all token lists and span=value are not proved: the scan and parse correspondences compare every token/event attribute and every mark with yaml.scan/yaml.parse, and the direct run re-derives every mark of the implementation from the text, recognises the event grammar and bracket balance, checks spans and error marks, exhausts short indicator strings, and drives the parser alone with every token-kind list up to a bounded length.',
   note=TB + 'Partial as stated. LibYAML marks are checked for range, monotonicity and grammar only.',
   technique='Coq proof (position invariant) + scan/parse correspondence incl. all marks + direct mark recomputation and grammar recognisers', ref='DESIGN.md section 8 C09'),
 'C08': dict(
   text='Theorems over ALL strings, decided by a certified regex decision procedure (derivatives + proved soundness) on regexes regenerated from resolver.py/constructor.py on every run: the first-character index never hides a match on plain-scalar texts, the type languages are pairwise disjoint, each language equals the frozen YAML 1.1 reference, the resolver model equals first-match, quoted scalars are str, the constructor timestamp regexp covers the resolver one. Values (int/float/bool/timestamp conversion) and the dump side are tied by correspondence and a direct run against a frozen reference; converter totality is refuted (0x_) and recorded.',
   note=TB + 'Scalar *values* and the dump-side clauses are decided by correspondence (bit-exact) and the direct run, not by theorems; CPython int()/float()/datetime/re are modelled.',
   technique='Coq proof (certified regex inclusion/emptiness on regenerated regexes) + model/implementation correspondence', ref='DESIGN.md section 8 C08'),
 'C10': dict(
   text='Universal theorems (all histories, any length) about the registry model: a registration changes exactly the target class and the subclasses that resolve to it, never bases/siblings/unrelated classes or other table kinds; no two classes ever own the same table object; the effective tables of the shipped safe classes are frozen under every history that does not target their MRO; helper fan-out confined to heirs. The copy-on-write shapes, import-time registration program, MROs and helper fan-out lists are regenerated from /repo on every run; the model is tied to the real classes by evaluating the same generated and bounded-exhaustive histories in Coq (vm_compute) and in CPython.',
   note=TB + 'C3 linearisation of user classes is computed by CPython and given to the model. Implicit-resolver per-character lists are modelled by value (aliasing of those list objects is detected through the tables it corrupts, not proved absent).',
   technique='Coq proof (induction over histories) + regenerated tables + model/implementation correspondence', ref='DESIGN.md section 8 C10'),
}
NA = {}
def main():
    checks = []
    for pid in sorted(CHECKS):
        c = CHECKS[pid]
        checks.append({
            'property_id': pid, 'quick_cmd': './check %s --tier quick' % pid, 'thorough_cmd': './check %s --tier thorough' % pid,
            'evidence_file': 'evidence/%s.json' % pid, 'replay_cmd_template': './check %s --replay {path}' % pid, 'engine': 'coq-model',
            'level_claimed': {'category': c.get('category', 'proof'), 'text': c['text'], 'design_ref': c['ref']},
            'level_note': c['note'], 'technique': c['technique']})
    na = [{'property_id': 'C%02d' % i, 'reason': NA.get('C%02d' % i, 'not yet claimed: its check is still under construction (DESIGN.md section 12 build order); nothing is asserted about it')}
          for i in range(1, 21) if 'C%02d' % i not in CHECKS]
    m = {
     'version': 1, 'setup_cmd': './check setup',
     'hooks': {'guard': 'PYYAML_VERIF', 'enable': 'no source hooks are needed: checks import /repo/lib with PYTHONPATH=/repo/lib; the variable is set by the harness, nothing in /repo reads it',
               'baseline_off_cmd': 'cd /repo && /venv/bin/python -m pytest -ra -q -p no:cacheprovider --timeout=900 --continue-on-collection-errors', 'source_commits': [], 'add_only': True},
     'engines': [{'name': 'coq-model', 'path': 'coq/', 'serves_properties': sorted(CHECKS),
                  'kind_free_text': 'Coq 8.16.1 theorems over an executable Gallina model; Gen tables regenerated from /repo by tools/translate on every run; model <-> implementation correspondence (extracted OCaml drivers, vm_compute case files)'}],
     'checks': checks, 'not_applicable': na,
     'notes': 'properties are added to `checks` as their model, translator items, correspondence and theorems land; see DESIGN.md'}
    json.dump(m, open(os.path.join(V, 'MANIFEST.json'), 'w'), indent=1)
if __name__ == '__main__': main()
