"""Regenerates MANIFEST.json from the table below (keeps it valid: every property is either claimed or listed not_applicable)."""
import json, os
V = os.path.dirname(os.path.dirname(os.path.abspath(__file__)))
TB = 'Trusted: Coq 8.16.1 kernel + vm_compute (no native_compute), tools/translate (ast -> coq/Gen, fail-closed), ExtrOcamlBasic extraction + ocamlopt, the correspondence harness and CPython 3.12.1. '
CHECKS = {
 'C08': dict(
   text='Theorems over ALL strings, decided by a certified regex decision procedure (derivatives + proved soundness) on regexes regenerated from resolver.py/constructor.py on every run: the first-character index never hides a match on plain-scalar texts, the type languages are pairwise disjoint, each language equals the frozen YAML 1.1 reference, the resolver model equals first-match, quoted scalars are str, the constructor timestamp regexp covers the resolver one. Values (int/float/bool/timestamp conversion) and the dump side are tied by correspondence and a direct run against a frozen reference; converter totality is refuted (0x_) and recorded.',
   note=TB + 'Scalar *values* and the dump-side clauses are decided by correspondence (bit-exact) and the direct run, not by theorems; CPython int()/float()/datetime/re are modelled.',
   technique='Coq proof (certified regex inclusion/emptiness on regenerated regexes) + model/implementation correspondence', ref='DESIGN.md section 8 C08'),
 'C10': dict(
   text='Universal theorems (all histories, any length) about the registry model: a registration changes exactly the target class and the subclasses that resolve to it, never bases/siblings/unrelated classes or other table kinds; no two classes ever own the same table object; the effective tables of the shipped safe classes are frozen under every history that does not target their MRO; helper fan-out confined to heirs. The copy-on-write shapes, import-time registration program, MROs and helper fan-out lists are regenerated from /repo on every run; the model is tied to the real classes by evaluating the same generated and bounded-exhaustive histories in Coq (vm_compute) and in CPython.',
   note=TB + 'C3 linearisation of user classes is computed by CPython and given to the model. Implicit-resolver per-character lists are modelled by value (aliasing of those list objects is detected through the tables it corrupts, not proved absent).',
   technique='Coq proof (induction over histories) + regenerated tables + model/implementation correspondence', ref='DESIGN.md section 8 C10'),
}
NA = {}
def main():
    checks = []
    for pid in sorted(CHECKS):
        c = CHECKS[pid]
        checks.append({
            'property_id': pid, 'quick_cmd': './check %s --tier quick' % pid, 'thorough_cmd': './check %s --tier thorough' % pid,
            'evidence_file': 'evidence/%s.json' % pid, 'replay_cmd_template': './check %s --replay {path}' % pid, 'engine': 'coq-model',
            'level_claimed': {'category': c.get('category', 'proof'), 'text': c['text'], 'design_ref': c['ref']},
            'level_note': c['note'], 'technique': c['technique']})
    na = [{'property_id': 'C%02d' % i, 'reason': NA.get('C%02d' % i, 'not yet claimed: its check is still under construction (DESIGN.md section 12 build order); nothing is asserted about it')}
          for i in range(1, 21) if 'C%02d' % i not in CHECKS]
    m = {
     'version': 1, 'setup_cmd': './check setup',
     'hooks': {'guard': 'PYYAML_VERIF', 'enable': 'no source hooks are needed: checks import /repo/lib with PYTHONPATH=/repo/lib; the variable is set by the harness, nothing in /repo reads it',
               'baseline_off_cmd': 'cd /repo && /venv/bin/python -m pytest -ra -q -p no:cacheprovider --timeout=900 --continue-on-collection-errors', 'source_commits': [], 'add_only': True},
     'engines': [{'name': 'coq-model', 'path': 'coq/', 'serves_properties': sorted(CHECKS),
                  'kind_free_text': 'Coq 8.16.1 theorems over an executable Gallina model; Gen tables regenerated from /repo by tools/translate on every run; model <-> implementation correspondence (extracted OCaml drivers, vm_compute case files)'}],
     'checks': checks, 'not_applicable': na,
     'notes': 'properties are added to `checks` as their model, translator items, correspondence and theorems land; see DESIGN.md'}
    json.dump(m, open(os.path.join(V, 'MANIFEST.json'), 'w'), indent=1)
if __name__ == '__main__': main()
