"""Class family for C17: one class per reduction shape of the copy/pickle protocol, with structural equality, plus a canonical
form of object graphs (identity numbering, cycles) so that the YAML rebuild and the pickle-2 rebuild can be compared."""
import enum, collections, math, os.path, types, dataclasses

class PlainDict:
    def __init__(self, **kw): self.__dict__.update(kw)
class Slots:
    __slots__ = ('a', 'b')
    def __init__(self, a=None, b=None): self.a = a; self.b = b
class SlotsChild(Slots):
    __slots__ = ('c',)
    def __init__(self, a=None, b=None, c=None): Slots.__init__(self, a, b); self.c = c
class SlotsAndDict(Slots):
    def __init__(self, a=None, b=None, **kw): Slots.__init__(self, a, b); self.__dict__.update(kw)
class GetSet:
    def __init__(self, x=None, y=None): self.x = x; self.y = y
    def __getstate__(self): return {'x': self.x, 'y': self.y}
    def __setstate__(self, st): self.x = st['x']; self.y = st['y']
class GetSetTuple:
    def __init__(self, x=None, y=None): self.x = x; self.y = y
    def __getstate__(self): return (self.x, self.y)
    def __setstate__(self, st): self.x, self.y = st
class GetSetFalsy:
    """__getstate__ returns a falsy non-None state (0): pickle calls __setstate__(0), YAML never does (known finding)"""
    def __init__(self): self.restored = False
    def __getstate__(self): return 0
    def __setstate__(self, st): self.restored = True
class NewArgs:
    def __new__(cls, p, q=0):
        o = object.__new__(cls); o.p = p; o.q = q; return o
    def __getnewargs__(self): return (self.p, self.q)
class ReduceList:
    def __init__(self, name): self.name = name; self.items = []; self.tag = None
    def append(self, x): self.items.append(x)
    def extend(self, xs): self.items.extend(xs)
    def __reduce__(self): return (ReduceList, (self.name,), {'tag': self.tag}, iter(self.items), None)
class ReduceDict:
    def __init__(self, name): self.name = name; self.d = {}
    def __setitem__(self, k, v): self.d[k] = v
    def __reduce__(self): return (ReduceDict, (self.name,), None, None, iter(self.d.items()))
class ListSub(list):
    pass
class DictSub(dict):
    pass
class ListSubAttr(list):
    def __init__(self, *a): list.__init__(self, *a); self.note = 'n'
class LimitList(list):
    """append honours a limit kept in the state: YAML applies the state before the items, pickle after (known finding)"""
    def __init__(self): list.__init__(self); self.limit = 10 ** 9
    def append(self, x):
        if len(self) < self.limit: list.append(self, x)
    def extend(self, xs):
        for x in xs: self.append(x)
    def __reduce__(self): return (LimitList, (), {'limit': self.limit}, iter(list(self)), None)
class UpperKeys(dict):
    """dict subclass whose __setitem__ normalises keys; pickle restores items through __setitem__"""
    def __setitem__(self, k, v): dict.__setitem__(self, k.upper() if isinstance(k, str) else k, v)
class Doubling(dict):
    def __setitem__(self, k, v): dict.__setitem__(self, k, v * 2 if isinstance(v, (int, str)) and not isinstance(v, bool) else v)
class Tracking(list):
    """list subclass whose append/extend record how many items came through them"""
    def __init__(self, *a): list.__init__(self, *a); self.seen = 0
    def append(self, x): self.seen += 1; list.append(self, x)
    def extend(self, xs):
        for x in xs: self.append(x)
@dataclasses.dataclass(frozen=True, eq=False)
class Frozen:
    """instance-dict class that refuses attribute assignment: pickle's BUILD fills __dict__ directly, never through setattr"""
    x: object = None
    y: object = None
class Sealed:
    """__setattr__ raises once the object is sealed; the state is an ordinary __dict__"""
    def __init__(self, **kw): self.__dict__.update(kw); self.__dict__['sealed'] = True
    def __setattr__(self, name, value): raise AttributeError('%s is sealed' % type(self).__name__)
class Shadowed:
    """a read-only property shadows an entry of the instance dictionary"""
    size = property(lambda self: len(self.__dict__))
    def __init__(self, **kw): self.__dict__.update(kw); self.__dict__['size'] = 'in dict'
class Color(enum.Enum):
    RED = 1; BLUE = 2
Point = collections.namedtuple('Point', 'x y')
def some_function(x): return x
class Handle:
    """reduced through a function registered with copyreg.pickle (the table pickle consults BEFORE __reduce_ex__): only `path` survives, the rest is rebuilt"""
    def __init__(self, path): self.path = path; self.cache = {}; self.generation = 0
def _reduce_handle(h): return (Handle, (h.path,))
import copyreg as _copyreg
_copyreg.pickle(Handle, _reduce_handle)
def dispatch_table_objects():
    """objects whose exact type has an entry in copyreg.dispatch_table"""
    import re as _re
    h = Handle('/srv/data'); h.cache.update(a=0, b=1); h.generation = 2
    return {'copyreg_handle': h, 'copyreg_shared': {'all': [h, h], 'primary': h}, 're_pattern': _re.compile('a+b', _re.I), 're_pattern_bytes': [_re.compile(b'x.y', _re.S)]}

SLOT_CLASSES = (Slots, SlotsChild, SlotsAndDict)
def canon(root):
    """type-strict canonical text with identity numbering; instances show class, slots, __dict__ and container content"""
    seen = {}
    def v(o):
        if o is None or isinstance(o, (bool, int, str, bytes)): return repr(o)
        if isinstance(o, float): return 'nan' if o != o else repr(o)
        if isinstance(o, complex): return 'complex(%r,%r)' % (o.real, o.imag)
        if isinstance(o, enum.Enum): return 'enum:%s.%s' % (type(o).__name__, o.name)
        if isinstance(o, (type, types.FunctionType, types.BuiltinFunctionType, types.ModuleType)): return 'name:%s.%s' % (getattr(o, '__module__', ''), getattr(o, '__qualname__', getattr(o, '__name__', '?')))
        if id(o) in seen: return '#%d' % seen[id(o)]
        k = len(seen); seen[id(o)] = k
        parts = [type(o).__module__ + '.' + type(o).__name__]
        if isinstance(o, (list, tuple)): parts.append('[' + ','.join(v(x) for x in o) + ']')
        elif isinstance(o, dict): parts.append('{' + ','.join(v(a) + ':' + v(b) for a, b in (o.items() if isinstance(o, collections.OrderedDict) else sorted(o.items(), key=lambda kv: repr(kv[0])))) + '}')
        elif isinstance(o, (set, frozenset)): parts.append('{' + ','.join(v(x) for x in sorted(o, key=repr)) + '}')
        slots = []
        for c in type(o).__mro__:
            for s in getattr(c, '__slots__', ()) if isinstance(getattr(c, '__slots__', ()), (tuple, list)) else ():
                if hasattr(o, s): slots.append('%s=%s' % (s, v(getattr(o, s))))
        if slots: parts.append('slots(' + ','.join(sorted(slots)) + ')')
        d = getattr(o, '__dict__', None)
        if isinstance(d, dict) and d: parts.append('dict(' + ','.join('%s=%s' % (a, v(b)) for a, b in sorted(d.items(), key=lambda kv: repr(kv[0]))) + ')')
        return '#%d=' % k + ' '.join(parts)
    return v(root)

def build(rng, depth, pool, allow_special=True):
    """random object graph over the family nested in safe containers, with sharing; returns the object"""
    r = rng.random()
    if pool and r < 0.12: return rng.choice(pool)
    if depth <= 0 or r < 0.3:
        return rng.choice([None, True, 3, -1.5, 'text', 'yes', b'by', (1, 'a'), 2 + 3j, Color.RED, Color.BLUE, Point(1, 2), PlainDict, some_function, collections.OrderedDict, len, (), float('inf'), os.path.join])
    sub = lambda: build(rng, depth - 1, pool, allow_special)
    kinds = ['upperkeys', 'doubling', 'plain', 'slots', 'slotschild', 'slotsdict', 'getset', 'getsettuple', 'newargs', 'reducelist', 'reducedict', 'listsub', 'dictsub', 'listsubattr', 'list', 'dict', 'tuple', 'odict', 'set', 'point', 'frozen', 'sealed', 'shadowed', 'slotsdict_empty']
    k = rng.choice(kinds)
    if k == 'upperkeys': o = UpperKeys({'raw%d' % i: sub() for i in range(rng.choice([0, 1, 2]))})       # built through dict(): keys are still raw
    elif k == 'doubling': o = Doubling({'k%d' % i: rng.choice([1, 'ab', 2.5]) for i in range(rng.choice([0, 1, 2]))})
    elif k == 'plain': o = PlainDict(a=sub(), b=sub())
    elif k == 'slots': o = Slots(sub(), sub())
    elif k == 'slotschild': o = SlotsChild(sub(), 1, sub())
    elif k == 'slotsdict': o = SlotsAndDict(sub(), 2, extra=sub())
    elif k == 'getset': o = GetSet(sub(), sub())
    elif k == 'getsettuple': o = GetSetTuple(sub(), 'y')
    elif k == 'newargs': o = NewArgs(rng.choice([1, 'p', (1, 2)]), sub() if rng.random() < 0.5 else 0)
    elif k == 'reducelist':
        o = ReduceList('rl'); o.tag = rng.choice([None, 't'])
        for _ in range(rng.choice([0, 1, 3])): o.append(sub())
    elif k == 'reducedict':
        o = ReduceDict('rd')
        for i in range(rng.choice([0, 1, 3])): o['k%d' % i] = sub()
    elif k == 'listsub': o = ListSub([sub() for _ in range(rng.choice([0, 1, 3]))])
    elif k == 'dictsub': o = DictSub({'k%d' % i: sub() for i in range(rng.choice([0, 1, 2]))})
    elif k == 'listsubattr': o = ListSubAttr([sub() for _ in range(rng.choice([0, 2]))])
    elif k == 'list': o = [sub() for _ in range(rng.choice([0, 1, 3]))]
    elif k == 'dict': o = {rng.choice(['a', 'b', 1, (1, 2)]): sub() for _ in range(rng.choice([0, 1, 3]))}
    elif k == 'tuple': o = tuple(sub() for _ in range(rng.choice([1, 2, 3])))
    elif k == 'odict': o = collections.OrderedDict([('k%d' % i, sub()) for i in range(rng.choice([0, 1, 3]))])
    elif k == 'set': o = set(rng.sample([1, 2, 'a', 'b', (1, 2), None], rng.choice([0, 1, 3])))
    elif k == 'slotsdict_empty': o = SlotsAndDict(sub(), 3)          # inherited __slots__, an empty __dict__: copyreg reduces it to (None, {slots})
    elif k == 'frozen': o = Frozen(sub(), sub())
    elif k == 'sealed': o = Sealed(p=sub(), q=sub())
    elif k == 'shadowed': o = Shadowed(p=sub())
    else: o = Point(sub(), sub())
    if isinstance(o, (list, dict)) or hasattr(o, '__dict__'): pool.append(o)
    return o

def add_cycle(rng, root, pool):
    """tie a cycle; returns (root, kind) with kind in 'list' | 'dict' | 'instance_dict' | 'args' | 'setstate' """
    kind = rng.choice(['list', 'dict', 'instance_dict', 'args', 'setstate', 'reduce_state', 'reduce_items', 'deep_then_nested_cycle', 'deep_then_nested_cycle'])
    if kind == 'list':
        l = [root]; l.append(l); return l, kind
    if kind == 'dict':
        d = {'x': root}; d['self'] = d; return d, kind
    if kind == 'instance_dict':
        o = PlainDict(a=root); o.me = o; return o, kind
    if kind == 'args':
        l = []; t = (1, l); l.append(t)            # a tuple reachable from itself: tuples are built from their (deep) items
        return [root, t], kind
    if kind == 'deep_then_nested_cycle':
        # a deep (__setstate__) construction whose state refers twice to one node, followed - one level down - by a self-referencing list
        shared = [1, 2]; r = []; r.append(r); r.append('tail')
        return [GetSet(shared, shared), root, [r], {'again': [r, shared]}], kind
    if kind == 'reduce_state':
        o = ReduceList('c'); o.append(root); o.tag = o     # the object is inside the state of its own reduce tuple
        return o, kind
    if kind == 'reduce_items':
        o = ReduceList('c'); o.append(root); o.append(o)   # the object is one of its own list items
        return o, kind
    o = GetSet(root, None); o.y = o                # the object is part of its own __setstate__ state
    return o, kind

# ---- instrumented probe for the protocol correspondence with coq/Model/Pickle.v
LOG = []
import copyreg
class Probe:
    shape = None          # (newobj, args, state, listitems, dictitems) returned by __reduce_ex__
    def __new__(cls, *a):
        o = object.__new__(cls); LOG.append(('new', list(a))); return o
    def __init__(self, *a): LOG.append(('init', list(a)))
    def __reduce_ex__(self, proto):
        newobj, args, state, li, di = Probe.shape
        f = copyreg.__newobj__ if newobj else Probe
        a = ((Probe,) + tuple(args)) if newobj else tuple(args)
        return (f, a, state, None if li is None else iter(li), None if di is None else iter(di))
    def __setstate__(self, s): LOG.append(('setstate', s))
    def extend(self, xs): LOG.append(('extend', list(xs)))
    def append(self, x): LOG.append(('extend', [x]))
    def __setitem__(self, k, v): LOG.append(('setitem', (k, v)))

def probe_ops(log):
    """observed protocol calls -> the op vocabulary of Model/Pickle.v"""
    ops = []
    by_new = None; args = None
    for k, x in log:
        if k == 'new':
            if by_new is None: by_new, args = True, x
        elif k == 'init':
            if by_new is None or True: 
                if ops and ops[0][0] == 'create': pass
            by_init = True
        elif k == 'setstate': ops.append(('setstate', x))
        elif k == 'extend':
            if ops and ops[-1][0] == 'extend': ops[-1] = ('extend', ops[-1][1] + x)
            else: ops.append(('extend', x))
        elif k == 'setitem':
            if ops and ops[-1][0] == 'setitems': ops[-1] = ('setitems', ops[-1][1] + [x])
            else: ops.append(('setitems', [x]))
    called_init = any(k == 'init' for k, _ in log)
    return [('create', not called_init, args or [])] + ops

# ---- instrumented classes for the state-application correspondence with coq/Model/PickleState.v
SLOG = []
class _SLogS:
    __slots__ = ()
    STATE = None
    def __setattr__(self, k, v): SLOG.append(('setattr', k)); object.__setattr__(self, k, v)
    def __reduce_ex__(self, proto): return (copyreg.__newobj__, (type(self),), type(self).STATE)
class PSSlots(_SLogS):
    __slots__ = ('a', 'b')
class PSBoth(PSSlots): pass                          # inherited slots and a __dict__
class _SLogD:
    STATE = None
    __setattr__ = _SLogS.__setattr__
    __reduce_ex__ = _SLogS.__reduce_ex__
class PSDict(_SLogD): pass
def _ss(self, st): SLOG.append(('setstate',))
class PSSlotsS(PSSlots):
    __slots__ = ()
    __setstate__ = _ss
class PSBothS(PSBoth): __setstate__ = _ss
class PSDictS(PSDict): __setstate__ = _ss
STATE_CLASSES = {'slots': PSSlots, 'both': PSBoth, 'dict': PSDict, 'slots_s': PSSlotsS, 'both_s': PSBothS, 'dict_s': PSDictS}
STATE_SHAPES = {'d0': {}, 'd1': {'a': 1}, 'p00': ({}, {}), 'p10': ({'a': 1}, {}), 'p01': ({}, {'b': 2}), 'p11': ({'a': 1}, {'b': 2}), 'pN0': (None, {}), 'pN1': (None, {'b': 2})}
def observe_state(run):
    """the operations of Model/PickleState.v observed while `run` rebuilds an instance"""
    SLOG[:] = []
    try: inst = run()
    except AttributeError: return ['AttrError']
    log = list(SLOG)
    if ('setstate',) in log: return ['CallSetstate']
    ops = []
    d = getattr(inst, '__dict__', {})
    if [k for k in d if ('setattr', k) not in log]: ops.append('DictUpdate')
    if any(l[0] == 'setattr' for l in log): ops.append('SetAttrs')
    return ops
