open Load_ext
let rec int_of_pos = function XH -> 1 | XO p -> 2 * int_of_pos p | XI p -> 2 * int_of_pos p + 1
let int_of_n = function N0 -> 0 | Npos p -> int_of_pos p
let rec pos_of_int n = if n = 1 then XH else if n land 1 = 0 then XO (pos_of_int (n lsr 1)) else XI (pos_of_int (n lsr 1))
let n_of_int n = if n = 0 then N0 else Npos (pos_of_int n)
let rec int_of_nat = function O -> 0 | S n -> 1 + int_of_nat n
(* big integers as decimal strings: positive -> string via repeated division is slow; use hex-like binary string *)
let rec bits_of_pos = function XH -> "1" | XO p -> bits_of_pos p ^ "0" | XI p -> bits_of_pos p ^ "1"
let zstr = function Z0 -> "0" | Zpos p -> "b" ^ bits_of_pos p | Zneg p -> "-b" ^ bits_of_pos p
let nstr = function N0 -> "0" | Npos p -> "b" ^ bits_of_pos p
let str s = String.concat "," (List.map (fun c -> string_of_int (int_of_n c)) s)
let fl = function FNan -> "Fnan" | FInf n -> if n then "F-inf" else "Finf" | FFin (n, m, e) -> Printf.sprintf "F%s%s_%s" (if n then "-" else "+") (nstr m) (zstr e)
let show (root, heap) =
  let heap = Array.of_list heap in
  let seen = Hashtbl.create 16 in
  let rec v = function
    | PNone -> "N" | PBool b -> if b then "B1" else "B0" | PInt z -> "I" ^ zstr z | PFloat f -> fl f
    | PStr s -> "S" ^ str s | PBytes b -> "Y" ^ str b
    | PDate (y, m, d) -> Printf.sprintf "D%s/%s/%s" (zstr y) (zstr m) (zstr d)
    | PDateTime (y, mo, d, h, mi, s, us, tz) -> Printf.sprintf "T%s/%s/%s/%s/%s/%s/%s/%s" (zstr y) (zstr mo) (zstr d) (zstr h) (zstr mi) (zstr s) (zstr us) (match tz with None -> "None" | Some o -> zstr o)
    | PRef a ->
        let a = int_of_nat a in
        (match Hashtbl.find_opt seen a with
         | Some k -> Printf.sprintf "R%d" k
         | None ->
             let k = Hashtbl.length seen in Hashtbl.add seen a k;
             let body = (match heap.(a) with
               | CList l -> "L[" ^ String.concat ";" (List.map v l) ^ "]"
               | CDict l -> "M{" ^ String.concat ";" (List.map (fun (a, b) -> let ka = v a in ka ^ "=>" ^ v b) l) ^ "}"
               | CSet l -> "E{" ^ String.concat ";" (List.sort compare (List.map v l)) ^ "}"
               | CTuple (a, b) -> let x = v a in "U(" ^ x ^ ";" ^ v b ^ ")") in
             Printf.sprintf "R%d=%s" k body)
  in v root
let () =
  try while true do
    let line = input_line stdin in
    match String.split_on_char ' ' line with
    | base :: cps ->
        let cps = List.filter (fun x -> x <> "") cps in
        let text = List.map (fun x -> n_of_int (int_of_string x)) cps in
        let (docs, r) = load_all (base = "1") text in
        List.iter (fun d -> print_endline ("DOC " ^ show d)) docs;
        print_endline (match r with
          | LOk _ -> "END ok"
          | LScan (ScanErr (_, code, _)) -> if int_of_nat code >= 100 then "END ParserError" else "END ScannerError"
          | LScan (Crash IndexError) -> "END IndexError" | LScan (Crash ValueError) -> "END ValueError" | LScan (Crash OverflowError) -> "END OverflowError" | LScan _ -> "END ScanOther"
          | LComposer _ -> "END ComposerError" | LConstructor _ -> "END ConstructorError"
          | LCrash XIndexError -> "END IndexError" | LCrash XKeyError -> "END KeyError" | LCrash XValueError -> "END ValueError"
          | LCrash XTypeError -> "END TypeError" | LCrash XAttributeError -> "END AttributeError" | LCrash XOverflowError -> "END OverflowError"
          | LFuel -> "END FUEL" | LUnmodelled -> "END UNMODELLED")
    | _ -> ()
  done with End_of_file -> ()
