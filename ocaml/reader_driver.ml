open Reader_ext
let rec int_of_pos = function XH -> 1 | XO p -> 2 * int_of_pos p | XI p -> 2 * int_of_pos p + 1
let int_of_n = function N0 -> 0 | Npos p -> int_of_pos p
let rec pos_of_int n = if n = 1 then XH else if n land 1 = 0 then XO (pos_of_int (n lsr 1)) else XI (pos_of_int (n lsr 1))
let n_of_int n = if n = 0 then N0 else Npos (pos_of_int n)
let rec nat_of_int n = if n = 0 then O else S (nat_of_int (n-1))
let rec int_of_nat = function O -> 0 | S n -> 1 + int_of_nat n
let ints s = if s = "" || s = "-" then [] else List.map int_of_string (String.split_on_char ',' s)
let str s = String.concat "," (List.map (fun c -> string_of_int (int_of_n c)) s)
let () =
  try while true do
    let line = input_line stdin in
    match String.split_on_char ' ' line with
    | [form; data; sizes; ops] ->
        let data = List.map n_of_int (ints data) in
        let sizes = List.map nat_of_int (ints sizes) in
        let rec pairs = function a :: b :: r -> (nat_of_int a, nat_of_int b) :: pairs r | _ -> [] in
        let ops = pairs (ints ops) in
        let (obs, r) = (match form with
          | "str" -> run_str data ops | "bytes" -> run_bytes data ops
          | "tstream" -> run_stream true data sizes ops | _ -> run_stream false data sizes ops) in
        let o = List.map (function OChar c -> "c" ^ string_of_int (int_of_n c) | OStr s -> "s" ^ str s
                                 | OPos (i,l,c,sp,nr) -> Printf.sprintf "p%d/%d/%d/%d/%d" (int_of_nat i) (int_of_nat l) (int_of_nat c) (int_of_nat sp) (int_of_nat nr)) obs in
        Printf.printf "%s | %s\n" (String.concat " " o)
          (match r with Ok _ -> "ok" | ReaderErr (p, c, k) -> Printf.sprintf "ReaderError %d %d %d" (int_of_nat p) (int_of_n c) (int_of_nat k) | Crash -> "Crash")
    | _ -> failwith "case"
  done with End_of_file -> ()
