open Emit_ext
let rec int_of_pos = function XH -> 1 | XO p -> 2 * int_of_pos p | XI p -> 2 * int_of_pos p + 1
let int_of_n = function N0 -> 0 | Npos p -> int_of_pos p
let rec pos_of_int n = if n = 1 then XH else if n land 1 = 0 then XO (pos_of_int (n lsr 1)) else XI (pos_of_int (n lsr 1))
let n_of_int n = if n = 0 then N0 else Npos (pos_of_int n)
let rec nat_of_int n = if n = 0 then O else S (nat_of_int (n-1))
let rec int_of_nat = function O -> 0 | S n -> 1 + int_of_nat n
let pstr s = if s = "e" then [] else List.map (fun x -> n_of_int (int_of_string x)) (String.split_on_char ',' s)
let ostr s = if s = "-" then None else Some (pstr s)
let b s = s = "1"
let style = function "-" -> None | "\"" -> Some StDouble | "'" -> Some StSingle | "|" -> Some StLiteral | ">" -> Some StFolded | _ -> failwith "style"
let rec events toks = match toks with
  | [] -> []
  | "SS" :: r -> EStreamStart :: events r
  | "SE" :: r -> EStreamEnd :: events r
  | "DS" :: ex :: ver :: nt :: r ->
      let v = if ver = "-" then None else (match String.split_on_char '.' ver with [a;b] -> Some (n_of_int (int_of_string a), n_of_int (int_of_string b)) | _ -> failwith "ver") in
      let n = int_of_string nt in
      let rec take k r acc = if k = 0 then (List.rev acc, r) else (match r with h :: p :: r' -> take (k-1) r' ((pstr h, pstr p) :: acc) | _ -> failwith "tags") in
      let (tags, r') = take n r [] in
      EDocStart (b ex, v, tags) :: events r'
  | "DE" :: ex :: r -> EDocEnd (b ex) :: events r
  | "AL" :: a :: r -> EAlias (ostr a) :: events r
  | "SC" :: a :: t :: i0 :: i1 :: v :: st :: r -> EScalar (ostr a, ostr t, b i0, b i1, pstr v, style st) :: events r
  | "QS" :: a :: t :: i :: f :: r -> ESeqStart (ostr a, ostr t, b i, b f) :: events r
  | "QE" :: r -> ESeqEnd :: events r
  | "MS" :: a :: t :: i :: f :: r -> EMapStart (ostr a, ostr t, b i, b f) :: events r
  | "ME" :: r -> EMapEnd :: events r
  | x :: _ -> failwith ("tok " ^ x)
let () =
  try while true do
    let line = input_line stdin in
    match String.split_on_char ' ' line with
    | "C" :: canon :: uni :: ind :: width :: lb :: rest ->
        let opt s = let n = int_of_string s in if n < 0 then None else Some (nat_of_int n) in
        let s0 = init (b canon) (b uni) (opt ind) (opt width) (pstr lb) in
        let (chunks, r) = emit_all (events rest) s0 in
        let text = List.concat chunks in
        Printf.printf "%s|%s\n" (String.concat "," (List.map (fun c -> string_of_int (int_of_n c)) text))
          (match r with Ok _ -> "OK" | EmitErr (c,_) -> "ERR" | Crash (IndexError,_) -> "CRASH IndexError" | Crash (TypeError,_) -> "CRASH TypeError" | Crash (ValueError,_) -> "CRASH ValueError" | OutOfFuel -> "FUEL")
    | _ -> failwith "case"
  done with End_of_file -> ()
