open Rx_ext
let rec pos_of_int n = if n = 1 then XH else if n land 1 = 0 then XO (pos_of_int (n lsr 1)) else XI (pos_of_int (n lsr 1))
let n_of_int n = if n = 0 then N0 else Npos (pos_of_int n)
let rec nat_of_int n = if n = 0 then O else S (nat_of_int (n-1))
(* one line per case: code points; output: 16 resolver bits (match_nth 0..15), timestamp-constructor bit, and
   the model's resolve tag index is derived by the harness from the bits *)
let () =
  try while true do
    let line = input_line stdin in
    let cps = if line = "" then [] else List.map (fun x -> n_of_int (int_of_string x)) (String.split_on_char ' ' line) in
    let buf = Buffer.create 20 in
    for i = 0 to 15 do Buffer.add_char buf (if match_nth (nat_of_int i) cps then '1' else '0') done;
    Buffer.add_char buf ' ';
    Buffer.add_char buf (if match_ts cps then '1' else '0');
    Buffer.add_char buf ' ';
    Buffer.add_string buf (String.concat "" (List.map (fun c -> if is_non_printable c then "1" else "0") cps));
    print_endline (Buffer.contents buf)
  done with End_of_file -> ()
