open Dump_ext
let rec int_of_pos = function XH -> 1 | XO p -> 2 * int_of_pos p | XI p -> 2 * int_of_pos p + 1
let int_of_n = function N0 -> 0 | Npos p -> int_of_pos p
let rec pos_of_int n = if n = 1 then XH else if n land 1 = 0 then XO (pos_of_int (n lsr 1)) else XI (pos_of_int (n lsr 1))
let n_of_int n = if n = 0 then N0 else Npos (pos_of_int n)
let rec nat_of_int n = if n = 0 then O else S (nat_of_int (n-1))
(* binary string (msb first) -> positive *)
let pos_of_bits s = let p = ref XH in String.iteri (fun i c -> if i > 0 then p := (if c = '1' then XI !p else XO !p)) s; !p
let z_of s = if s = "0" then Z0 else if s.[0] = '-' then Zneg (pos_of_bits (String.sub s 1 (String.length s - 1))) else Zpos (pos_of_bits s)
let nn_of s = if s = "0" then N0 else Npos (pos_of_bits s)
let cps s = if s = "e" then [] else List.map (fun x -> n_of_int (int_of_string x)) (String.split_on_char ',' s)
let str s = if s = [] then "e" else String.concat "," (List.map (fun c -> string_of_int (int_of_n c)) s)
let rec value toks = match toks with
  | "N" :: r -> (PNone, r) | "B1" :: r -> (PBool true, r) | "B0" :: r -> (PBool false, r)
  | "I" :: z :: r -> (PInt (z_of z), r)
  | "Fnan" :: r -> (PFloat FNan, r) | "Finf" :: r -> (PFloat (FInf false), r) | "F-inf" :: r -> (PFloat (FInf true), r)
  | "F" :: sg :: m :: e :: r -> (PFloat (FFin (sg = "-", nn_of m, z_of e)), r)
  | "S" :: s :: r -> (PStr (cps s), r) | "Y" :: s :: r -> (PBytes (cps s), r)
  | "D" :: y :: m :: d :: r -> (PDate (z_of y, z_of m, z_of d), r)
  | "T" :: y :: mo :: d :: h :: mi :: s :: us :: tz :: r -> (PDateTime (z_of y, z_of mo, z_of d, z_of h, z_of mi, z_of s, z_of us, (if tz = "None" then None else Some (z_of tz))), r)
  | "R" :: a :: r -> (PRef (nat_of_int (int_of_string a)), r)
  | x :: _ -> failwith ("value " ^ x) | [] -> failwith "eof"
let rec values n toks acc = if n = 0 then (List.rev acc, toks) else let (v, r) = value toks in values (n-1) r (v :: acc)
let rec cells toks acc = match toks with
  | "L" :: n :: r -> let (vs, r') = values (int_of_string n) r [] in cells r' (CList vs :: acc)
  | "E" :: n :: r -> let (vs, r') = values (int_of_string n) r [] in cells r' (CSet vs :: acc)
  | "M" :: n :: r -> let (vs, r') = values (2 * int_of_string n) r [] in
      let rec pr = function a :: b :: t -> (a, b) :: pr t | _ -> [] in cells r' (CDict (pr vs) :: acc)
  | "ROOT" :: r -> (List.rev acc, fst (value r))
  | x :: _ -> failwith ("cell " ^ x) | [] -> failwith "eofc"
let ostr = function None -> "-" | Some s -> str s
let b x = if x then "1" else "0"
let sty = function None -> "-" | Some c -> string_of_int (int_of_n c)
let show = function
  | SDocStart -> "DS" | SDocEnd -> "DE" | SAlias a -> "AL " ^ str a
  | SScalar (a, t, i0, i1, v, st) -> "SC " ^ ostr a ^ " " ^ str t ^ " " ^ b i0 ^ b i1 ^ " " ^ str v ^ " " ^ sty st
  | SSeqStart (a, t, i, f) -> "QS " ^ ostr a ^ " " ^ str t ^ " " ^ b i ^ " " ^ b f | SSeqEnd -> "QE"
  | SMapStart (a, t, i, f) -> "MS " ^ ostr a ^ " " ^ str t ^ " " ^ b i ^ " " ^ b f | SMapEnd -> "ME"
let () =
  try while true do
    let line = input_line stdin in
    match String.split_on_char ' ' line with
    | ds :: df :: sk :: rest ->
        let (heap, root) = cells rest [] in
        let o = { default_style = (if ds = "-" then None else Some (n_of_int (int_of_string ds)));
                  default_flow = (if df = "-" then None else Some (df = "1")); sort_keys = (sk = "1") } in
        (match dump_doc o heap root with
         | ROk evs -> print_endline (String.concat " ; " (List.map show evs))
         | RRepErr -> print_endline "RepresenterError" | RCrash XValueError -> print_endline "ValueError"
         | RCrash _ -> print_endline "Crash" | RFuel -> print_endline "FUEL" | RUnmod -> print_endline "UNMODELLED")
    | _ -> ()
  done with End_of_file -> ()
