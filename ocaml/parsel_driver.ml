open Parsel_ext
let rec int_of_pos = function XH -> 1 | XO p -> 2 * int_of_pos p | XI p -> 2 * int_of_pos p + 1
let int_of_n = function N0 -> 0 | Npos p -> int_of_pos p
let rec pos_of_int n = if n = 1 then XH else if n land 1 = 0 then XO (pos_of_int (n lsr 1)) else XI (pos_of_int (n lsr 1))
let n_of_int n = if n = 0 then N0 else Npos (pos_of_int n)
let rec int_of_nat = function O -> 0 | S n -> 1 + int_of_nat n
let rec bits_of_pos = function XH -> "1" | XO p -> bits_of_pos p ^ "0" | XI p -> bits_of_pos p ^ "1"
let rec pos_small p k = k > 0 && (match p with XH -> true | XO q | XI q -> pos_small q (k-1))
let num = function N0 -> "0" | Npos p -> if pos_small p 60 then string_of_int (int_of_pos p) else "b" ^ bits_of_pos p
let str s = if s = [] then "e" else String.concat "," (List.map (fun c -> string_of_int (int_of_n c)) s)
let ostr = function None -> "-" | Some s -> str s
let mark m = Printf.sprintf "%d %d %d" (int_of_nat m.m_index) (int_of_nat m.m_line) (int_of_nat m.m_col)
let style = function SPlain -> "plain" | SSingle -> "'" | SDouble -> "\"" | SLiteral -> "|" | SFolded -> ">"
let b x = if x then "1" else "0"
let kind = function
  | VStreamStart -> "StreamStart" | VStreamEnd -> "StreamEnd"
  | VDocStart (ex, v, tags) -> "DocumentStart " ^ b ex ^ " " ^ (match v with None -> "-" | Some (a, c) -> num a ^ "." ^ num c) ^ " " ^
      String.concat ";" (List.map (fun (h, p) -> str h ^ "=" ^ str p) tags)
  | VDocEnd ex -> "DocumentEnd " ^ b ex
  | VAlias a -> "Alias " ^ str a
  | VScalar (a, t, i0, i1, v, st) -> "Scalar " ^ ostr a ^ " " ^ ostr t ^ " " ^ b i0 ^ b i1 ^ " " ^ style st ^ " " ^ str v
  | VSeqStart (a, t, i, f) -> "SequenceStart " ^ ostr a ^ " " ^ ostr t ^ " " ^ b i ^ " " ^ b f
  | VSeqEnd -> "SequenceEnd"
  | VMapStart (a, t, i, f) -> "MappingStart " ^ ostr a ^ " " ^ ostr t ^ " " ^ b i ^ " " ^ b f
  | VMapEnd -> "MappingEnd"
let str_of s = List.map (fun c -> n_of_int (Char.code c)) (List.init (String.length s) (String.get s))
let rec nat_of_int n = if n = 0 then O else S (nat_of_int (n - 1))
let mk i = { m_index = nat_of_int i; m_line = O; m_col = nat_of_int i }
(* one token per word; payloads as in tools/layers/parsel.py *)
let tok_of name =
  match name with
  | "StreamStart" -> TStreamStart | "StreamEnd" -> TStreamEnd | "DocumentStart" -> TDocStart | "DocumentEnd" -> TDocEnd
  | "BlockSequenceStart" -> TBlockSeqStart | "BlockMappingStart" -> TBlockMapStart | "BlockEnd" -> TBlockEnd
  | "FlowSequenceStart" -> TFlowSeqStart | "FlowMappingStart" -> TFlowMapStart | "FlowSequenceEnd" -> TFlowSeqEnd | "FlowMappingEnd" -> TFlowMapEnd
  | "BlockEntry" -> TBlockEntry | "FlowEntry" -> TFlowEntry | "Key" -> TKey | "Value" -> TValue
  | "Alias" -> TAlias (str_of "a") | "Anchor" -> TAnchor (str_of "a")
  | "Tag" -> TTag (Some (str_of "!"), str_of "x") | "TagSecondary" -> TTag (Some (str_of "!!"), str_of "str")
  | "TagUndef" -> TTag (Some (str_of "!e!"), str_of "y") | "TagVerbatim" -> TTag (None, str_of "tag:v")
  | "TagBang" -> TTag (None, str_of "!")
  | "Scalar" -> TScalar (str_of "v", true, SPlain) | "ScalarQuoted" -> TScalar (str_of "q", false, SDouble)
  | "Directive" -> TDirective (str_of "YAML", DYaml (n_of_int 1, n_of_int 1))
  | "DirectiveV2" -> TDirective (str_of "YAML", DYaml (n_of_int 2, n_of_int 0))
  | "DirectiveTag" -> TDirective (str_of "TAG", DTag (str_of "!e!", str_of "tag:e:"))
  | "DirectiveFoo" -> TDirective (str_of "FOO", DNone)
  | _ -> failwith ("unknown token " ^ name)
let () =
  try while true do
    let line = input_line stdin in
    let names = if line = "" then [] else String.split_on_char ' ' line in
    let toks = List.mapi (fun i n -> { t_kind = tok_of n; t_start = mk i; t_end = mk (i + 1) }) names in
    let (evs, r) = parse_all toks in
    List.iter (fun e -> Printf.printf "E %s | %s | %s\n" (kind e.e_kind) (mark e.e_start) (mark e.e_end)) evs;
    (match r with
     | Ok _ -> print_string "END ok\n"
     | ScanErr (c, code, p) -> Printf.printf "END %s %s | %s\n" (if int_of_nat code >= 100 then "ParserError" else "ScannerError") (match c with None -> "none" | Some m -> mark m) (mark p)
     | Crash _ -> print_string "END Crash\n"
     | OutOfFuel -> print_string "END OutOfFuel\n")
  done with End_of_file -> ()
