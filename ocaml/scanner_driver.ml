open Scan_ext
let rec int_of_pos = function XH -> 1 | XO p -> 2 * int_of_pos p | XI p -> 2 * int_of_pos p + 1
let int_of_n = function N0 -> 0 | Npos p -> int_of_pos p
let rec pos_of_int n = if n = 1 then XH else if n land 1 = 0 then XO (pos_of_int (n lsr 1)) else XI (pos_of_int (n lsr 1))
let n_of_int n = if n = 0 then N0 else Npos (pos_of_int n)
let rec int_of_nat = function O -> 0 | S n -> 1 + int_of_nat n
let rec bits_of_pos = function XH -> "1" | XO p -> bits_of_pos p ^ "0" | XI p -> bits_of_pos p ^ "1"
let rec pos_small p k = k > 0 && (match p with XH -> true | XO q | XI q -> pos_small q (k-1))
let num = function N0 -> "0" | Npos p -> if pos_small p 60 then string_of_int (int_of_pos p) else "b" ^ bits_of_pos p
let str s = String.concat "," (List.map (fun c -> string_of_int (int_of_n c)) s)
let mark m = Printf.sprintf "%d %d %d" (int_of_nat m.m_index) (int_of_nat m.m_line) (int_of_nat m.m_col)
let style = function SPlain -> "plain" | SSingle -> "'" | SDouble -> "\"" | SLiteral -> "|" | SFolded -> ">"
let kind = function
  | TStreamStart -> "StreamStart" | TStreamEnd -> "StreamEnd"
  | TDirective (n, v) -> "Directive " ^ str n ^ " " ^ (match v with DNone -> "none" | DYaml (a,b) -> "yaml " ^ num a ^ " " ^ num b | DTag (h,p) -> "tag " ^ str h ^ " " ^ str p)
  | TDocStart -> "DocumentStart" | TDocEnd -> "DocumentEnd" | TBlockSeqStart -> "BlockSequenceStart"
  | TBlockMapStart -> "BlockMappingStart" | TBlockEnd -> "BlockEnd" | TFlowSeqStart -> "FlowSequenceStart"
  | TFlowMapStart -> "FlowMappingStart" | TFlowSeqEnd -> "FlowSequenceEnd" | TFlowMapEnd -> "FlowMappingEnd"
  | TBlockEntry -> "BlockEntry" | TFlowEntry -> "FlowEntry" | TKey -> "Key" | TValue -> "Value"
  | TAlias v -> "Alias " ^ str v | TAnchor v -> "Anchor " ^ str v
  | TTag (h, s) -> "Tag " ^ (match h with None -> "none" | Some h -> "h" ^ str h) ^ " " ^ str s
  | TScalar (v, p, st) -> "Scalar " ^ (if p then "1" else "0") ^ " " ^ style st ^ " " ^ str v
let () =
  try while true do
    let line = input_line stdin in
    let cps = if line = "" then [] else List.map (fun x -> n_of_int (int_of_string x)) (String.split_on_char ' ' line) in
    let (toks, r) = scan_all cps in
    List.iter (fun t -> Printf.printf "T %s | %s | %s\n" (kind t.t_kind) (mark t.t_start) (mark t.t_end)) toks;
    (match r with
     | Ok _ -> print_string "END ok\n"
     | ScanErr (c, code, p) -> Printf.printf "END ScannerError %s | %s | code %d\n" (match c with None -> "none" | Some m -> mark m) (mark p) (int_of_nat code)
     | Crash e -> Printf.printf "END Crash %s\n" (match e with IndexError -> "IndexError" | ValueError -> "ValueError" | OverflowError -> "OverflowError")
     | OutOfFuel -> print_string "END OutOfFuel\n")
  done with End_of_file -> ()
