open Cost_ext
let rec pos_of_int n = if n = 1 then XH else if n land 1 = 0 then XO (pos_of_int (n lsr 1)) else XI (pos_of_int (n lsr 1))
let n_of_int n = if n = 0 then N0 else Npos (pos_of_int n)
let rec int_of_nat = function O -> 0 | S n -> 1 + int_of_nat n
let () =
  try while true do
    let line = input_line stdin in
    let cps = if line = "" then [] else List.map (fun x -> n_of_int (int_of_string x)) (String.split_on_char ' ' line) in
    let ((toks, r), (((a, b), c), d)) = scan_all cps in
    Printf.printf "%s %d %d %d %d %d\n" (match r with Ok _ -> "ok" | _ -> "err") (List.length toks) (int_of_nat a) (int_of_nat b) (int_of_nat c) (int_of_nat d)
  done with End_of_file -> ()
